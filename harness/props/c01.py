"""C01 — deploying the patch makes the diff empty. impl: api._diff_and_patch + formatter.cmd_paths (real), executed on
the specification device (harness/device.py); model: Spec/Device.lean (cross-check of the two device twins) and the
pipeline model (rb.patch); oracle: device == new, second diff/patch empty, along chains of targets."""
import random

from harness import rbgen, device
from harness.props import c16

ID = "C01"
RULE = ("(rulebook, ordering, vendor, old, new_1..new_k): random rulebooks over the rule grammar (nesting<=3, %global, %ordered, "
        "%rewrite, undo_redo/permanent/ignore_changes, !ignore) and ordering rulebooks, block-structured vendors "
        "(huawei/cisco/arista/nexus/b4com reverse prefixes and exits), configs instantiating the rules with one row per "
        "(rule,key) (10%: several), chains of 1..3 successive targets; the patch of every step is executed command by command "
        "on the device specification;" + rbgen.SMALL_RULE % (", one-step chains", "") +
        " non-trivial = the first patch has >=3 commands incl. a nested one; distinct = distinct case "
        "; plus kind=shipped: the SHIPPED rulebooks of huawei/cisco/arista (rule and ordering texts with the vendor functions of "
        "the common kinds), configurations from the rows of the shipped corpus whose rules use default/undo_redo/permanent logic "
        "and the default diff logic, chains of 1-2 steps with changed numbers, real code and device specification only"
        "; plus kind=ordblock: a QoS-policy rulebook whose %ordered rule owns BLOCKS with child lines; chains of 1-3 steps that "
        "reorder/insert/drop blocks while child lines change value under the same (rule,key), appear and vanish (model-compared)")
TRUSTED_BASE = [
    "Lean 4.33 kernel; axioms per theorem listed (subset of propext, Classical.choice, Quot.sound)",
    "Spec/Device.lean (the device 'holding one line per rule and key') is a SPECIFICATION written for this property; its "
    "Python twin harness/device.py is cross-checked against it on every case",
    "formatter.cmd_paths is executed (real code), not modelled here (C09 models it)",
    "harness/rbgen.py + harness/props/c01.py and the compiled Lean driver",
]
ASSUMPTIONS = ["block-structured vendors (Common/BlockExit formatters); set-style vendors (juniper, nokia, routeros) out of scope",
               "no rule row starts with the vendor's negation word", "common logics; vendor %logic functions are parameters"]

VENDORS = ["huawei", "cisco", "arista", "nexus", "b4com"]


def setup_worker():
    c16.setup_worker()


def shards(tier, seed):
    n = 150 if tier == "quick" else 5000
    out = [dict(seed=seed * 1000 + i, n=n) for i in range(16)]
    # the small space of rbgen (30 rulebooks x 104 x 104 ordered config pairs), one-step chains: exhaustively in the
    # thorough tier, a 256th of it (chosen by the seed) in the quick tier
    if tier == "quick":
        out += [dict(kind="small", part=(seed * 2 + i) % 512, parts=512) for i in range(2)]
    else:
        out += [dict(kind="small", part=i, parts=32) for i in range(32)]
    # the SHIPPED rulebooks (rule texts, ordering texts, vendor functions of the common kinds), harness/c01shipped.py
    out += [dict(kind="shipped", seed=seed * 100 + i, n=150 if tier == "quick" else 3000) for i in range(16)]
    out += [dict(kind="ordblock", seed=seed * 100 + 50 + i, n=100 if tier == "quick" else 3000) for i in range(4)]
    return out


def gen(desc):
    if desc.get("kind") == "shipped":
        from harness import c01shipped
        yield from c01shipped.gen(desc)
        return
    if desc.get("kind") == "small":
        for c in rbgen.small_cases(desc["part"], desc["parts"], vendors=("huawei", "cisco", "arista")):
            c["targets"] = [c.pop("new")]
            yield c
        return
    if desc.get("kind") == "ordblock":
        rng = random.Random(desc["seed"])
        for _ in range(desc["n"]):
            yield gen_ordblock(rng)
        return
    rng = random.Random(desc["seed"])
    for _ in range(desc["n"]):
        c = rbgen.gen_case(rng)
        c["vendor"] = rng.choice(VENDORS)
        rtree = rbgen.lines_to_tree([((len(l) - len(l.lstrip(" "))) // 4, l.strip())
                                     for l in c["ptext"].split("\n") if l.strip()])
        targets = [c.pop("new")]
        for _ in range(rng.choice([0, 0, 1, 2])):
            targets.append(rbgen.mutate_cfg(rng, targets[-1], rtree, one_per_key=True))
        c["targets"] = targets
        yield c


ORDBLOCK_PTEXT = "policy *\n    classifier *  %ordered\n        car *\n        remark *\n        filter\n    statistics\n"


def gen_ordblock(rng):
    """blocks of an %ordered rule that carry child lines (a QoS policy with an ordered classifier list): steps reorder,
    insert and drop blocks WHILE child lines of the same blocks change value under the same (rule, key), appear and vanish -
    the combination where the patch logic of the block (common.ordered: undo + re-create a moved block) meets make_pre's
    grouping of a child's removed and added row under one key"""
    names = ["c1", "c2", "c3", "c4", "c5"]

    def body():
        out = []
        if rng.random() < 0.7:
            out.append(["car cir %d" % rng.choice([100, 150, 200]), []])
        if rng.random() < 0.5:
            out.append(["remark dscp %s" % rng.choice(["af11", "ef"]), []])
        if rng.random() < 0.3:
            out.append(["filter", []])
        return out

    def step(blocks):
        blocks = [[r, [list(x) for x in ch]] for r, ch in blocks]
        for b in blocks:                                   # child lines: value changes under the same key, add, drop
            if rng.random() < 0.5:
                b[1] = body()
        if blocks and rng.random() < 0.4:
            blocks.pop(rng.randrange(len(blocks)))
        if rng.random() < 0.5:
            free = [n for n in names if all(r != "classifier " + n for r, _ in blocks)]
            if free:
                blocks.insert(rng.randint(0, len(blocks)), ["classifier " + rng.choice(free), body()])
        if len(blocks) > 1 and rng.random() < 0.6:
            i, j = rng.sample(range(len(blocks)), 2)
            blocks[i], blocks[j] = blocks[j], blocks[i]
        return blocks

    def cfg(blocks):
        return [["policy p1", [list(b) for b in blocks] + ([["statistics", []]] if rng.random() < 0.3 else [])]]
    blocks = [["classifier " + n, body()] for n in rng.sample(names, rng.randint(1, 4))]
    old = cfg(blocks)
    targets = []
    for _ in range(rng.randint(1, 3)):
        blocks = step(blocks)
        targets.append(cfg(blocks))
    return dict(ptext=ORDBLOCK_PTEXT, otext="", vendor=rng.choice(VENDORS), old=old, targets=targets)


def restricted(tree, rules):
    """tree|R: rows some non-ignore rule knows, recursively (what apply_diff_rb keeps)"""
    from annet.annlib import patching
    out = []
    for row, ch in tree:
        match, cr = patching._match_row_to_rules(row, rules)
        if match:
            out.append([row, restricted(ch, cr)])
    return out


def equiv(a, b, rules):
    """equality up to sibling order, except that rows of one %ordered rule keep their order"""
    from annet.annlib import patching
    if sorted(r for r, _ in a) != sorted(r for r, _ in b):
        return False
    groups_a, groups_b = {}, {}
    for lst, g in ((a, groups_a), (b, groups_b)):
        for r, _ in lst:
            m, _cr = patching._match_row_to_rules(r, rules)
            if m and m["attrs"]["diff_logic"].__name__ == "ordered_diff":
                # rows compared by one order-sensitive diff logic form ONE ordered group, whatever rule owns them
                g.setdefault("<ordered group>", []).append(r)
            elif m and m["attrs"]["diff_logic"].__name__ == "rewrite_diff":
                g.setdefault("<rewrite group>", []).append(r)
    if groups_a != groups_b:
        return False
    db = dict((r, c) for r, c in b)
    for r, c in a:
        m, cr = patching._match_row_to_rules(r, rules)
        if not equiv(c, db[r], cr):
            return False
    return True


TREE_PATH_VENDORS = ("huawei", "cisco", "arista", "nexus", "b4com")   # BlockExitFormatter.cmd_paths


def run_chain(case):
    from annet import api
    from annet.vendors import registry_connector
    c16.setup_worker()
    hw = rbgen.Hw(case["vendor"])
    hw.tag = str(hash(case["ptext"] + "|" + case["otext"]))
    rb = rbgen.compile_rb(case["ptext"], case["otext"], case["vendor"])
    c16._PROV.table[hw.vendor + "|" + hw.tag] = rb
    fmt = registry_connector.get()[case["vendor"]].make_formatter()
    reverse = registry_connector.get()[case["vendor"]].reverse
    dev = case["old"]
    steps = []
    try:
        for new in case["targets"]:
            try:
                diff, pt = api._diff_and_patch(c16._Dev(hw), rbgen.to_odict(dev), rbgen.to_odict(new), None, None, False)
            except AssertionError:
                steps.append({"err": "AssertionError"})
                break
            paths = [list(p) for p in fmt.cmd_paths(pt).keys()]
            after = rbgen.to_list(device.apply_cmds(reverse, rb["patching"], paths, rbgen.to_odict(dev)))
            try:
                diff2, pt2 = api._diff_and_patch(c16._Dev(hw), rbgen.to_odict(after), rbgen.to_odict(new), None, None, False)
                second = {"diff": rbgen.dump_diff(diff2), "cmds": [list(p) for p in fmt.cmd_paths(pt2).keys()]}
            except AssertionError:
                second = {"err": "AssertionError"}
            steps.append({"dev": dev, "new": new, "paths": paths, "after": after, "second": second,
                          "patch": rbgen.dump_patch(pt)})
            dev = after
    finally:
        c16._PROV.table.pop(hw.vendor + "|" + hw.tag, None)
    return steps, rb


def impl(case):
    if case.get("kind") == "shipped":
        from harness import c01shipped
        return c01shipped.run(case)
    steps, _ = run_chain(case)
    return {"steps": [dict((k, v) for k, v in s.items() if k in ("paths", "after", "err", "patch")) for s in steps],
            "full": steps}


def requests(case):
    if case.get("kind") == "shipped":
        return []           # vendor functions are outside the model: real code + device specification only
    # the model side needs the real command paths: they are produced by impl; recompute (deterministic)
    steps, _ = run_chain(case)
    reqs = []
    info = rbgen.vendor_info(case["vendor"])
    raw = rbgen.raw_patching(case["ptext"], case["vendor"])
    for s in steps:
        if "err" in s:
            continue
        reqs.append(dict(op="c01.apply", vendor=info, patching=raw, exits=device.EXITS, paths=s["paths"], dev=s["dev"]))
        reqs.append(dict(op="rb.patch", vendor=info, patching=raw, ordering=rbgen.raw_ordering(case["otext"]),
                         old=s["dev"], new=s["new"], do_commit=True, mode="device"))
    return reqs


def model(case, resp):
    steps_i, _ = run_chain(case)
    out = []
    it = iter(resp)
    for s in steps_i:
        if "err" in s:
            out.append({"err": s["err"]})
            continue
        a, p = next(it), next(it)
        if a.get("grammar") is False or p.get("grammar") is False:
            return {"skip": True}
        if "err" in p:
            out.append({"err": p["err"]})
            continue
        # the command paths: the real formatter.cmd_paths against the model's linearisation (ConvergeNested.treePaths,
        # the object of C01_nested_converges_paths) for the block-exit formatters
        paths = p["tree_paths"] if case["vendor"] in TREE_PATH_VENDORS else s["paths"]
        out.append({"paths": paths, "after": a["ok"], "patch": p["patch"]})
    return {"steps": out, "full": steps_i}


def first_difference(dev, new, rules, path=()):
    """(kind, path, logic) of the first row that differs between the device and the target"""
    from annet.annlib import patching
    dn = dict((r, c) for r, c in new)
    dd = dict((r, c) for r, c in dev)
    for r, c in dev:
        m, cr = patching._match_row_to_rules(r, rules)
        if r not in dn:
            return "stale", path + (r,), m["attrs"]["logic"].__name__ if m else None
    for r, c in new:
        m, cr = patching._match_row_to_rules(r, rules)
        if r not in dd:
            return "missing", path + (r,), m["attrs"]["logic"].__name__ if m else None
    for r, c in dev:
        m, cr = patching._match_row_to_rules(r, rules)
        d = first_difference(c, dn[r], cr, path + (r,))
        if d:
            return d
    return None


def mixed_ordered_group(dev, new, rules):
    """same rows everywhere, but somewhere an ordered group that mixes rows of several %ordered rules came out in another order"""
    from annet.annlib import patching
    for name in ("ordered_diff", "rewrite_diff"):
        ga, gb, raws = [], [], set()
        for lst, g in ((dev, ga), (new, gb)):
            for r, _ in lst:
                m, _cr = patching._match_row_to_rules(r, rules)
                if m and m["attrs"]["diff_logic"].__name__ == name:
                    g.append(r)
                    raws.add(m["raw_rule"])
        if ga != gb and sorted(ga) == sorted(gb) and len(raws) >= 2:
            return True
    dn = dict((r, c) for r, c in new)
    for r, c in dev:
        m, cr = patching._match_row_to_rules(r, rules)
        if r in dn and mixed_ordered_group(c, dn[r], cr):
            return True
    return False


def ordered_rows_with_different_ranks(pt):
    """some block of the patch holds two commands of ONE %ordered rule to which the ordering rulebook gives different
    ranks: make_patch sorts them by rank, whatever order the target wants"""
    by_rule = {}
    for row, ch, key in pt:
        if key and "%ordered" in key[1]:
            by_rule.setdefault(key[1], set()).add(key[0])
    if any(len(v) > 1 for v in by_rule.values()):
        return True
    return any(ch and ordered_rows_with_different_ranks(ch) for _, ch, _ in pt)


def removal_after_creation(paths, rules, vendor):
    """some block of the patch removes a (rule, key) AFTER (re-)creating it — only an %order_reverse pin can do that"""
    from annet.annlib import patching
    from annet.vendors import registry_connector
    rev = registry_connector.get()[vendor].reverse + " "

    def slot_of(path):
        r = rules
        m = None
        for w in path:
            m, r = patching._match_row_to_rules(w, r)
            if not m:
                return None
        return (m["raw_rule"], tuple(m["key"]))
    created = set()
    for p in paths:
        last = p[-1]
        if last.startswith(rev):
            sl = slot_of(p[:-1] + [last[len(rev):]])
            if sl is not None and (tuple(p[:-1]), sl) in created:
                return True
        else:
            sl = slot_of(p)
            if sl is not None:
                created.add((tuple(p[:-1]), sl))
    return False


def replaced_in_ordered_group(old, new, rules):
    """somewhere a row of an %ordered rule was replaced by another text with the same (rule, key)"""
    from annet.annlib import patching
    slots_old = {}
    for r, _ in old:
        m, _cr = patching._match_row_to_rules(r, rules)
        if m and m["attrs"]["diff_logic"].__name__ == "ordered_diff":
            slots_old[(m["raw_rule"], tuple(m["key"]))] = r
    for r, _ in new:
        m, _cr = patching._match_row_to_rules(r, rules)
        if m and m["attrs"]["diff_logic"].__name__ == "ordered_diff":
            k = (m["raw_rule"], tuple(m["key"]))
            if k in slots_old and slots_old[k] != r:
                return True
    do = dict((r, c) for r, c in old)
    for r, c in new:
        m, cr = patching._match_row_to_rules(r, rules)
        if r in do and replaced_in_ordered_group(do[r], c, cr):
            return True
    return False


def logics_on_path(path, rules):
    from annet.annlib import patching
    out = []
    for r in path:
        m, rules = patching._match_row_to_rules(r, rules)
        if not m:
            break
        # the logic the RULE TEXT asks for: %ordered / %rewrite decide it whatever %logic says
        raw = str(m.get("raw_rule", ""))
        out.append("ordered" if "%ordered" in raw else "rewrite" if "%rewrite" in raw else m["attrs"]["logic"].__name__)
    return out


def one_row_per_key(tree, rules):
    from annet.annlib import patching
    seen = set()
    for row, ch in tree:
        m, cr = patching._match_row_to_rules(row, rules)
        if not m:
            continue
        k = (m["raw_rule"], tuple(m["key"]))
        if k in seen or not one_row_per_key(ch, cr):
            return False
        seen.add(k)
    return True


def in_domain(case, rules):
    return all(one_row_per_key(t, rules) for t in [case["old"]] + case["targets"])


def oracle(case, r):
    c16.setup_worker()
    if case.get("kind") == "shipped":
        from harness import c01shipped
        return c01shipped.oracle(case, r)
    out = []
    rb = rbgen.compile_rb(case["ptext"], case["otext"], case["vendor"])
    rules = rb["patching"]
    # which lines the rulebook knows must not depend on the code under test: the real restriction (what apply_diff_rb
    # keeps) against the rule language's reading of the same rule text
    try:
        rr = rbgen.ref_rules(case["ptext"])
        for t in [case["old"]] + case["targets"]:
            mine, ref = restricted(t, rules), rbgen.ref_restricted(t, rr)
            if mine != ref:
                return [dict(sig="rulebook-knows-other-lines", what="the rulebook keeps %r of a configuration, the rule "
                             "language says it knows %r" % (mine[:3], ref[:3]))]
    except rbgen.RefOutside:
        pass
    if not in_domain(case, rules):
        return []
    for i, s in enumerate(r["full"]):
        if "err" in s:
            break
        dev_r = restricted(s["after"], rules)
        new_r = restricted(s["new"], rules)
        if not equiv(dev_r, new_r, rules):
            d = first_difference(dev_r, new_r, rules)
            sig = "no-convergence"
            if "%order_reverse" in case["otext"] and removal_after_creation(s["paths"], rules, case["vendor"]):
                sig = "order-reverse-pins-removal-after-creation"
                d = None
            elif d is None and mixed_ordered_group(dev_r, new_r, rules):
                sig = "ordered-rows-of-different-rules-resorted"
            elif d is None and ordered_rows_with_different_ranks(s["patch"]):
                sig = "ordered-rows-resorted-by-ordering-ranks"
            elif d is None and replaced_in_ordered_group(restricted(s["dev"], rules), new_r, rules):
                sig = "ordered-order-after-in-place-replacement"
            if d:
                kind, path, logic = d
                ls = logics_on_path(path, rules)
                if "permanent" in ls:
                    sig = "permanent-row-kept"
                elif logic == "rewrite" and kind == "stale":
                    sig = "rewrite-block-emptied-no-command"
                elif logic == "rewrite" and kind == "missing":
                    sig = "rewrite-same-key-replacement-dropped"
                elif "ignore_changes" in ls:
                    sig = "ignore-changes-no-command"
            out.append(dict(sig=sig, what="step %d: after executing the patch the device differs from the target at %r (%s)" % (
                i, d[1] if d else None, d[0] if d else "order")))
            break
        sec = s["second"]
        if "err" in sec or sec["diff"] or sec["cmds"]:
            out.append(dict(sig="second-diff-not-empty", what="step %d: device equals the target but the second diff/patch is %r" % (i, sec)))
            break
    return out


def nontrivial(case, r):
    if case.get("kind") == "shipped":
        from harness import c01shipped
        return c01shipped.nontrivial(case, r)
    s = r["full"][0] if r["full"] else {}
    p = s.get("paths", [])
    return len(p) >= 3 and any(len(x) > 1 for x in p)


def stats(case, r):
    if case.get("kind") == "shipped":
        from harness import c01shipped
        return c01shipped.stats(case, r)
    lab = ["vendor=" + case["vendor"], "chain=%d" % len(case["targets"])]
    if case["ptext"] == ORDBLOCK_PTEXT:
        lab.append("family=ordered-blocks-with-children")
    rb = rbgen.compile_rb(case["ptext"], case["otext"], case["vendor"])
    lab.append("in-domain" if in_domain(case, rb["patching"]) else "several-rows-per-key(out of domain)")
    s = r["full"][0] if r["full"] else {}
    if "err" in s:
        lab.append("result=" + s["err"])
    else:
        n = len(s.get("paths", []))
        lab.append("cmds=%s" % ("0" if n == 0 else "1-3" if n <= 3 else "4-9" if n <= 9 else "10+"))
    for kw in ("%ordered", "%rewrite", "%global", "undo_redo", "permanent", "ignore_changes"):
        if kw in case["ptext"]:
            lab.append("rb:" + kw)
    return lab


def shrink_candidates(case):
    if case.get("kind") == "shipped":
        from harness import c01shipped
        yield from c01shipped.shrink_candidates(case)
        return

    def drops(tree):
        for i in range(len(tree)):
            yield tree[:i] + tree[i + 1:]
            for sub in drops(tree[i][1]):
                yield tree[:i] + [[tree[i][0], sub]] + tree[i + 1:]
    if len(case["targets"]) > 1:
        yield dict(case, targets=case["targets"][:-1])
        yield dict(case, old=case["targets"][0], targets=case["targets"][1:])
    for nt in drops(case["old"]):
        yield dict(case, old=nt)
    for k, t in enumerate(case["targets"]):
        for nt in drops(t):
            yield dict(case, targets=case["targets"][:k] + [nt] + case["targets"][k + 1:])
