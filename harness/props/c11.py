"""C11 — VLAN-list commands change exactly the VLANs that differ.

impl   : the real annet code — annet.annlib.lib.{huawei,cisco}_{expand,collapse}_vlandb / collapse_vlandb,
         annet.rulebook.huawei.vlandb.{single,multi,multi_all,vlan_diff}, annet.rulebook.cisco.vlandb.{simple,swtrunk}
         called directly with hand-built diff buckets, and the whole patching pipeline
         (parse_to_tree -> make_diff -> make_pre -> make_patch) with the SHIPPED huawei/cisco/nexus rulebooks.
model  : Annet.Vlan.* (lean/AnnetModel/Model/Vlan.lean) through Glue/C11.lean.
translation (`pregen`): lean/AnnetModel/Gen/IfaceLists.lean — whether cisco/iface.py and nexus/iface.py keep a `switchport trunk
         allowed vlan` row of a port-channel member, and whether NX-OS hides it from the old side when the port leaves its
         port-channel: the real predicates are CALLED on that row on every run; `C11_member_lists_as_modelled` states that the
         answers are what the model's `switchportAllowedOnMember` / `cLeafIface` assume.  (A first version read the prefix
         tuples off the AST; a harmless refactoring that hoisted them into local names broke it - a false alarm of the
         translator, found by the harmless-change round.)
oracle : a device simulator written here (independent range reader; add / remove / clear commands executed on
         the old VLAN set) — checks final set == new set and that no common VLAN ever disappears, and that
         expand(collapse(S)) == S.  It only looks at the real code's output.

Repaired defects this check found (known_findings.json "fixed"; corpus/C11/regression-*.json are their inputs).
If one returns the oracle reports it again under its own signature:
  679839a  huawei:multi_all:undo-all-with-unchanged-lines
  7d0d905  huawei:single:whole-key-undo-with-unchanged-lines
  7afbb71  huawei:pool:list-keyed-by-first-id:common-vlan-removed-transiently
"""
import ast
import itertools
import os
import random

ID = "C11"
RULE = ("VLAN sets S_old,S_new: exhaustive over all pairs of subsets of a fixed universe (quick: 6 elements "
        "{2,3,4,6,7,9}; thorough: 8 elements {2,3,4,6,7,9,10,4094}) for huawei single/multi/multi_all and cisco "
        "simple/swtrunk x catalyst, each pair with the one-line writing and a seeded splitting over 1..4 lines (all "
        "three huawei modes, single included); all splittings over <=4 lines of both sides for a 5-element universe "
        "(thorough: the 6-element one) for huawei multi_all/multi/single and cisco swtrunk; seeded "
        "random sets over 1..4094 (runs, up to 60 range items, so that chunking is reached); the same through the "
        "real pipeline with the shipped rulebooks (huawei CE/Quidway trunk, hybrid tagged/untagged, vlan batch, vlan "
        "pool, stp instance; cisco catalyst/non-catalyst and nexus allowed vlan, vlan, vlan group); library "
        "expand/collapse calls; a malformed stream (overlapping lines, reversed ranges, stray 'to', arbitrary "
        "buckets, vlan blocks). Non-trivial = the two sets differ and at least one command is emitted; distinct = "
        "distinct case")
TRUSTED_BASE = [
    "Lean 4.33 kernel; axioms per theorem are listed in axioms_per_theorem (subset of propext, Classical.choice, Quot.sound)",
    "Spec/VlanDev.lean (device semantics of the add/remove/clear commands and its own reader of range syntax) is a "
    "specification, not annet code",
    "Glue/C11.lean lexing/rendering (str.split, isdigit, decimal numbers, ',' '-' ' ' joining) and the compiled driver",
    "harness/props/c11.py: generators, hand-built buckets (checked against the real pipeline on the sampled pipeline "
    "cases), the Python device simulator used as the oracle",
]
ASSUMPTIONS = [
    "a VLAN set is abstract: absent lines mean the empty set (a real Cisco trunk without 'allowed vlan' allows all)",
    "rows are ASCII; numbers have no leading zeros; ids are not range-checked against 1..4094 by annet or by the model",
    "rows are compared as blank-separated token lists (runs of blanks are not significant)",
    "the order in which make_patch finally sorts the commands is C08's subject: pipeline results are compared as "
    "sorted row lists, and the theorems hold for every permutation of the emitted commands",
    "vlan_diff is modelled with common.default_diff as a parameter (its items are taken from the real call)",
    "a port that leaves its port-channel: which rows of a port-channel member reach the VLAN logic is modelled (cLeafIface: "
    "cisco.iface.diff hides a member's switchport rows - recorded finding F11d, theorem C11_cisco_leaves_port_channel_false - "
    "nexus.iface.diff keeps them); the other commands the interface logics re-send are not VLAN commands and are left out",
    "cisco VLAN blocks (vlan N with children) are modelled and compared, the theorems cover leaf rows only; the "
    "iteration order of Python's int set in cisco/vlandb.py:37 is canonicalised (block-yield runs are sorted)",
]
EXHAUSTIVE = {"quick": True, "thorough": True}

U8 = [2, 3, 4, 6, 7, 9, 10, 4094]
U6 = U8[:6]
U5 = [2, 3, 5, 6, 8]

HW_H = ["Huawei CE6870", "Huawei Quidway S5300"]
HW_C = [("Cisco Catalyst 2960", True), ("Cisco 2911", False), ("Cisco Nexus 3172", False)]

# scenario -> (block row or None, prefix, mode, reverse template, noise rows)
H_SCEN = {
    "trunk": ("interface GE1/0/1", "port trunk allow-pass vlan", "multi_all", "undo port trunk allow-pass vlan",
              ["port link-type trunk", "description d1"]),
    "tagged": ("interface GE1/0/2", "port hybrid tagged vlan", "multi_all", "undo port hybrid tagged vlan",
               ["port link-type hybrid"]),
    "untagged": ("interface GE1/0/3", "port hybrid untagged vlan", "multi_all", "undo port hybrid untagged vlan",
                 ["port link-type hybrid"]),
    "batch": (None, "vlan batch", "multi", "undo vlan batch", ["sysname sw1"]),
    "pool": ("vlan pool P1", "vlan", "multi", "undo vlan", []),      # rule `vlan %logic=...multi`: one key ()
    "instance": ("stp region-configuration", "instance 1 vlan", "single", "undo instance {}", ["region-name r1"]),
}
C_SCEN = {
    "swtrunk": ("interface GigabitEthernet1/0/1", "switchport trunk allowed vlan", "swtrunk", ["switchport mode trunk"]),
    "nxtrunk": ("interface Ethernet1/1", "switchport trunk allowed vlan", "swtrunk", ["switchport mode trunk"]),
    "vlan": (None, "vlan", "simple", ["hostname sw1"]),
    "vlangroup": (None, "vlan group g1 vlan-list", "simple", ["hostname sw1"]),
}

_HW = {}
_SEQ = {}     # pipeline cases: the real order of the patch rows (impl) is echoed by model(); order is C08's subject


# ------------------------------------------------------------------ translation: the member allow-lists of the vendors
PROBE_ROW = "switchport trunk allowed vlan 1"


def pregen():
    """Gen/IfaceLists.lean: what cisco/iface.py and nexus/iface.py do with a `switchport trunk allowed vlan …` row of a
    port-channel member — the three facts the model's `cLeafIface` depends on — obtained by CALLING the real predicates of
    $ANNET_REPO on that row (behavioural, so that restructuring the functions does not disturb it)"""
    from harness.core.paths import LEAN
    from annet.rulebook.cisco import iface as ci
    from annet.rulebook.nexus import iface as ni
    facts = [("ciscoKeepsSwitchportRows", "cisco/iface.py _is_allowed_on_channel", bool(ci._is_allowed_on_channel(PROBE_ROW))),
             ("nexusKeepsSwitchportRows", "nexus/iface.py _is_allowed_on_channel", bool(ni._is_allowed_on_channel(PROBE_ROW))),
             ("nexusHidesSwitchportRowsOnLeave", "nexus/iface.py _is_allowed_on_old_lag_memeber",
              bool(ni._is_allowed_on_old_lag_memeber(PROBE_ROW)))]
    lines = ["-- generated by harness/props/c11.py (pregen) by calling the real predicates of the annet tree on the row",
             "-- %r; do not edit" % PROBE_ROW, "", "namespace Annet.Gen.IfaceLists", ""]
    for name, what, val in facts:
        lines += ["/-- `%s(%r)` -/" % (what, PROBE_ROW), "def %s : Bool := %s" % (name, "true" if val else "false"), ""]
    lines += ["end Annet.Gen.IfaceLists", ""]
    text = "\n".join(lines)
    path = os.path.join(LEAN, "AnnetModel", "Gen", "IfaceLists.lean")
    if not os.path.exists(path) or open(path, encoding="utf-8").read() != text:
        with open(path, "w", encoding="utf-8") as f:
            f.write(text)
        return "Gen/IfaceLists.lean rewritten: %s" % [(n, v) for n, _w, v in facts]
    return "Gen/IfaceLists.lean unchanged"


def _ckey(case):
    import json
    return json.dumps(case, sort_keys=True)


def setup_worker():
    from annet.hardware import hardware_connector, AnnetHardwareProvider
    from annet.rulebook import rulebook_provider_connector, DefaultRulebookProvider
    for conn, cls in ((hardware_connector, AnnetHardwareProvider), (rulebook_provider_connector, DefaultRulebookProvider)):
        if conn._classes is None:      # idempotent: the runner calls this in the parent and in every forked worker
            conn.set(cls)


def _hw(name):
    if name not in _HW:
        from annet.annlib.netdev.views.hardware import HardwareView
        from annet.rulebook import get_rulebook
        from annet.vendors import registry_connector
        hw = HardwareView(name, None)
        _HW[name] = (hw, get_rulebook(hw), registry_connector.get().match(hw).make_formatter())
    return _HW[name]


# ------------------------------------------------------------------ writing sets as lines (generator side)
def runs(s):
    out = []
    for v in sorted(s):
        if out and out[-1][1] == v - 1:
            out[-1][1] = v
        else:
            out.append([v, v])
    return [tuple(r) for r in out]


def items_h(s):
    return ["%d to %d" % r if r[0] != r[1] else "%d" % r[0] for r in runs(s)]


def items_c(s):
    return ["%d-%d" % r if r[0] != r[1] else "%d" % r[0] for r in runs(s)]


def compositions(n, maxparts):
    """all ways to cut a list of n items into 1..maxparts consecutive non-empty parts (as cut positions)"""
    if n == 0:
        return [()]
    out = []
    for k in range(1, min(maxparts, n) + 1):
        for cuts in itertools.combinations(range(1, n), k - 1):
            out.append(cuts)
    return out


def cut(items, cuts):
    if not items:
        return []
    b = [0] + list(cuts) + [len(items)]
    return [items[b[i]:b[i + 1]] for i in range(len(b) - 1)]


def lines_h(prefix, s, cuts):
    return ["%s %s" % (prefix, " ".join(part)) for part in cut(items_h(s), cuts)]


def lines_c(prefix, s, cuts, mode, none_for_empty=True):
    if not s:
        return ["%s none" % prefix] if none_for_empty else []
    parts = cut(items_c(s), cuts)
    out = []
    for i, part in enumerate(parts):
        add = " add" if (mode == "swtrunk" and i > 0) else ""
        out.append("%s%s %s" % (prefix, add, ",".join(part)))
    return out


def rnd_cuts(rng, n, maxparts=4):
    if n <= 1:
        return ()
    k = rng.randint(1, min(maxparts, n))
    return tuple(sorted(rng.sample(range(1, n), k - 1)))


def rnd_set(rng):
    """a set over 1..4094 made of runs; sometimes big enough for several chunks"""
    r = rng.random()
    if r < 0.05:
        return set()
    nruns = rng.choice([1, 2, 3, 5, 8, 12, 17, 25, 40, 60]) if r < 0.8 else rng.randint(1, 6)
    s = set()
    for _ in range(nruns):
        a = rng.choice([1, rng.randint(1, 4094), rng.randint(1, 200), 4094])
        ln = rng.choice([1, 1, 2, 3, rng.randint(1, 40), rng.randint(1, 4094)]) if rng.random() < 0.9 else 4094
        s.update(range(a, min(4094, a + ln - 1) + 1))
    return s


def rnd_pair(rng):
    r = rng.random()
    if r < 0.2:
        # many scattered ids on both sides: long range lists, several chunks per command stream
        hi = rng.choice([120, 400, 4094])
        k = rng.randint(12, 70)
        return set(rng.sample(range(1, hi + 1), k)), set(rng.sample(range(1, hi + 1), rng.randint(0, k)))
    a = rnd_set(rng)
    r = rng.random()
    if r < 0.5:
        b = set(a)
        for _ in range(rng.randint(1, 6)):
            v = rng.randint(1, 4094)
            if rng.random() < 0.5 and b:
                v = rng.choice(sorted(b))
                b.discard(v)
            else:
                b.add(v)
        return a, b
    if r < 0.6:
        return a, set()
    return a, rnd_set(rng)


# ------------------------------------------------------------------ shards / generation
def shards(tier, seed):
    out = []
    quick = tier == "quick"
    uni = "U6" if quick else "U8"
    n = 64 if quick else 256
    step = 4 if quick else 4
    for a0 in range(0, n, step):
        out.append(dict(kind="exh", uni=uni, a0=a0, a1=a0 + step, seed=seed))
    uni2, n2 = ("U5", 32) if quick else ("U6", 64)
    for a0 in range(0, n2, 2 if quick else 1):
        out.append(dict(kind="exhsplit", uni=uni2, a0=a0, a1=a0 + (2 if quick else 1)))
    k = 16 if quick else 64
    for i in range(k):
        out.append(dict(kind="rnd", seed=seed * 100003 + i, n=300 if quick else 1200))
        out.append(dict(kind="pipe", seed=seed * 100003 + 5000 + i, n=260 if quick else 1500))
        out.append(dict(kind="lib", seed=seed * 100003 + 10000 + i, n=400 if quick else 2000))
        out.append(dict(kind="bad", seed=seed * 100003 + 15000 + i, n=200 if quick else 1000))
        out.append(dict(kind="vdiff", seed=seed * 100003 + 20000 + i, n=80 if quick else 400))
    return out


def _subset(uni, mask):
    return {v for i, v in enumerate(uni) if mask >> i & 1}


H_VARIANTS = [("multi_all", "port trunk allow-pass vlan", "undo port trunk allow-pass vlan", []),
              ("multi", "vlan batch", "undo vlan batch", []),
              ("single", "instance 1 vlan", "undo instance {}", ["1"])]
C_VARIANTS = [("swtrunk", "switchport trunk allowed vlan", True), ("swtrunk", "switchport trunk allowed vlan", False),
              ("simple", "vlan", True), ("simple", "vlan", False)]


def _hl(mode, p, rev, key, old, new):
    return dict(k="hl", mode=mode, p=p, rev=rev, key=key, old=old, new=new)


def _clb(rng, p, cat, so, sn):
    """global vlan database with NAMED vlans: some ids have their own `vlan N` row with children (old and/or new side),
    the rest sit on list lines; the buckets are what make_pre builds inside an unchanged parent"""
    cid = itertools.count()
    nb_old = {v for v in so if rng.random() < 0.25}
    nb_new = {v for v in sn if rng.random() < 0.25} | {v for v in nb_old & sn if rng.random() < 0.6}
    old_lines = lines_c(p, so - nb_old, rnd_cuts(rng, len(items_c(so - nb_old))), "simple", False) if so - nb_old else []
    new_lines = lines_c(p, sn - nb_new, rnd_cuts(rng, len(items_c(sn - nb_new))), "simple", False) if sn - nb_new else []
    act = lambda row, blk: dict(row=row, children=("c%d" % next(cid)) if blk else None)
    removed = [act(r, False) for r in old_lines if r not in new_lines] + \
              [act("%s %d" % (p, v), True) for v in sorted(nb_old - nb_new)]
    added = [act(r, False) for r in new_lines if r not in old_lines] + \
            [act("%s %d" % (p, v), True) for v in sorted(nb_new - nb_old)]
    unchanged = [act(r, False) for r in new_lines if r in old_lines]
    affected = [act("%s %d" % (p, v), True) for v in sorted(nb_old & nb_new)]
    rng.shuffle(removed)
    rng.shuffle(added)
    return dict(k="clb", mode="simple", p=p, cat=cat, so=sorted(so), sn=sorted(sn), added=added, removed=removed,
                unchanged=unchanged, affected=affected)


def _cl(mode, p, cat, old, new):
    return dict(k="cl", mode=mode, p=p, cat=cat, old=old, new=new)


def gen(desc):
    kind = desc["kind"]
    if kind == "exh":
        uni = U6 if desc["uni"] == "U6" else U8
        rng = random.Random(desc["seed"] * 7919 + desc["a0"])
        for a in range(desc["a0"], desc["a1"]):
            so = _subset(uni, a)
            for b in range(1 << len(uni)):
                sn = _subset(uni, b)
                for (mode, p, rev, key) in H_VARIANTS:
                    yield _hl(mode, p, rev, key, lines_h(p, so, ()), lines_h(p, sn, ()))
                    # several lines per key in all three modes (`single` too: unchanged sibling lines are in
                    # the property's domain; more than one changed line per side is its documented refusal)
                    co = rnd_cuts(rng, len(items_h(so)))
                    cn = rnd_cuts(rng, len(items_h(sn)))
                    if co or cn:
                        yield _hl(mode, p, rev, key, lines_h(p, so, co), lines_h(p, sn, cn))
                for (mode, p, cat) in C_VARIANTS:
                    yield _cl(mode, p, cat, lines_c(p, so, (), mode), lines_c(p, sn, (), mode))
                    co = rnd_cuts(rng, len(items_c(so)))
                    cn = rnd_cuts(rng, len(items_c(sn)))
                    if co or cn or not so or not sn:
                        yield _cl(mode, p, cat, lines_c(p, so, co, mode, False), lines_c(p, sn, cn, mode, False))
    elif kind == "exhsplit":
        uni = U5 if desc["uni"] == "U5" else U6
        for a in range(desc["a0"], desc["a1"]):
            so = _subset(uni, a)
            for b in range(1 << len(uni)):
                sn = _subset(uni, b)
                if so == sn:
                    continue
                for co in compositions(len(items_h(so)), 4):
                    for cn in compositions(len(items_h(sn)), 4):
                        (mode, p, rev, key) = H_VARIANTS[0]
                        yield _hl(mode, p, rev, key, lines_h(p, so, co), lines_h(p, sn, cn))
                        (mode, p, cat) = C_VARIANTS[1]
                        yield _cl(mode, p, cat, lines_c(p, so, co, mode), lines_c(p, sn, cn, mode))
                        if len(co) + len(cn) > 0:
                            for (mode, p, rev, key) in H_VARIANTS[1:]:
                                yield _hl(mode, p, rev, key, lines_h(p, so, co), lines_h(p, sn, cn))
    elif kind == "rnd":
        rng = random.Random(desc["seed"])
        for _ in range(desc["n"]):
            so, sn = rnd_pair(rng)
            if rng.random() < 0.5:
                (mode, p, rev, key) = rng.choice(H_VARIANTS)
                mp = 1 if mode == "single" and rng.random() < 0.5 else 4
                old = lines_h(p, so, rnd_cuts(rng, len(items_h(so)), mp))
                new = lines_h(p, sn, rnd_cuts(rng, len(items_h(sn)), mp))
                if rng.random() < 0.2:
                    rng.shuffle(old)
                    rng.shuffle(new)
                yield _hl(mode, p, rev, key, old, new)
            else:
                (mode, p, cat) = rng.choice(C_VARIANTS)
                old = lines_c(p, so, rnd_cuts(rng, len(items_c(so))), mode, rng.random() < 0.7)
                new = lines_c(p, sn, rnd_cuts(rng, len(items_c(sn))), mode, rng.random() < 0.7)
                if mode == "simple" and rng.random() < 0.2:
                    rng.shuffle(old)
                    rng.shuffle(new)
                yield _cl(mode, p, cat, old, new)
                if mode == "simple" and rng.random() < 0.5:
                    yield _clb(rng, p, cat, so, sn)
    elif kind == "pipe":
        rng = random.Random(desc["seed"])
        for _ in range(desc["n"]):
            yield _gen_pipe(rng)
    elif kind == "lib":
        rng = random.Random(desc["seed"])
        for _ in range(desc["n"]):
            yield _gen_lib(rng)
    elif kind == "bad":
        rng = random.Random(desc["seed"])
        for _ in range(desc["n"]):
            yield _gen_bad(rng)
    elif kind == "vdiff":
        rng = random.Random(desc["seed"])
        for _ in range(desc["n"]):
            yield _gen_vdiff(rng)


def _small_pair(rng):
    if rng.random() < 0.6:
        uni = rng.choice([U8, U6, list(range(1, 13))])
        a = {v for v in uni if rng.random() < 0.5}
        b = {v for v in uni if rng.random() < 0.5} if rng.random() < 0.6 else set(a) ^ {rng.choice(uni)}
        return a, b
    return rnd_pair(rng)


def _gen_pipe(rng):
    so, sn = _small_pair(rng)
    if rng.random() < 0.55:
        scen = rng.choice(["trunk", "trunk", "tagged", "untagged", "batch", "batch", "pool", "instance"])
        (_, p, mode, _, _) = H_SCEN[scen]
        mp = 1 if scen == "instance" and rng.random() < 0.5 else 4
        old = lines_h(p, so, rnd_cuts(rng, len(items_h(so)), mp))
        new = lines_h(p, sn, rnd_cuts(rng, len(items_h(sn)), mp))
        return dict(k="hp", hw=rng.choice(HW_H), scen=scen, old=old, new=new)
    hw, cat = rng.choice(HW_C)
    if "Nexus" in hw:
        scen = rng.choice(["nxtrunk", "nxtrunk", "vlan", "vlangroup"])
    else:
        scen = rng.choice(["swtrunk", "swtrunk", "vlan", "vlangroup"])
    (_, p, mode, _) = C_SCEN[scen]
    trunk = mode == "swtrunk"      # globally "vlan none" is a row of another rule: the empty set has no line there
    old = lines_c(p, so, rnd_cuts(rng, len(items_c(so))), mode, trunk and rng.random() < 0.7)
    new = lines_c(p, sn, rnd_cuts(rng, len(items_c(sn))), mode, trunk and rng.random() < 0.7)
    c = dict(k="cp", hw=hw, cat=cat, scen=scen, old=old, new=new)
    if trunk and rng.random() < 0.3:
        c["leave_lag"] = True       # the port leaves its port-channel in the same run
    return c


def _gen_lib(rng):
    r = rng.random()
    if r < 0.5:
        s = rnd_set(rng) if rng.random() < 0.6 else {v for v in range(1, 30) if rng.random() < 0.5}
        vl = sorted(s)
        if rng.random() < 0.3:
            rng.shuffle(vl)
            vl = vl + vl[:3]
        return dict(k="coll", vlans=vl, sep=rng.choice(["to", "-"]), tiny=rng.random() < 0.5,
                    chunk_len=rng.choice([0, 0, 1, 2, 3, 10, 15]))
    if r < 0.75:
        toks = [rng.choice(["to", "to", str(rng.randint(0, 40)), str(rng.randint(1, 4094))])
                for _ in range(rng.randint(0, 7))]
        if rng.random() < 0.6:
            toks = " ".join(items_h(rnd_set(rng) if rng.random() < 0.3 else {v for v in range(1, 20) if rng.random() < 0.5})).split()
            if toks and rng.random() < 0.3:
                toks.insert(rng.randrange(len(toks) + 1), rng.choice(["to", "7", "x"]))
        return dict(k="hexp", row=" ".join(toks))
    parts = []
    for _ in range(rng.randint(1, 6)):
        q = rng.random()
        a, b = rng.randint(0, 60), rng.randint(0, 60)
        parts.append("%d" % a if q < 0.4 else ("%d-%d" % (min(a, b), max(a, b)) if q < 0.85 else
                                                 ("%d-%d" % (max(a, b), min(a, b)) if q < 0.95 else "%d-%d-%d" % (a, b, a))))
    return dict(k="cexp", row=",".join(parts))


def _gen_bad(rng):
    """malformed / out-of-domain stream: overlapping lines, arbitrary buckets, affected rows, blocks"""
    if rng.random() < 0.5:
        (mode, p, rev, key) = rng.choice(H_VARIANTS)

        def row():
            q = rng.random()
            if q < 0.6:
                return "%s %s" % (p, " ".join(items_h({v for v in range(1, 16) if rng.random() < 0.4} or {3})))
            if q < 0.75:
                return "%s %s" % (p, " ".join(rng.choice(["to", "5", "9", "2"]) for _ in range(rng.randint(1, 4))))
            if q < 0.85:
                return p
            if q < 0.95:
                return "%s %d to %d" % (rng.choice([p, "other prefix"]), rng.randint(1, 9), rng.randint(1, 9))
            return " ".join(str(rng.randint(1, 9)) for _ in range(rng.randint(1, 3)))
        nb = lambda hi: [row() for _ in range(rng.choice([0, 0, 1, 1, 2, hi]))]
        return dict(k="hlraw", mode=mode, rev=rev, key=key, added=nb(3), removed=nb(3), unchanged=nb(2),
                    affected=nb(1) if rng.random() < 0.1 else [])
    (mode, p, cat) = rng.choice(C_VARIANTS)
    cid = itertools.count()

    def act(block_ok=True):
        q = rng.random()
        if mode == "simple" and block_ok and q < 0.3:
            return dict(row="%s %d" % (p, rng.randint(1, 12)), children="c%d" % next(cid))
        if q < 0.75:
            s = {v for v in range(1, 16) if rng.random() < 0.4} or {4}
            add = " add" if rng.random() < 0.3 else ""
            sep = rng.choice([",", ",", ", "])
            return dict(row="%s%s %s" % (p, add, sep.join(items_c(s))), children=None)
        if q < 0.82:
            return dict(row="%s none" % p, children=None)
        if q < 0.88:
            return dict(row="%s %d-%d" % (p, rng.randint(5, 9), rng.randint(1, 5)), children=None)
        if q < 0.92:
            return dict(row="%s 1-2-3" % p, children=None)
        if q < 0.96:
            return dict(row="%s 3,4" % p, children="c%d" % next(cid))
        return dict(row=rng.choice([p, "7", "add 7", ""]), children=None)
    nb = lambda hi: [act() for _ in range(rng.choice([0, 0, 1, 1, 2, hi]))]
    return dict(k="clraw", mode=mode, cat=cat, added=nb(3), removed=nb(3), unchanged=nb(2),
                affected=[dict(row="%s %d" % (p, rng.randint(1, 12)), children="c%d" % next(cid))
                          for _ in range(rng.choice([0, 0, 0, 1, 2]))])


def _gen_vdiff(rng):
    """global huawei config: vlan batch lines and vlan N blocks, old and new"""
    def side():
        s = {v for v in range(1, 14) if rng.random() < 0.5}
        rows = [[r, []] for r in lines_h("vlan batch", s, rnd_cuts(rng, len(items_h(s)), 3))]
        for v in range(1, 16):
            if rng.random() < 0.25:
                rows.append(["vlan %d" % v, ["name n%d" % rng.randint(1, 2)] if rng.random() < 0.6 else []])
        if rng.random() < 0.2:
            rng.shuffle(rows)
        return rows
    old = side()
    new = side() if rng.random() < 0.6 else [list(r) for r in old if rng.random() < 0.8]
    return dict(k="vdiff", old=old, new=new)


# ------------------------------------------------------------------ hand-built buckets (direct calls)
def buckets(old, new):
    """the buckets make_pre builds for the leaf rows of one (rule, key) inside an unchanged parent"""
    old = list(dict.fromkeys(old))
    new = list(dict.fromkeys(new))
    return dict(removed=[r for r in old if r not in new], added=[r for r in new if r not in old],
                unchanged=[r for r in new if r in old], affected=[])


ERRS = (AssertionError, ValueError, IndexError)


def _ws(row):
    """rows are token lists in the model: compare modulo runs of blanks (an empty prefix gives 'no  7')"""
    return " ".join(row.split())


def _err(e):
    return {"err": type(e).__name__}


def _call_h(mode, rev, key, b):
    from annet.rulebook.huawei import vlandb
    from annet.annlib.types import Op
    mk = lambda rows: [{"row": r, "children": {}} for r in rows]
    diff = {Op.ADDED: mk(b["added"]), Op.REMOVED: mk(b["removed"]), Op.MOVED: [], Op.AFFECTED: mk(b["affected"]),
            Op.UNCHANGED: mk(b["unchanged"])}
    try:
        ys = list(getattr(vlandb, mode)(rule={"reverse": rev}, key=tuple(key), diff=diff, hw=None, rule_pre=None,
                                        root_pre=None))
    except ERRS as e:
        return _err(e)
    return {"ok": [[d, _ws(row)] for (d, row, _ch) in ys]}


def _canon_blocks(ys):
    """sort inside maximal runs of yields that carry children (python set iteration order, cisco/vlandb.py:37)"""
    out, run = [], []
    for y in ys:
        if y[2] is not None:
            run.append(y)
        else:
            out.extend(sorted(run, key=lambda t: (t[1], t[2])))
            run = []
            out.append(y)
    out.extend(sorted(run, key=lambda t: (t[1], t[2])))
    return out


class _Child(dict):
    pass


def _call_c(mode, cat, b):
    from annet.rulebook.cisco import vlandb
    from annet.annlib.types import Op
    hw = _hw("Cisco Catalyst 2960" if cat else "Cisco 2911")[0]
    mk = lambda acts: [{"row": a["row"], "children": ({"id": a["children"]} if a["children"] is not None else {})}
                       for a in acts]
    diff = {Op.ADDED: mk(b["added"]), Op.REMOVED: mk(b["removed"]), Op.MOVED: [], Op.AFFECTED: mk(b["affected"]),
            Op.UNCHANGED: mk(b["unchanged"])}
    try:
        ys = list(getattr(vlandb, mode)(rule={"reverse": "no x"}, key=(), diff=diff, hw=hw, rule_pre=None,
                                        root_pre=None))
    except ERRS as e:
        return _err(e)
    return {"ok": _canon_blocks([[d, _ws(row), (ch["id"] if ch else None)] for (d, row, ch) in ys])}


# ------------------------------------------------------------------ the real pipeline
def _text(block, rows, noise):
    if block is None:
        return "\n".join(noise + rows) + "\n"
    return "\n".join([block] + ["  " + r for r in noise + rows]) + "\n"


class _Dev:
    def __init__(self, hw):
        self.hw = hw
        self.hostname = "dev"
        self.breed = "x"


LAG_ROW = "channel-group 1 mode active"


def _pipeline(hwname, block, old_rows, new_rows, noise, leave_lag=False, prefix=""):
    """the production caller of device mode, `api._diff_and_patch` (no ACL), on the texts of the two configurations;
    leave_lag: the port is a port-channel member in old only; the commands that do not mention the VLAN-list prefix
    (`no channel-group`, settings the vendor logic re-sends for a port that left its port-channel) are not VLAN
    commands and are left out of the result"""
    from annet import api
    from annet.annlib import tabparser
    hw, rb, fmt = _hw(hwname)
    old = tabparser.parse_to_tree(_text(block, old_rows, noise + ([LAG_ROW] if leave_lag else [])), fmt.split)
    new = tabparser.parse_to_tree(_text(block, new_rows, noise), fmt.split)
    try:
        _d, pt = api._diff_and_patch(_Dev(hw), old, new, None, None, False)
    except ERRS as e:
        return _err(e)
    rows = []
    for row, child in pt.items():
        if block is None:
            rows.append(row)
            if child:
                rows.extend("  " + r for r, _ in child.items())
        elif row == block and child is not None:
            rows.extend(r for r, _ in child.items() if not (leave_lag and prefix not in r))
        else:
            rows.append("?? " + row)
    return {"ok": rows}


def _impl_vdiff(case):
    from collections import OrderedDict as odict
    from annet.annlib import patching
    from annet.annlib.types import Op
    from annet.rulebook.huawei import vlandb
    from annet.rulebook import common
    hw, rb, _fmt = _hw(HW_H[0])
    mk = lambda side: odict((r, odict((c, odict()) for c in ch)) for r, ch in side)
    old, new = mk(case["old"]), mk(case["new"])
    diff_pre = patching.apply_diff_rb(old, new, rb)
    base = [[it.op, it.row, bool(it.children)] for it in common.default_diff(old, new, diff_pre, (Op.AFFECTED,))]
    try:
        out = vlandb.vlan_diff(old, new, diff_pre, (Op.AFFECTED,))
    except ERRS as e:
        return _err(e), base, list(new)
    # the same pair through the production caller of device mode: the top-level commands of the patch
    try:
        from annet import api
        _d, pt = api._diff_and_patch(_Dev(hw), mk(case["old"]), mk(case["new"]), None, None, False)
        if len(_SEQ) > 20000:
            _SEQ.clear()
        _SEQ[_ckey(case) + "|patch"] = [r for r, _c in pt.items()]
    except ERRS as e:
        _SEQ[_ckey(case) + "|patch"] = ["raised " + type(e).__name__]
    return {"ok": [[it.op, it.row, bool(it.children)] for it in out]}, base, list(new)


def _remember(case, seq):
    if len(_SEQ) > 20000:
        _SEQ.clear()
    _SEQ[_ckey(case)] = seq
    return {"ok": sorted(seq), "seq": seq}


def impl(case):
    k = case["k"]
    if k == "hl":
        return _call_h(case["mode"], case["rev"], case["key"], buckets(case["old"], case["new"]))
    if k == "hlraw":
        return _call_h(case["mode"], case["rev"], case["key"], case)
    if k == "cl":
        b = buckets(case["old"], case["new"])
        b = {kk: [dict(row=r, children=None) for r in v] for kk, v in b.items()}
        return _call_c(case["mode"], case["cat"], b)
    if k in ("clraw", "clb"):
        return _call_c(case["mode"], case["cat"], case)
    if k == "hp":
        (block, _p, _mode, _rev, noise) = H_SCEN[case["scen"]]
        r = _pipeline(case["hw"], block, case["old"], case["new"], noise)
        return _remember(case, r["ok"]) if "ok" in r else r
    if k == "cp":
        (block, _p, _mode, noise) = C_SCEN[case["scen"]]
        r = _pipeline(case["hw"], block, case["old"], case["new"], noise, bool(case.get("leave_lag")), _p)
        return _remember(case, [x.strip() for x in r["ok"]]) if "ok" in r else r
    if k == "coll":
        from annet.annlib import lib
        sep = " to " if case["sep"] == "to" else "-"
        try:
            res = lib.collapse_vlandb(case["vlans"], sep, case["tiny"], case["chunk_len"])
        except ERRS as e:
            return _err(e)
        flat = [x for c in res for x in c] if case["chunk_len"] else res
        exp = lib.huawei_expand_vlandb(" ".join(flat)) if case["sep"] == "to" else lib.cisco_expand_vlandb(",".join(flat))
        return {"ok": res, "back": sorted(exp)}
    if k == "hexp":
        from annet.annlib import lib
        try:
            return {"ok": sorted(lib.huawei_expand_vlandb(case["row"]))}
        except ERRS as e:
            return _err(e)
    if k == "cexp":
        from annet.annlib import lib
        try:
            return {"ok": sorted(lib.cisco_expand_vlandb(case["row"]))}
        except ERRS as e:
            return _err(e)
    if k == "vdiff":
        return _impl_vdiff(case)[0]
    raise KeyError(k)


# ------------------------------------------------------------------ model side
def requests(case):
    k = case["k"]
    if k == "hl":
        b = buckets(case["old"], case["new"])
        return [dict(op="c11.h_logic", mode=case["mode"], rev=case["rev"].format(*case["key"]), **b),
                dict(op="c11.h_pipe", mode=case["mode"], rev=case["rev"].format(*case["key"]),
                     old=list(dict.fromkeys(case["old"])), new=list(dict.fromkeys(case["new"])))]
    if k == "hlraw":
        return [dict(op="c11.h_logic", mode=case["mode"], rev=case["rev"].format(*case["key"]),
                     added=case["added"], removed=case["removed"], unchanged=case["unchanged"], affected=case["affected"])]
    if k == "cl":
        return [dict(op="c11.c_pipe", mode=case["mode"], catalyst=case["cat"],
                     old=list(dict.fromkeys(case["old"])), new=list(dict.fromkeys(case["new"])))]
    if k in ("clraw", "clb"):
        return [dict(op="c11.c_logic", mode=case["mode"], catalyst=case["cat"], added=case["added"],
                     removed=case["removed"], unchanged=case["unchanged"], affected=case["affected"])]
    if k == "hp":
        (_block, _p, mode, rev, _noise) = H_SCEN[case["scen"]]
        # every scenario is one (rule, key) group of the shipped rulebook — the pool too: its rule is
        # `vlan %logic=huawei.vlandb.multi` (key ()), no longer `vlan *` (key = first id of the line)
        return [dict(op="c11.h_pipe", mode=mode, rev=rev.format("1"), old=case["old"], new=case["new"])]
    if k == "cp":
        (_block, _p, mode, _noise) = C_SCEN[case["scen"]]
        rq = dict(op="c11.c_pipe", mode=mode, catalyst=case["cat"], old=case["old"], new=case["new"])
        if _block is not None:
            # interface blocks: the vendor's interface diff logic filters the rows of a port-channel member before they
            # reach the VLAN logic (Model/Vlan.lean, cLeafIface; cisco/iface.py:5-10,39-66, nexus/iface.py:8-12,45-66)
            rq.update(iface="nexus" if "Nexus" in case["hw"] else "cisco", old_member=bool(case.get("leave_lag")),
                      new_member=False)
        return [rq]
    if k == "coll":
        return [dict(op="c11.collapse", vlans=case["vlans"], sep=case["sep"], tiny=case["tiny"],
                     chunk_len=case["chunk_len"])]
    if k == "hexp":
        return [dict(op="c11.h_expand", row=case["row"])]
    if k == "cexp":
        return [dict(op="c11.c_expand", row=case["row"])]
    if k == "vdiff":
        _r, base, new_rows = _impl_vdiff(case)
        return [dict(op="c11.h_vlan_diff", new=new_rows, items=base)]
    raise KeyError(k)


def model(case, resp):
    k = case["k"]
    if k == "hl":
        if resp[0] != resp[1]:
            return {"model-bucket-mismatch": resp}
        return resp[0]
    if k in ("hlraw", "vdiff"):
        return resp[0]
    if k in ("cl", "clraw", "clb"):
        r = resp[0]
        return {"ok": _canon_blocks(r["ok"])} if "ok" in r else r
    if k in ("hp", "cp"):
        rows = []
        for r in resp:
            if "err" in r:
                return r
            rows.extend(y[1] for y in r["ok"])
        return {"ok": sorted(rows), "seq": _SEQ.get(_ckey(case), "<impl order unknown>")}
    if k == "coll":
        r = resp[0]
        return {"ok": r["ok"], "back": sorted(set(r["back"]))} if "ok" in r else r
    if k in ("hexp", "cexp"):
        r = resp[0]
        return {"ok": sorted(set(r["ok"]))} if "ok" in r else r
    raise KeyError(k)


# ------------------------------------------------------------------ the oracle: a device, written independently
def read_h(toks):
    """`a`, `a to b` (a < b) ; None if not a range list"""
    out, i = set(), 0
    if not toks:
        return None
    while i < len(toks):
        if not toks[i].isdigit():
            return None
        a = int(toks[i])
        if i + 1 < len(toks) and toks[i + 1] == "to":
            if i + 2 >= len(toks) or not toks[i + 2].isdigit() or int(toks[i + 2]) <= a:
                return None
            out.update(range(a, int(toks[i + 2]) + 1))
            i += 3
        else:
            out.add(a)
            i += 1
    return out


def read_c(spec):
    out = set()
    if not spec:
        return None
    for part in spec.split(","):
        ab = part.split("-")
        if not all(x.isdigit() for x in ab) or len(ab) > 2:
            return None
        if len(ab) == 2:
            if int(ab[1]) <= int(ab[0]):
                return None
            out.update(range(int(ab[0]), int(ab[1]) + 1))
        else:
            out.add(int(ab[0]))
    return out


def _strip_prefix(row, p):
    t, pt = row.split(), p.split()
    return t[len(pt):] if t[:len(pt)] == pt and len(t) > len(pt) else None


def _domain_h(case, p):
    """sets of the old/new lines, or None when the case is outside the property's quantifier"""
    sides = []
    for rows in (case["old"], case["new"]):
        sets = []
        for r in rows:
            rest = _strip_prefix(r, p)
            s = read_h(rest) if rest is not None else None
            if not s:
                return None
            sets.append(s)
        if sum(len(s) for s in sets) != len(set().union(*sets)) or len(set(rows)) != len(rows):
            return None
        sides.append(sets)
    return sides


def _domain_c(case, p, mode):
    sides = []
    for rows in (case["old"], case["new"]):
        sets = []
        for r in rows:
            rest = _strip_prefix(r, p)
            if rest == ["none"]:
                if len(rows) != 1:
                    return None
                sets.append(set())
                continue
            if rest and rest[0] == "add":
                rest = rest[1:]
            s = read_c(rest[0]) if rest is not None and len(rest) == 1 else None
            if not s:
                return None
            sets.append(s)
        if sum(len(s) for s in sets) != len(set().union(*sets)) or len(set(rows)) != len(rows):
            return None
        sides.append(sets)
    return sides


def _dev_h(row, p, clear_cmds):
    """-> ('clear',) | ('rem', set) | ('add', set) | None"""
    if row in clear_cmds:
        return ("clear",)
    t = row.split()
    if t[:1] == ["undo"]:
        rest = _strip_prefix(" ".join(t[1:]), p)
        s = read_h(rest) if rest is not None else None
        return ("rem", s) if s else None
    rest = _strip_prefix(row, p)
    s = read_h(rest) if rest is not None else None
    return ("add", s) if s else None


def _dev_c(row, p, mode):
    if row == p + " none":
        return ("clear",)
    t = row.split()
    if t[:1] == ["no"]:
        rest = _strip_prefix(" ".join(t[1:]), p)
        if mode == "swtrunk":
            if not rest or rest[0] != "remove":
                return None
            rest = rest[1:]
        s = read_c(rest[0]) if rest is not None and len(rest) == 1 else None
        return ("rem", s) if s else None
    rest = _strip_prefix(row, p)
    if rest is None:
        return None
    if mode == "swtrunk":
        if rest[0] == "add":
            s = read_c(rest[1]) if len(rest) == 2 else None
            return ("add", s) if s else None
        s = read_c(rest[0]) if len(rest) == 1 else None
        return ("set", s) if s else None
    s = read_c(rest[0]) if len(rest) == 1 else None
    return ("add", s) if s else None


def _simulate(acts, s_old, s_new):
    """returns (final, first transiently lost common vlan or None)"""
    cur = set(s_old)
    common = s_old & s_new
    lost = None
    for a in acts:
        if a[0] == "clear":
            cur = set()
        elif a[0] == "rem":
            cur -= a[1]
        elif a[0] == "add":
            cur |= a[1]
        elif a[0] == "set":
            cur = set(a[1])
        if lost is None and not common <= cur:
            lost = min(common - cur)
    return cur, lost


def _fmt(s):
    return ",".join(items_c(s))


def _check_cmds(case, vendor, mode, p, rows, sides, clear_cmds, tag):
    s_old, s_new = set().union(*sides[0]), set().union(*sides[1])
    acts = []
    for row in rows:
        a = _dev_h(row, p, clear_cmds) if vendor == "huawei" else _dev_c(row, p, mode)
        if a is None:
            return [dict(sig="%s:%s:%s:command-not-understood" % (vendor, tag, mode),
                         what="emitted row %r is not an add/remove/clear command of %r" % (row, p))]
        acts.append(a)
    final, lost = _simulate(acts, s_old, s_new)
    unchanged = [r for r in case["new"] if r in case["old"]]
    added = [r for r in case["new"] if r not in case["old"]]
    out = []
    if final != s_new:
        if vendor == "cisco" and case.get("leave_lag") and "Nexus" not in case.get("hw", "") and final == (s_old | s_new) \
                and all(a[0] in ("add", "set") for a in acts):
            # F11d (by design of cisco.iface.diff): the lines of a port-channel MEMBER are hidden from both sides
            sig = "cisco:swtrunk:port-leaves-port-channel:old-member-lines-hidden"
        elif vendor == "huawei" and mode == "single" and acts == [("clear",)] and unchanged and not added:
            sig = "huawei:single:whole-key-undo-with-unchanged-lines"
        elif vendor == "huawei" and mode == "multi_all" and acts == [("clear",)] and unchanged and not added:
            sig = "huawei:multi_all:undo-all-with-unchanged-lines"
        else:
            sig = "%s:%s:%s:final-set-differs" % (vendor, tag, mode)
        out.append(dict(sig=sig, what="old {%s} -> new {%s}: commands %r leave {%s}" % (
            _fmt(s_old), _fmt(s_new), rows, _fmt(final))))
    elif lost is not None:
        if tag == "pool":
            sig = "huawei:pool:list-keyed-by-first-id:common-vlan-removed-transiently"
        else:
            sig = "%s:%s:%s:common-vlan-removed-transiently" % (vendor, tag, mode)
        out.append(dict(sig=sig, what="old {%s} -> new {%s}: commands %r remove vlan %d, which is in both sets, "
                        "before re-adding it" % (_fmt(s_old), _fmt(s_new), rows, lost)))
    return out


def oracle(case, r):
    k = case["k"]
    if k == "coll":
        if "ok" in r and r["back"] != sorted(set(case["vlans"])):
            return [dict(sig="expand-collapse-differs", what="expand(collapse(%r)) = %r" % (case["vlans"][:20], r["back"][:20]))]
        if "err" in r and case["vlans"]:
            return [dict(sig="collapse-raises", what="collapse_vlandb raised %s on a non-empty set" % r["err"])]
        return []
    if k in ("hl", "hp"):
        if k == "hl":
            p, mode, tag, rev = case["p"], case["mode"], "direct", case["rev"].format(*case["key"])
        else:
            (_b, p, mode, revt, _n) = H_SCEN[case["scen"]]
            tag, rev = case["scen"], revt.format("1")
        sides = _domain_h(case, p)
        if sides is None:
            return []
        if mode == "single" and r.get("err") == "AssertionError" and \
                max(len([x for x in case["old"] if x not in case["new"]]),
                    len([x for x in case["new"] if x not in case["old"]])) > 1:
            return []      # explicit refusal ("Too many actions"): nothing is emitted
        if "err" in r:
            return [dict(sig="huawei:%s:%s:raises-%s" % (tag, mode, r["err"]), what="logic raised %s on well-formed lines %r -> %r" % (r["err"], case["old"], case["new"]))]
        clear = {"multi_all": ["undo %s all" % p], "single": [rev], "multi": []}[mode]
        rows = r["seq"] if k == "hp" else [y[1] for y in r["ok"]]
        out = _check_cmds(case, "huawei", mode, p, rows, sides, clear, tag)
        if k == "hl":
            for d, row in r["ok"]:
                if d != (not row.startswith("undo ")):
                    out.append(dict(sig="huawei:direct-flag-wrong", what="yield (%r, %r)" % (d, row)))
        return out
    if k == "vdiff":
        # vlan_diff: a named vlan block that disappears is reported REMOVED (-> `undo vlan N`) only if N is in no
        # `vlan batch` line of the new configuration; otherwise the VLAN is in both sets and must stay
        if "ok" not in r:
            return []
        batch_new = set()
        for row, _ch in case["new"]:
            rest = _strip_prefix(row, "vlan batch")
            sset = read_h(rest) if rest is not None else None
            if sset:
                batch_new |= sset
        out = []
        if _ckey(case) + "|patch" not in _SEQ:
            _impl_vdiff(case)
        for row in _SEQ.get(_ckey(case) + "|patch", []):
            t = row.split()
            if len(t) == 3 and t[:2] == ["undo", "vlan"] and t[2].isdigit() and int(t[2]) in batch_new:
                out.append(dict(sig="huawei:device-mode:undo-vlan-although-in-new-batch",
                                what="api._diff_and_patch emits `%s` although vlan %s is in a `vlan batch` line of the new "
                                     "configuration: old %r new %r" % (row, t[2], case["old"], case["new"])))
                break
            if row.startswith("raised "):
                out.append(dict(sig="huawei:device-mode:" + row.replace(" ", "-"), what="api._diff_and_patch %s on old %r new %r" % (
                    row, case["old"], case["new"])))
        for op, row, _has in r["ok"]:
            t = row.split()
            if str(op).lower().endswith("removed") and len(t) == 2 and t[0] == "vlan" and t[1].isdigit() and int(t[1]) in batch_new:
                out.append(dict(sig="huawei:vlan-block-removed-although-in-new-batch",
                                what="`%s` is reported REMOVED (command `undo %s`) although vlan %s is in a `vlan batch` line "
                                     "of the new configuration %r" % (row, row, t[1], [x[0] for x in case["new"]])))
                break
        return out
    if k == "clb":
        if "err" in r:
            return [dict(sig="cisco:named:simple:raises-%s" % r["err"], what="logic raised %s on well-formed buckets %r" % (r["err"], case))]
        rows = [y[1] for y in r["ok"]]
        fake = dict(old=[], new=[])
        return _check_cmds(fake, "cisco", "simple", case["p"], rows, ([set(case["so"])], [set(case["sn"])]), [], "named")
    if k in ("cl", "cp"):
        if k == "cl":
            p, mode, tag = case["p"], case["mode"], "direct"
        else:
            (_b, p, mode, _n) = C_SCEN[case["scen"]]
            tag = case["scen"]
        sides = _domain_c(case, p, mode)
        if sides is None:
            return []
        if "err" in r:
            return [dict(sig="cisco:%s:%s:raises-%s" % (tag, mode, r["err"]), what="logic raised %s on well-formed lines %r -> %r" % (r["err"], case["old"], case["new"]))]
        rows = r["seq"] if k == "cp" else [y[1] for y in r["ok"]]
        out = _check_cmds(case, "cisco", mode, p, rows, sides, [], tag)
        if k == "cl":
            for d, row, _c in r["ok"]:
                if d != (not row.startswith("no ")):
                    out.append(dict(sig="cisco:direct-flag-wrong", what="yield (%r, %r)" % (d, row)))
        return out
    return []


# ------------------------------------------------------------------ evidence helpers
def nontrivial(case, r):
    k = case["k"]
    if k in ("hl", "cl", "hp", "cp"):
        return "ok" in r and len(r["ok"]) > 0 and sorted(case["old"]) != sorted(case["new"])
    if k == "coll":
        return "ok" in r and len(case["vlans"]) > 1
    if k == "vdiff":
        return "ok" in r and len(r["ok"]) > 1
    return "ok" in r and len(r["ok"]) > 1


def stats(case, r):
    k = case["k"]
    lab = ["kind=" + k, "result=" + ("ok" if "ok" in r else r.get("err", "?"))]
    if k in ("hl", "hlraw", "cl", "clraw", "clb"):
        lab.append("%s:mode=%s" % (k, case["mode"]))
    if k in ("hp", "cp"):
        lab.append("%s:scen=%s" % (k, case["scen"]))
        lab.append("hw=" + case["hw"])
        lab.append("pipeline=api._diff_and_patch")
        if case.get("leave_lag"):
            lab.append("cp:port-leaves-its-port-channel")
    if k == "vdiff":
        removed = {r[0] for r in case["old"]} - {r[0] for r in case["new"]}
        lab.append("vdiff:vlan-block-removed=%d" % any(x.split()[0] == "vlan" and len(x.split()) == 2 for x in removed))
        lab.append("vdiff:unchanged-batch-line=%d" % any(r[0].startswith("vlan batch") and r in case["new"] for r in case["old"]))
    if k in ("hl", "cl", "hp", "cp"):
        lab.append("lines=%d->%d" % (min(len(case["old"]), 5), min(len(case["new"]), 5)))
        if "ok" in r:
            n = len(r["ok"])
            lab.append("cmds=%s" % (n if n < 4 else "4+"))
            rows = [y if isinstance(y, str) else y[1] for y in r["ok"]]
            if any(x.endswith(" all") for x in rows):
                lab.append("branch=undo-all")
            if any(x.endswith(" none") for x in rows):
                lab.append("branch=none")
            if k in ("hl", "cl") and n > 2:
                lab.append("branch=chunked")
        dom = _domain_h(case, case.get("p") or H_SCEN[case["scen"]][1]) if k in ("hl", "hp") else \
            _domain_c(case, case.get("p") or C_SCEN[case["scen"]][1], None)
        lab.append("in-domain" if dom is not None else "out-of-domain")
        if k in ("hl", "hp") and (case.get("mode") == "single" or case.get("scen") == "instance") and \
                (len(case["old"]) > 1 or len(case["new"]) > 1):
            lab.append("single-multiline")
            if r.get("err") == "AssertionError":
                lab.append("single-refused")
    if k == "coll":
        lab.append("coll:chunk_len=%d" % case["chunk_len"])
        lab.append("coll:tiny=%s" % case["tiny"])
    return lab


def shrink_candidates(case):
    k = case["k"]
    if k not in ("hl", "cl", "hp", "cp"):
        return
    for side in ("old", "new"):
        rows = case[side]
        for i in range(len(rows)):
            c = dict(case)
            c[side] = rows[:i] + rows[i + 1:]
            yield c


def search(case):
    rng = random.Random(len(str(case)))
    if case["k"] in ("hl", "cl", "hp", "cp"):
        for _ in range(100):
            c = dict(case)
            side = rng.choice(["old", "new"])
            rows = list(c[side])
            if rows and rng.random() < 0.6:
                del rows[rng.randrange(len(rows))]
            c[side] = rows
            yield c
