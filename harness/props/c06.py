"""C06 — ACL filtering. impl: acl.compile_acl_text + patching.apply_acl; model: Annet.Acl.compileAcl/applyAcl;
oracle: sub-tree, idempotence, merge-monotonicity, fatal-iff evaluated on the real functions.

Glue kinds (harness/c06glue.py): "fglue" drives annet.gen.build_filter_text / build_filter_acl through
annet.gen._old_new_per_device (Filterer stub, --filter-acl file / directory / stdin, -i / -fp / -frp parts) and states
'what leaves the glue is ref_filter(t, A) for the requested filter text A, an empty A passes nothing'; "aglue" drives
RunGeneratorResult.acl_text() / _combine_acl_text over generator ACL texts in the styles generators write them and
states the merge law and 'equals ref_filter(t, union of the rules)' on apply_acl(t, compile(acl_text()))."""
import json
import random
from collections import OrderedDict as odict

ID = "C06"
RULE = ("(ACL text(s), vendor, tree, fatal, exclusive): ACL rule trees over the grammar (literal words, *, ~, nesting<=3, "
        "%global, %cant_delete=0/1, %prio, 1-3 generator texts merged with _combine_acl_text's %generator_names tagging); "
        "trees instantiate the rules' rows (plus uncovered rows, rows in the vendor's negated form, deeper rows); plus the "
        "SMALL ACL SPACE (52 one-rule ACL texts and all 2704 ordered pairs of them as two generators x 191 small trees x "
        "{plain, strict, exclusive} = 1579188 cases) exhaustively in the thorough tier, a seed-chosen slice in the quick tier; "
        "non-trivial = ACL has >=2 rules and the tree >=3 rows of which >=1 passes and >=1 is dropped or errors; "
        "distinct = distinct case; plus the GLUE kinds: fglue = (device config, 1-2 synthetic generators, generator ACLs "
        "on/off, filter request = --filter-acl file | <host>.acl in a directory | stdin text and/or Filterer texts for "
        "-i/-fp/-frp; requested-and-empty, blank/comment-only, rules with margins/comments/ignore rules/%global children) "
        "through annet.gen._old_new_per_device, oracle old/new == ref_filter(unfiltered old/new, filter text); aglue = "
        "(1-3 generator ACL texts in 12 writing styles, tree walking the rule forest) through "
        "RunGeneratorResult.acl_text() directly or via _old_new_per_device, oracle merge law + ref_filter of the union")
TRUSTED_BASE = [
    "Lean 4.33 kernel; axioms per theorem listed (subset of propext, Classical.choice, Quot.sound)",
    "CPython re is not modelled; rule rows are matched by Model/Pattern.lean (tied by C07's correspondence), the "
    "specificity metric uses Pattern.patternSource (tied to re.Pattern.pattern by C07)",
    "valkit parameter validation and tabparser parsing of the ACL text are executed (the model starts from "
    "syntax.parse_text's output); harness/props/c06.py; the compiled Lean driver",
]
ASSUMPTIONS = [
    "ACL rule rows inside the rule grammar; no ignore ('!') rules (compile_acl_text rejects them unless allow_ignore)",
    "rows non-empty, without annotations (with_annotations=False)",
    "glue kinds: the first rule line of an ACL text carries the smallest indentation, indentation is consistent (offside), "
    "no rules below %global / ignore rules, filter parts coming from different sources all start at the left margin; "
    "ref_filter (own parser + own word matcher) is used where it is unambiguous (no negated rows / rules, no ignore+normal "
    "or %global+local-with-children competition on one row), elsewhere the glue is compared with "
    "apply_acl(t, compile_acl_text(dedent(A))) evaluated directly; JSON-fragment filters, acl_safe, annotations are off",
]

VENDORS = [("huawei", "undo", False), ("cisco", "no", False), ("juniper", "delete", True), ("arista", "no", False)]
NOUNS = ["interface", "vlan", "ip", "description", "mtu", "bgp", "peer", "address", "shutdown", "port"]
VALS = ["Eth1", "Eth2", "10", "20", "foo", "1.1.1.1", "x"]
_SETUP = False


def setup_worker():
    global _SETUP
    if _SETUP:
        return
    from annet.hardware import hardware_connector, AnnetHardwareProvider
    hardware_connector.set(AnnetHardwareProvider)
    _SETUP = True


# ------------------------------------------------------------------ glue kinds (harness/c06glue.py)
# signatures, one per mechanism:
#   filter-glue-empty-filter-passes-lines          a filter was requested, its text holds no rule, rows still leave the glue
#   filter-glue-differs-from-ref-filter            old/new != ref_filter(unfiltered old/new, requested filter text)
#   filter-glue-differs-from-apply-acl-of-the-filter-text   same, where ref_filter is not defined (ambiguous rows)
#   filter-glue-raises-on-a-readable-filter        the filter text compiles, the glue raises
#   glue-without-acl-and-filter-changes-the-configuration   nothing requested, --no-acl: config is not handed through
#   acl-text-merge-drops-lines-a-generator-passes  merge law broken AND acl_text()'s rule tree is not the union of the
#                                                  generators' rule trees (independent reading of both)
#   acl-text-merge-differs-from-ref-filter-of-the-union     apply_acl(t, compile(acl_text())) != ref_filter(t, union)
#   acl-text-merge-raises                          every text is an ACL text, the merged one is rejected
#   apply-acl-differs-from-ref-filter              glue-independent: apply_acl itself differs from the reference
#   (merge-law losses with a correct merged rule tree keep the signatures of classify_merge_loss)
GLUE_KINDS = ("fglue", "aglue")
_LAST = [None, None]        # one-slot cache: impl(), oracle(), requests() of one case follow each other


def _glue():
    from harness import c06glue
    return c06glue


def _glue_impl(case):
    k = json.dumps(case, sort_keys=True)
    if _LAST[0] != k:
        g = _glue()
        r = g.run_filter_glue(case) if case["kind"] == "fglue" else g.run_acl_glue(case)
        _LAST[0], _LAST[1] = k, json.loads(json.dumps(r))
    return _LAST[1]


def shards(tier, seed):
    n = 400 if tier == "quick" else 50000
    out = [dict(seed=seed * 1000 + i, n=n) for i in range(16)]
    # the small ACL space (see small_acl_cases), exhaustively in the thorough tier, a seed-chosen slice in the quick tier
    if tier == "quick":
        out += [dict(kind="small", part=(seed * 4 + i) % 1024, parts=1024) for i in range(4)]
    else:
        out += [dict(kind="small", part=i, parts=64) for i in range(64)]
    # the glue around apply_acl (harness/c06glue.py)
    nf, na = (120, 400) if tier == "quick" else (1200, 4000)
    out += [dict(kind="fglue", seed=seed * 1000 + 100 + i, n=nf) for i in range(16)]
    out += [dict(kind="aglue", seed=seed * 1000 + 200 + i, n=na) for i in range(16)]
    return out


def small_acl_texts():
    """one-rule ACL texts: row in {a *, a 1, a ~, ~} x parameter in {-, %global, %cant_delete=1, %prio=1} x child rule in
    {-, x *, x 1, ~ %global} (no child below a %global rule)"""
    out = []
    for row in ("a *", "a 1", "a ~", "~"):
        for par in ("", "  %global", "  %cant_delete=1", "  %prio=1"):
            for child in (None, "x *", "x 1", "~  %global"):
                if par == "  %global" and child is not None:
                    continue
                out.append(row + par + "\n" + ("    " + child + "\n" if child else ""))
    return out


def small_acl_trees():
    """the 104 small configurations of rbgen plus, for those with a row `a 1`, the same tree with that row in negated form"""
    from harness import rbgen
    out = []
    for t in rbgen.small_configs():
        out.append((t, None))
        if any(r == "a 1" for r, _ in t):
            out.append((t, "a 1"))
    return out


def small_acl_cases(part, parts):
    """every single ACL text and every ordered pair of them (two generators) x every small tree x {plain, strict,
    exclusive}, huawei / cisco alternating"""
    texts = small_acl_texts()
    acls = [[a] for a in texts] + [[a, b] for a in texts for b in texts]
    trees = small_acl_trees()
    k = 0
    for ai, acl in enumerate(acls):
        for ti, (t, neg) in enumerate(trees):
            for mode in range(3):
                if k % parts == part:
                    vendor, pre = (("huawei", "undo"), ("cisco", "no"))[(ai + ti) % 2]
                    tree = [[(pre + " " + r) if r == neg else r, ([] if r == neg else [list(x) for x in ch])] for r, ch in t]
                    yield dict(vendor=vendor, texts=list(acl), tree=tree, fatal=mode == 1, exclusive=mode == 2,
                               tagged=len(acl) > 1)
                k += 1


# ------------------------------------------------------------------ generators
def gen_rule_row(rng, pre):
    n = rng.randint(1, 3)
    ws = [rng.choice(NOUNS)]
    for _ in range(n - 1):
        ws.append(rng.choice(NOUNS + [v for v in VALS if "." not in v] + ["*", "*"]))
    r = rng.random()
    if r < 0.25:
        ws.append("~")
    elif r < 0.3:
        ws = ["~"]
    if rng.random() < 0.06:
        ws.insert(0, pre)
    elif rng.random() < 0.05:
        # a first word that merely BEGINS with the vendor's negation word (`notify`, `node`, `undoable`, `deleted`):
        # it is an ordinary command, its negated form is `<neg> <word> ...`
        ws[0] = pre + rng.choice(["tify", "de", "able", "d", "x"])
    return " ".join(ws)


def gen_acl_lines(rng, pre, depth=0, maxdepth=3):
    """list of (indent, text)"""
    out = []
    for _ in range(rng.randint(1, 4 if depth == 0 else 3)):
        row = gen_rule_row(rng, pre)
        params = []
        is_global = rng.random() < 0.15
        if is_global:
            params.append("%global" if rng.random() < 0.7 else "%global=1")
        if rng.random() < 0.3:
            params.append("%cant_delete=" + rng.choice(["0", "1"]))
        if rng.random() < 0.15:
            params.append("%prio=" + str(rng.randint(0, 3)))
        out.append((depth, row + ("  " + " ".join(params) if params else "")))
        if not is_global and depth < maxdepth - 1 and rng.random() < 0.5:
            out.extend(gen_acl_lines(rng, pre, depth + 1, maxdepth))
    return out


def render(lines):
    return "\n".join("    " * d + t for d, t in lines) + "\n"


def rows_from_acl(lines):
    return [t.split("  %")[0].split(" %")[0].strip() for _, t in lines]


def inst(rng, rule_row):
    ws = []
    for w in rule_row.split(" "):
        if w == "*":
            ws.append(rng.choice(VALS))
        elif w == "~":
            ws.extend(rng.choice(VALS + NOUNS) for _ in range(rng.randint(1, 2)))
        else:
            ws.append(w)
    return " ".join(ws)


def gen_tree(rng, rule_rows, pre, depth=0):
    t = []
    seen = set()
    for _ in range(rng.randint(1, 4)):
        r = rng.random()
        if r < 0.65 and rule_rows:
            row = inst(rng, rng.choice(rule_rows))
        elif r < 0.8:
            row = " ".join(rng.choice(NOUNS + VALS) for _ in range(rng.randint(1, 3)))
        else:
            row = pre + " " + inst(rng, rng.choice(rule_rows)) if rule_rows else "x"
        if rng.random() < 0.05:
            row = row + rng.choice(["x", "  y"])
        if row in seen or not row.strip():
            continue
        seen.add(row)
        ch = gen_tree(rng, rule_rows, pre, depth + 1) if depth < 3 and rng.random() < 0.5 else []
        t.append([row, ch])
    return t


def gen(desc):
    if desc.get("kind") == "small":
        yield from small_acl_cases(desc["part"], desc["parts"])
        return
    if desc.get("kind") in GLUE_KINDS:
        rng = random.Random(desc["seed"])
        g = _glue()
        for _ in range(desc["n"]):
            yield g.gen_fglue(rng) if desc["kind"] == "fglue" else g.gen_aglue(rng)
        return
    rng = random.Random(desc["seed"])
    for _ in range(desc["n"]):
        vendor, pre, _jun = rng.choice(VENDORS)
        ngen = rng.choice([1, 1, 2, 2, 3])
        texts = [render(gen_acl_lines(rng, pre)) for _ in range(ngen)]
        if rng.random() < 0.3 and ngen > 1:
            # overlapping generators: share a prefix of the first text
            l0 = texts[0].split("\n")
            texts[1] = "\n".join(l0[:rng.randint(1, len(l0))]) + "\n" + texts[1]
        rule_rows = []
        for t in texts:
            rule_rows += [l.split("%")[0].strip() for l in t.split("\n") if l.strip()]
        tree = gen_tree(rng, rule_rows, pre)
        yield dict(vendor=vendor, texts=texts, tree=tree, fatal=rng.random() < 0.3, exclusive=rng.random() < 0.3,
                   tagged=ngen > 1 or rng.random() < 0.3)


# ------------------------------------------------------------------ real code adapters
def combine(texts, tagged):
    if not tagged:
        return "".join(texts)
    import textwrap
    out = ""
    for i, t in enumerate(texts):
        for line in textwrap.dedent(t).split("\n"):
            if line and not line.isspace():
                out += line.rstrip() + "  %%generator_names=g%d\n" % i
    return out


def to_odict(t):
    return odict((k, to_odict(c)) for k, c in t)


def to_list(d):
    return [[k, to_list(c)] for k, c in d.items()]


def run_apply(text, vendor, tree, fatal, exclusive):
    from annet.annlib import patching
    from annet.annlib.rbparser import acl
    try:
        rules = acl.compile_acl_text(text, vendor)
    except Exception as e:  # noqa
        return {"err": "compile:%s" % type(e).__name__}
    try:
        res = patching.apply_acl(to_odict(tree), rules, fatal_acl=fatal, exclusive=exclusive)
    except patching.AclNotExclusiveError as e:
        return {"err": "AclNotExclusiveError", "msg": str(e)}
    except patching.AclError as e:
        return {"err": "AclError", "msg": str(e)}
    return {"ok": to_list(res)}


def impl(case):
    setup_worker()
    if case.get("kind") in GLUE_KINDS:
        return _glue_impl(case)
    text = combine(case["texts"], case["tagged"])
    return run_apply(text, case["vendor"], case["tree"], case["fatal"], case["exclusive"])


def raw_trees(text):
    from annet.annlib.rbparser import acl, syntax
    tree = syntax.parse_text(text, acl._PARAMS_SCHEME)

    def conv(t):
        return [dict(row=a["row"], ignore=a["type"] == "ignore", **{"global": bool(a["params"]["global"])},
                     cant_delete=[bool(x) for x in a["params"]["cant_delete"]], prio=int(a["params"]["prio"]),
                     generator_names=list(a["params"]["generator_names"]), children=conv(a["children"]))
                for a in t.values()]
    return [conv(tree)]


def requests(case):
    setup_worker()
    if case.get("kind") in GLUE_KINDS:
        return _glue().requests(case, _glue_impl(case))
    text = combine(case["texts"], case["tagged"])
    try:
        trees = raw_trees(text)
    except Exception:
        return []
    v = [x for x in VENDORS if x[0] == case["vendor"]][0]
    return [dict(op="c06.apply", trees=trees, vendor=dict(reverse=v[1], juniper=v[2]), fatal=case["fatal"],
                 exclusive=case["exclusive"], config=case["tree"])]


def model(case, resp):
    if case.get("kind") in GLUE_KINDS:
        return _glue().model(case, resp)
    r = resp[0]
    if r.get("grammar") is False:
        return {"skip": True}
    if "ok" in r:
        return {"ok": r["ok"]}
    if r["err"] == "AclError":
        return {"err": "AclError", "msg": " / ".join(r["path"])}
    return {"err": "AclNotExclusiveError",
            "msg": "'%s', generators: '%s'" % ("/ ".join(r["path"]), ", ".join(r["names"]))}


# ------------------------------------------------------------------ oracle
def paths(t, pre=()):
    out = []
    for k, c in t:
        out.append(pre + (k,))
        out.extend(paths(c, pre + (k,)))
    return out


def is_ordered_subtree(sub, t):
    i = 0
    for k, c in sub:
        while i < len(t) and t[i][0] != k:
            i += 1
        if i == len(t):
            return False
        if not is_ordered_subtree(c, t[i][1]):
            return False
        i += 1
    return True


def first_unmatched(tree, rules, path=()):
    """document-order first row with no ACL match at a covered parent (what fatal mode must name)"""
    from annet.annlib import patching
    for row, ch in tree:
        match, cr = patching.match_row_to_acl(row, rules)
        if not match:
            return path + (row,)
        if match["is_reverse"] and all(match["attrs"]["cant_delete"]):
            continue
        r = first_unmatched(ch, cr, path + (row,))
        if r:
            return r
    return None


def classify_merge_loss(lost, merged_text, vendor, texts=None):
    """Why does the merged ACL drop a path that one generator's ACL passes?  Walk the lost path through the
    merged rules the way apply_acl does and name the recorded mechanisms; anything else is 'merge-not-monotone'."""
    from annet.annlib import patching
    from annet.annlib.rbparser import acl
    rules = acl.compile_acl_text(merged_text, vendor)
    singles = []
    for t in (texts or []):
        try:
            singles.append(acl.compile_acl_text(t, vendor))
        except Exception:  # noqa
            singles.append(None)
    shadowed = None
    for i, row in enumerate(lost):
        ms = patching._find_acl_matches(row, rules)
        if not ms:
            # uncovered at this level: explained only if a %global (or reverse) first match of the parent
            # level hid the children rules of a lower-ranked local rule
            return shadowed or "merge-not-monotone"
        (f_rule, f_cr), f_other = ms[0]
        if f_other["is_reverse"] and all(f_rule["attrs"]["cant_delete"]):
            return "merge-reverse-cant-delete-outranks"
        shadowed = None
        # one generator declares a rule row %global, another declares the SAME row as a local rule with children:
        # the merged rule is global and the children rules are gone
        for raw, g in rules["global"].items():
            if not g["attrs"]["direct_regexp"].match(row):
                continue
            for sr in singles:
                loc = sr and sr["local"].get(raw)
                if loc and (loc["children"]["local"] or loc["children"]["global"]):
                    shadowed = "merge-same-row-global-and-local"
        for k, sr in enumerate(singles):
            if sr is None:
                continue
            sm = patching._find_acl_matches(row, sr)
            singles[k] = patching._select_match(sm, sr)[1] if sm else None
        if shadowed:
            match, rules = patching._select_match(ms, rules)
            if match is None:
                return "merge-not-monotone"
            continue
        if not f_cr:
            # children rules of this row come from %global rules only
            shadowed = ("merge-reverse-match-shadows-children" if f_other["is_reverse"]
                        else "merge-global-shadows-local-children")

            # the recorded mechanisms need the shadowing match to be strictly more specific: on a tie of
            # (prio, shared characters) the direct local match comes first
            def metric(rule, other):
                rx = rule["attrs"]["reverse_regexp" if other["is_reverse"] else "direct_regexp"].pattern
                return (rule["attrs"]["prio"], len(set(row) & set(rx)) / len(row))
            m0 = metric(f_rule, f_other)
            if any(cr_ok and metric(rule, other) == m0 for (rule, cr_ok), other in ms[1:]):
                return "acl-match-tie-not-resolved-for-the-direct-local-rule"
        match, rules = patching._select_match(ms, rules)
        if match is None:
            return "merge-not-monotone"
    return "merge-not-monotone"


def ref_flags(text):
    """reference reading of %cant_delete: the explicit flags of a rule line, else the built-in default
    'the rule starts with interface'; rules with the same row unite their flag lists (merged generators)"""
    import re
    flags = {}
    for line in text.split("\n"):
        raw = line.strip()
        if not raw:
            continue
        row = re.sub(r"\s+", " ", raw.split("%")[0].strip()) if "%" in raw else re.sub(r"\s+", " ", raw)
        m = re.search(r"%cant_delete=([^\s]*)", raw)
        fl = [x in ("1", "true", "yes") for x in re.split(r"[,\t ]+", m.group(1))] if m else [raw.startswith("interface")]
        flags.setdefault((len(line) - len(line.lstrip(" ")), row), []).extend(fl)
    return flags


def compiled_flags_check(text, vendor, out):
    """every compiled rule carries the reference flags (this is where the built-in interface default lives)"""
    from annet.annlib.rbparser import acl, syntax
    try:
        rules = acl.compile_acl_text(text, vendor)
    except Exception:
        return
    ref = {}
    for (ind, row), fl in ref_flags(text).items():
        ref.setdefault(row, []).append(fl)

    def walk(rs):
        for scope in ("local", "global"):
            for rid, rule in rs[scope].items():
                got = list(rule["attrs"]["cant_delete"])
                cands = ref.get(rid, [])
                # a row may occur at several places of the text: the compiled flags must be one of the references
                # or a concatenation of them (same row merged at one level)
                ok = any(got == c for c in cands) or sorted(got) == sorted(x for c in cands for x in c) or \
                    (cands and set(got) <= set(x for c in cands for x in c) and len(got) <= sum(len(c) for c in cands))
                if cands and not ok:
                    out.append(dict(sig="cant-delete-flags-wrong",
                                    what="rule %r is compiled with cant_delete=%r, the ACL text says %r" % (rid, got, cands)))
                    return True
                if rule["children"] and walk(rule["children"]):
                    return True
        return False
    walk(rules)


def oracle(case, r):
    setup_worker()
    if case.get("kind") == "fglue":
        return _glue().oracle_fglue(case, r)
    if case.get("kind") == "aglue":
        return _glue().oracle_aglue(case, r, classify_merge_loss)
    out = []
    compiled_flags_check(combine(case["texts"], case["tagged"]), case["vendor"], out)
    vendor, tree = case["vendor"], case["tree"]
    text = combine(case["texts"], case["tagged"])
    if r.get("err", "").startswith("compile:"):
        return out
    plain = r if (not case["fatal"] and not case["exclusive"]) else run_apply(text, vendor, tree, False, False)
    if "ok" not in plain:
        return [dict(sig="nonfatal-raises", what="apply_acl without fatal/exclusive raised %s" % plain)]
    res = plain["ok"]
    # (a) order-preserving sub-tree
    if not is_ordered_subtree(res, tree):
        out.append(dict(sig="not-a-subtree", what="apply_acl result is not an order-preserving sub-tree of its input"))
    # (c) idempotent
    again = run_apply(text, vendor, res, False, False)
    if again != plain:
        out.append(dict(sig="not-idempotent", what="filtering the filtered tree again changes it"))
    # (e) strict mode raises iff some row at a covered parent is uncovered, naming the first such row
    from annet.annlib.rbparser import acl
    rules = acl.compile_acl_text(text, vendor)
    fu = first_unmatched(tree, rules)
    fat = r if (case["fatal"] and not case["exclusive"]) else run_apply(text, vendor, tree, True, False)
    if fu is None:
        if "err" in fat:
            out.append(dict(sig="fatal-raises-on-covered", what="fatal_acl raised %s although every row is covered" % fat))
        elif fat != plain:
            out.append(dict(sig="fatal-changes-result", what="fatal_acl=True changes the result on a fully covered tree"))
    else:
        if fat.get("err") != "AclError":
            out.append(dict(sig="fatal-silent-drop", what="uncovered row %r was not reported in strict mode" % (fu,)))
        elif fat["msg"] != " / ".join(fu):
            out.append(dict(sig="fatal-wrong-row", what="strict mode names %r, first uncovered row is %r" % (fat["msg"], fu)))
    # (b') rows in negated form, against an independent word matcher (simple ACLs only: literal words, * and a final ~,
    # no %global / %prio / ignore rules, no rule written in negated form): below a directly covered path, a row
    # `<neg> <rest>` is passed if some deletable rule of that level matches <rest> and no cant_delete rule does; it is
    # dropped if no rule of the level matches it as written or through <rest>
    out.extend(negated_rows_check(case, text, tree, res))
    # (d) merge monotone: everything A or B passes alone, A+B passes
    if len(case["texts"]) >= 2:
        merged = set(paths(res))
        for i, t in enumerate(case["texts"]):
            single = combine([t], case["tagged"]).replace("generator_names=g0", "generator_names=g%d" % i)
            alone = run_apply(single, vendor, tree, False, False)
            if "ok" not in alone:
                continue
            lost = [p for p in paths(alone["ok"]) if p not in merged]
            if lost:
                sig = classify_merge_loss(lost[0], text, vendor, [
                    combine([t2], case["tagged"]).replace("generator_names=g0", "generator_names=g%d" % j)
                    for j, t2 in enumerate(case["texts"])])
                out.append(dict(sig=sig, what="path %r passes generator %d's ACL alone but not the merged ACL" % (lost[0], i)))
                break
    return out


def negated_rows_check(case, text, tree, res):
    from harness.props import c10
    neg = dict((v, p) for v, p, _j in VENDORS)[case["vendor"]]
    if case["vendor"] == "juniper":
        return []
    try:
        rules = c10.simple_rules(c10.raw_rules(text), neg)
    except Exception:  # noqa
        return []
    if rules is None:
        return []
    kept = set(paths(res))

    def walk(nodes, level, pre):
        for row, ch in nodes:
            ws = row.split(" ")
            if ws[0] == neg and len(ws) > 1 and row == " ".join(ws):
                rest = " ".join(ws[1:])
                direct = [r for r in level if c10.simple_match(r[0], row)]
                rev = [r for r in level if c10.simple_match(r[0], rest)]
                if not direct and rev and all(r[1] for r in rev) and pre + (row,) not in kept:
                    return dict(sig="negated-row-of-a-deletable-rule-dropped",
                                what="%r below %r: %r is covered by the deletable rule(s) %r, its negated form must pass; "
                                     "apply_acl drops it (ACL %r)" % (row, pre, rest, [" ".join(r[0]) for r in rev], text))
                if not direct and not rev and pre + (row,) in kept:
                    return dict(sig="uncovered-negated-row-passed",
                                what="%r below %r matches no rule as written or through %r, yet apply_acl passes it (ACL %r)" % (
                                    row, pre, rest, text))
                continue
            ms = [r for r in level if c10.simple_match(r[0], row)]
            if not ms or pre + (row,) not in kept:
                continue
            v = walk(ch, [c for r in ms for c in r[2]], pre + (row,))
            if v:
                return v
        return None
    v = walk(tree, rules, ())
    return [v] if v else []


def nontrivial(case, r):
    if case.get("kind") in GLUE_KINDS:
        return _glue().nontrivial(case, r)
    nrules = sum(len([l for l in t.split("\n") if l.strip()]) for t in case["texts"])
    np_ = len(paths(case["tree"]))
    if nrules < 2 or np_ < 3:
        return False
    if "ok" in r:
        k = len(paths(r["ok"]))
        return 0 < k < np_
    return True


def stats(case, r):
    if case.get("kind") in GLUE_KINDS:
        return _glue().stats(case, r)
    lab = ["vendor=" + case["vendor"], "generators=%d" % len(case["texts"]),
           "result=" + ("ok" if "ok" in r else r["err"]),
           "mode=" + ("fatal" if case["fatal"] else "") + ("+excl" if case["exclusive"] else "")]
    if any("%global" in t for t in case["texts"]):
        lab.append("has-global")
    if any("%prio" in t for t in case["texts"]):
        lab.append("has-prio")
    if "ok" in r:
        lab.append("kept=%d%%" % (10 * (10 * len(paths(r["ok"])) // max(1, len(paths(case["tree"]))))))
    return lab


def shrink_candidates(case):
    if case.get("kind") in GLUE_KINDS:
        yield from _glue().shrink_candidates(case)
        return
    t = case["tree"]

    def drops(tree):
        for i in range(len(tree)):
            yield tree[:i] + tree[i + 1:]
            for sub in drops(tree[i][1]):
                yield tree[:i] + [[tree[i][0], sub]] + tree[i + 1:]
    for nt in drops(t):
        yield dict(case, tree=nt)
    for gi, text in enumerate(case["texts"]):
        ls = [l for l in text.split("\n") if l.strip()]
        for i in range(len(ls)):
            nl = ls[:i] + ls[i + 1:]
            if nl:
                yield dict(case, texts=case["texts"][:gi] + ["\n".join(nl) + "\n"] + case["texts"][gi + 1:])
