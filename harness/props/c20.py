"""C20 — results are independent of processing history; inputs are left unmodified.

Three parts.

* translation (`pregen`): lean/AnnetModel/Gen/Effects.lean is regenerated from the Python ASTs of $ANNET_REPO on every
  run: the write sets of every function reachable from the %logic / %diff_logic names of the shipped rule files and
  of the common logics, the three copy flags read off make_diff / make_patch / _select_match, and the inventory of
  process-lifetime state (module- and class-level mutable containers, memoising decorators, mutable default arguments,
  `global` statements) of the modules a worker runs — `C20_process_state_audited` states that it is the audited list of
  Spec/ProcessState.lean, so a new cache or shared container breaks a proof obligation even when no sampled history
  shows a difference.
* T (correspondence): the compiled Lean effect model (Model/Effects.lean through Glue/C20.lean, flags and table from
  Gen/Effects.lean) against the real functions:
    kind=heap    api._diff_and_patch run several times in one process on one compiled rulebook whose rules carry
                 logic functions written in a small effect language (test-only module `c20logic.mut`, resolved through
                 the RulebookProvider's root_modules; also the shipped writers common.default_instead_undo,
                 huawei.bgp.undo_commit, cisco.misc.no_ipv6_nd_suppress_ra): patch rows per job, the attrs objects of
                 `pre`, and the compiled rules' attrs after every job;
    kind=trees   patching.apply_diff_rb on copies (what is popped) and the caller's trees after patching.make_diff;
    kind=acl     patching.match_row_to_acl over one shared compiled ACL: what every row reads from the scratch field
                 and the scratch fields at the end;
    kind=hist    observed writes of the shipped logic functions (recorded around the real calls) must be inside the
                 regenerated table (checked by the driver, which links the table).
* S (oracle, real code only):
    effect validation   deep snapshots of old, new, the compiled rulebook (and the compiled ACL without its scratch
                        field) before and after api._diff_and_patch / Orderer.order_config / apply_acl;
    history             every job of a sequence run in one process must give what it gives in a fresh process
                        (a forked child of a process that has imported annet and run nothing; plus, in `extra`, real
                        `python -c` subprocesses after a long shuffled history); repeated jobs give equal results;
                        within one job, the commands of one (rule, key) must not depend on the other keys (kind=heap).
"""
import ast
import collections
import copy
import json
import os
import random
import re
import subprocess
import sys
import types
from collections import OrderedDict as odict

from harness import rbgen
from harness.core.paths import LEAN, REPO, VERIF

ID = "C20"
RULE = ("kind=hist: sequences of 3-8 jobs (vendor, old, new, ACL, add_comments) drawn from the 192 shipped corpus pairs "
        "(shipped rulebooks, vendor logics), cross pairs of them, and generated rulebooks; kind=heap: 2-4 flat rules with "
        "effect-language logics / diff-logics, 2-4 jobs on the same compiled rulebook; kind=trees: generated rulebook + "
        "config pair with unknown rows; kind=acl: flat ACL with named groups + 3-8 rows; non-trivial = the job(s) produce "
        ">=2 commands / pop >=1 row / >=2 rules matched; distinct = distinct case")
TRUSTED_BASE = [
    "Lean 4.33 kernel; axioms per theorem listed (subset of propext, Classical.choice, Quot.sound)",
    "the AST write-set extraction of harness/props/c20.py (syntactic: assignments / augmented assignments / del through "
    "subscripts and attributes, mutating method calls, global/nonlocal, calls followed into the rulebook packages with "
    "argument mapping, results of calls assumed to alias their arguments); its link to the semantic hypothesis "
    "`Tables.Confined` of the theorems is an assumption, validated by the effect validation (snapshots) and the "
    "fresh-process differential on the corpus",
    "CPython object identity, copy.deepcopy and functools.lru_cache behave as documented",
    "vendor %logic functions are parameters of the model (the theorems quantify over every confined logic table); the "
    "effect language covers the shipped writers common.default_instead_undo, huawei.bgp.undo_commit, "
    "cisco.misc.no_ipv6_nd_suppress_ra and the harness's test-only logics",
    "harness/rbgen.py + harness/props/c20.py and the compiled Lean driver",
]
ASSUMPTIONS = [
    "one level of rules in the heap model (children are other rule objects; nesting adds no aliasing)",
    "compiled ACLs carry a scratch 'match' field that matching overwrites: for ACLs only result equality under reuse is "
    "required (as the property states)",
    "test-only rules whose logic appends to rule['comment'] carry an explicit %comment (rules without one share the "
    "scheme's default list object)",
]

GEN_FILE = os.path.join(LEAN, "AnnetModel", "Gen", "Effects.lean")

# =====================================================================================================================
# translation: write sets and copy flags from the ASTs
# =====================================================================================================================
MUTATORS = {"append", "extend", "insert", "pop", "popitem", "clear", "update", "setdefault", "remove", "sort",
            "reverse", "add", "discard", "move_to_end", "__setitem__", "__delitem__", "appendleft", "popleft"}
GLOBAL = "<global>"


class _Module:
    def __init__(self, name, path):
        self.name = name
        self.path = path
        self.tree = ast.parse(open(path, encoding="utf-8").read())
        self.funcs = {}
        self.imports = {}
        self.from_imports = {}
        self.globals = set()
        self.star = []
        for node in self.tree.body:
            if isinstance(node, (ast.FunctionDef, ast.AsyncFunctionDef)):
                self.funcs[node.name] = node
            elif isinstance(node, (ast.Assign, ast.AnnAssign, ast.AugAssign)):
                for t in (node.targets if isinstance(node, ast.Assign) else [node.target]):
                    for n in ast.walk(t):
                        if isinstance(n, ast.Name):
                            self.globals.add(n.id)
            elif isinstance(node, ast.Import):
                for a in node.names:
                    self.imports[a.asname or a.name.split(".")[0]] = a.name
            elif isinstance(node, ast.ImportFrom):
                for a in node.names:
                    if a.name == "*":
                        self.star.append((node.module, node.level))
                    else:
                        self.from_imports[a.asname or a.name] = (node.module, node.level, a.name)


class Analyzer:
    """flow-insensitive write-set extraction; a write is (root parameter | <global>, field, how, via_match, source)"""

    def __init__(self, repo):
        self.repo = repo
        self.root = os.path.join(repo, "annet", "rulebook")
        self.mods = {}
        self.cache = {}
        self.stack = set()

    def module(self, dotted):
        if dotted in self.mods:
            return self.mods[dotted]
        base = os.path.join(self.repo, *dotted.split(".")) if dotted.startswith("annet.") else \
            os.path.join(self.root, *dotted.split("."))
        m = None
        for p in (base + ".py", os.path.join(base, "__init__.py")):
            if os.path.exists(p):
                m = _Module(dotted, p)
                break
        self.mods[dotted] = m
        return m

    def abs_name(self, mod, module, level):
        if level == 0:
            return module
        rel = os.path.relpath(mod.path, self.repo)[:-3].split(os.sep)
        pkg = rel[:-1]
        if level > 1:
            pkg = pkg[:-(level - 1)]
        return ".".join(pkg + ([module] if module else []))

    def lookup(self, mod, name, depth=0):
        if mod is None:
            return None
        if name in mod.funcs:
            return (mod, mod.funcs[name])
        if depth > 4:
            return None
        if name in mod.from_imports:
            module, level, nm = mod.from_imports[name]
            return self.lookup(self.module(self.abs_name(mod, module, level)), nm, depth + 1)
        for module, level in mod.star:
            r = self.lookup(self.module(self.abs_name(mod, module, level)), name, depth + 1)
            if r:
                return r
        return None

    def resolve_func(self, mod, expr):
        if isinstance(expr, ast.Name):
            return self.lookup(mod, expr.id)
        if isinstance(expr, ast.Attribute) and isinstance(expr.value, ast.Name):
            base = expr.value.id
            target = None
            if base in mod.from_imports:
                module, level, name = mod.from_imports[base]
                target = self.module(self.abs_name(mod, module, level) + "." + name)
            elif base in mod.imports:
                target = self.module(mod.imports[base])
            if target:
                return self.lookup(target, expr.attr)
        return None

    @staticmethod
    def params(fn):
        a = fn.args
        ps = [x.arg for x in a.posonlyargs + a.args + a.kwonlyargs]
        if a.vararg:
            ps.append(a.vararg.arg)
        if a.kwarg:
            ps.append(a.kwarg.arg)
        return ps

    def effects(self, mod, fn):
        key = (mod.path, fn.name, fn.lineno)
        if key in self.cache:
            return self.cache[key]
        if key in self.stack:
            return set()
        self.stack.add(key)
        res = self._effects(mod, fn)
        for dec in fn.decorator_list:
            r = self.resolve_func(mod, dec if not isinstance(dec, ast.Call) else dec.func)
            if r:
                dm, dfn = r
                for inner in ast.walk(dfn):
                    if isinstance(inner, ast.FunctionDef) and inner is not dfn:
                        res |= self._effects(dm, inner, extra_callee=(set(self.params(dfn)), (mod, fn)))
        self.stack.discard(key)
        self.cache[key] = res
        return res

    def _effects(self, mod, fn, extra_callee=None):
        params = self.params(fn)
        alias = {p: {p} for p in params}
        local_names = set(params)
        declared_global = set()
        nodes = list(ast.walk(fn))
        for n in nodes:
            if isinstance(n, (ast.Global, ast.Nonlocal)):
                declared_global |= set(n.names)
            if isinstance(n, ast.Name) and isinstance(n.ctx, ast.Store):
                local_names.add(n.id)
            if isinstance(n, ast.FunctionDef) and n is not fn:
                local_names |= set(self.params(n))
            if isinstance(n, ast.Lambda):
                local_names |= {x.arg for x in n.args.args}
        local_names -= declared_global

        def roots(e):
            if e is None:
                return set()
            if isinstance(e, ast.Name):
                if e.id in alias:
                    return set(alias[e.id])
                if e.id not in local_names and e.id in mod.globals:
                    return {GLOBAL}
                return set()
            if isinstance(e, (ast.Subscript, ast.Attribute, ast.Starred)):
                return roots(e.value)
            if isinstance(e, ast.Call):
                out = set()
                if isinstance(e.func, ast.Attribute):
                    out |= roots(e.func.value)
                for a in e.args:
                    out |= roots(a)
                for k in e.keywords:
                    out |= roots(k.value)
                return out            # the result of a call may alias its receiver / arguments
            if isinstance(e, ast.IfExp):
                return roots(e.body) | roots(e.orelse)
            if isinstance(e, ast.BoolOp):
                return set().union(*[roots(v) for v in e.values])
            if isinstance(e, (ast.Tuple, ast.List, ast.Set)):
                return set().union(*[roots(v) for v in e.elts]) if e.elts else set()
            if isinstance(e, ast.BinOp):
                return roots(e.left) | roots(e.right)
            if isinstance(e, ast.NamedExpr):
                return roots(e.value)
            if isinstance(e, (ast.ListComp, ast.GeneratorExp, ast.SetComp)):
                return roots(e.elt) | set().union(*[roots(g.iter) for g in e.generators])
            if isinstance(e, ast.DictComp):
                return roots(e.value) | set().union(*[roots(g.iter) for g in e.generators])
            if isinstance(e, ast.Dict):
                return set().union(*[roots(v) for v in e.values if v is not None]) if e.values else set()
            if isinstance(e, (ast.Await, ast.YieldFrom, ast.Yield)):
                return roots(e.value)
            return set()

        def bind(target, rs):
            changed = False
            if isinstance(target, ast.Name):
                cur = alias.setdefault(target.id, set())
                if not rs <= cur:
                    cur |= rs
                    changed = True
            elif isinstance(target, (ast.Tuple, ast.List)):
                for t in target.elts:
                    changed |= bind(t, rs)
            elif isinstance(target, ast.Starred):
                changed |= bind(target.value, rs)
            return changed

        for _ in range(10):
            changed = False
            for n in nodes:
                if isinstance(n, ast.Assign):
                    rs = roots(n.value)
                    for t in n.targets:
                        changed |= bind(t, rs)
                elif isinstance(n, ast.AnnAssign) and n.value is not None:
                    changed |= bind(n.target, roots(n.value))
                elif isinstance(n, ast.AugAssign) and isinstance(n.target, ast.Name):
                    changed |= bind(n.target, roots(n.value))
                elif isinstance(n, (ast.For, ast.AsyncFor)):
                    changed |= bind(n.target, roots(n.iter))
                elif isinstance(n, ast.comprehension):
                    changed |= bind(n.target, roots(n.iter))
                elif isinstance(n, ast.NamedExpr):
                    changed |= bind(n.target, roots(n.value))
                elif isinstance(n, (ast.With, ast.AsyncWith)):
                    for it in n.items:
                        if it.optional_vars is not None:
                            changed |= bind(it.optional_vars, roots(it.context_expr))
            if not changed:
                break

        res = set()

        def field_of(t):
            chain = []
            e = t
            while isinstance(e, (ast.Subscript, ast.Attribute)):
                if isinstance(e, ast.Subscript):
                    s = e.slice
                    if isinstance(s, ast.Constant) and isinstance(s.value, str):
                        chain.append(s.value)
                    elif isinstance(s, ast.Attribute) and isinstance(s.value, ast.Name) and s.value.id == "Op":
                        chain.append("Op." + s.attr)
                    else:
                        chain.append("*")
                else:
                    chain.append("." + e.attr)
                e = e.value
            chain.reverse()
            return ("/".join(chain[:2]) if chain else "", "attrs" in chain)

        def record(rs, fv, how, node):
            for r in rs:
                res.add((r, fv[0], how, fv[1], "%s:%d" % (os.path.relpath(mod.path, self.repo), node.lineno)))

        def write_target(t, how, node):
            if isinstance(t, (ast.Subscript, ast.Attribute)):
                record(roots(t.value), field_of(t), how, node)
            elif isinstance(t, (ast.Tuple, ast.List)):
                for x in t.elts:
                    write_target(x, how, node)
            elif isinstance(t, ast.Name) and t.id in declared_global:
                record({GLOBAL}, (t.id, False), how, node)

        def propagate(callee, amap):
            cm, cfn = callee
            for (r, field, how, via, src) in self.effects(cm, cfn):
                if r == GLOBAL:
                    res.add((GLOBAL, field, how, via, src))
                else:
                    for rr in amap.get(r, ()):
                        res.add((rr, field, how, via, src))

        def call_effects(callee, args, keywords):
            cfn = callee[1]
            cps = self.params(cfn)
            pos = [x.arg for x in cfn.args.posonlyargs + cfn.args.args]
            amap = {}
            npos = 0
            for i, a in enumerate(args):
                if isinstance(a, ast.Starred):
                    for p in pos[i:]:
                        amap.setdefault(p, set()).update(roots(a.value))
                    if cfn.args.vararg:
                        amap.setdefault(cfn.args.vararg.arg, set()).update(roots(a.value))
                elif i < len(pos):
                    amap.setdefault(pos[i], set()).update(roots(a))
                    npos = i + 1
                elif cfn.args.vararg:
                    amap.setdefault(cfn.args.vararg.arg, set()).update(roots(a))
            bound = set(pos[:npos]) | {k.arg for k in keywords if k.arg}
            for k in keywords:
                if k.arg is None:
                    for p in cps:
                        if p not in bound and (cfn.args.vararg is None or p != cfn.args.vararg.arg):
                            amap.setdefault(p, set()).update(roots(k.value))
                elif k.arg in cps:
                    amap.setdefault(k.arg, set()).update(roots(k.value))
                elif cfn.args.kwarg:
                    amap.setdefault(cfn.args.kwarg.arg, set()).update(roots(k.value))
            propagate(callee, amap)

        for n in nodes:
            if isinstance(n, ast.Assign):
                for t in n.targets:
                    write_target(t, "assign", n)
            elif isinstance(n, ast.AugAssign):
                write_target(n.target, "augassign", n)
                if isinstance(n.target, ast.Name) and n.target.id not in params:
                    rs = alias.get(n.target.id, set())
                    if rs:
                        record(rs, ("", False), "augassign-alias", n)       # `x += […]` on an alias mutates in place
            elif isinstance(n, ast.AnnAssign) and n.value is not None:
                write_target(n.target, "assign", n)
            elif isinstance(n, ast.Delete):
                for t in n.targets:
                    write_target(t, "del", n)
            elif isinstance(n, ast.Call):
                f = n.func
                if isinstance(f, ast.Attribute) and f.attr in MUTATORS:
                    rs = roots(f.value)
                    if rs:
                        fv = field_of(f.value) if isinstance(f.value, (ast.Subscript, ast.Attribute)) else ("", False)
                        record(rs, fv, "call:" + f.attr, n)
                if isinstance(f, ast.Name) and f.id in ("setattr", "delattr") and n.args:
                    record(roots(n.args[0]), ("*", False), "call:" + f.id, n)
                callee = self.resolve_func(mod, f)
                if callee is None and extra_callee is not None and isinstance(f, ast.Name) and f.id in extra_callee[0]:
                    callee = extra_callee[1]
                if callee:
                    call_effects(callee, n.args, n.keywords)
                if isinstance(f, ast.Name) and f.id in ("map", "filter") and len(n.args) >= 2:
                    c2 = self.resolve_func(mod, n.args[0])
                    if c2:
                        pos = [x.arg for x in c2[1].args.args]
                        if pos:
                            propagate(c2, {pos[0]: set().union(*[roots(a) for a in n.args[1:]])})
        return res


def shipped_names(repo):
    names = {"logic": set(), "diff_logic": set()}
    tdir = os.path.join(repo, "annet", "rulebook", "texts")
    for f in sorted(os.listdir(tdir)):
        if f.endswith(".rul"):
            txt = open(os.path.join(tdir, f), encoding="utf-8").read()
            for kind, name in re.findall(r"%(logic|diff_logic)=([A-Za-z_][A-Za-z0-9_.]*)", txt):
                names[kind].add(name)
    names["logic"] |= {"common.default", "common.ordered", "common.rewrite", "common.permanent", "common.ignore_changes",
                       "common.undo_redo", "common.default_instead_undo"}
    names["diff_logic"] |= {"common.default_diff", "common.ordered_diff", "common.rewrite_diff", "common.multiline_diff"}
    for dp, _, fs in os.walk(os.path.join(repo, "annet", "vendors")):
        for f in fs:
            if f.endswith(".py"):
                for m in re.finditer(r"[\"']([a-z_0-9]+(?:\.[a-z_0-9]+)*\.[a-z_0-9]*_diff)[\"']",
                                     open(os.path.join(dp, f), encoding="utf-8").read()):
                    names["diff_logic"].add(m.group(1))
    return names


def _is_deepcopy(e):
    return isinstance(e, ast.Call) and (
        (isinstance(e.func, ast.Attribute) and e.func.attr == "deepcopy") or
        (isinstance(e.func, ast.Name) and e.func.id == "deepcopy"))


def _func(tree, name):
    for n in tree.body:
        if isinstance(n, ast.FunctionDef) and n.name == name:
            return n
    return None


def copy_flags(repo):
    """(copy_old_new, copy_attrs, copy_match) read off make_diff, make_patch, _select_match"""
    tree = ast.parse(open(os.path.join(repo, "annet", "annlib", "patching.py"), encoding="utf-8").read())
    # make_diff: `old = copy.deepcopy(old)` and `new = copy.deepcopy(new)` before old / new are handed to anything else
    md = _func(tree, "make_diff")
    copy_old_new = False
    if md is not None:
        copied = set()
        ok = True
        for st in md.body:
            if isinstance(st, ast.Assign) and len(st.targets) == 1 and isinstance(st.targets[0], ast.Name) and \
                    _is_deepcopy(st.value) and st.value.args and isinstance(st.value.args[0], ast.Name) and \
                    st.value.args[0].id == st.targets[0].id and st.targets[0].id in ("old", "new"):
                copied.add(st.targets[0].id)
                continue
            for n in ast.walk(st):
                if isinstance(n, ast.Name) and n.id in ("old", "new") and n.id not in copied:
                    ok = False
        copy_old_new = ok and copied == {"old", "new"}
    # make_patch: the `rule=` argument of the logic call is a name bound to a deepcopy
    mp = _func(tree, "make_patch")
    copy_attrs = False
    if mp is not None:
        deep = set()
        other = set()
        for n in ast.walk(mp):
            if isinstance(n, ast.Assign) and len(n.targets) == 1 and isinstance(n.targets[0], ast.Name):
                (deep if _is_deepcopy(n.value) else other).add(n.targets[0].id)
        rule_args = []
        for n in ast.walk(mp):
            if isinstance(n, ast.Call):
                for k in n.keywords:
                    if k.arg == "rule":
                        rule_args.append(k.value)
        copy_attrs = bool(rule_args) and all(
            (isinstance(a, ast.Name) and a.id in deep and a.id not in other) or _is_deepcopy(a) for a in rule_args)
    # _select_match: the "attrs" value of the match dict is a deepcopy
    sm = _func(tree, "_select_match")
    copy_match = False
    if sm is not None:
        vals = []
        for n in ast.walk(sm):
            if isinstance(n, ast.Dict):
                for k, v in zip(n.keys, n.values):
                    if isinstance(k, ast.Constant) and k.value == "attrs":
                        vals.append(v)
        copy_match = bool(vals) and all(_is_deepcopy(v) for v in vals)
    return (copy_old_new, copy_attrs, copy_match)


_LOGIC_ROOTS = {"rule": "rule", "key": "key", "diff": "diff", "hw": "hw", "rule_pre": "rulePre", "root_pre": "rootPre"}
_DIFF_ROOTS = {"old": "old", "new": "new", "diff_pre": "diffPre", "_pops": "pops"}


def build_table(repo):
    """[(name, kind, resolved, [(root, field, how, via_match)])] sorted; roots are Lean constructor names"""
    an = Analyzer(repo)
    names = shipped_names(repo)
    out = []
    for kind in ("logic", "diff_logic"):
        for name in sorted(names[kind]):
            modn, fn = name.rsplit(".", 1)
            r = an.lookup(an.module(modn), fn)
            if not r:
                out.append((name, kind, False, []))
                continue
            ws = set()
            table = _LOGIC_ROOTS if kind == "logic" else _DIFF_ROOTS
            for (root, field, how, via, _src) in an.effects(*r):
                lr = "global" if root == GLOBAL else table.get(root, "otherArg")
                ws.add((lr, field, how, bool(via)))
            out.append((name, kind, True, sorted(ws)))
    return out


def _lstr(s):
    return json.dumps(s, ensure_ascii=True)


# =====================================================================================================================
# process-lifetime state: what can carry information from one device to the next inside a worker
# =====================================================================================================================
_MUT_CALLS = {"dict", "list", "set", "odict", "OrderedDict", "defaultdict", "Counter", "deque"}
STATE_SCOPE = ("annet/annlib", "annet/rulebook", "annet/vendors", "annet/implicit.py", "annet/patching.py",
               "annet/parallel.py", "annet/lib.py", "annet/diff.py", "annet/gen.py", "annet/api", "annet/generators",
               "annet/deploy.py", "annet/tabparser.py", "annet/connectors.py", "annet/hardware.py")


def _is_mutable_expr(v):
    if isinstance(v, (ast.Dict, ast.List, ast.Set, ast.ListComp, ast.DictComp, ast.SetComp)):
        return True
    if isinstance(v, ast.Call):
        f = v.func
        n = f.id if isinstance(f, ast.Name) else f.attr if isinstance(f, ast.Attribute) else ""
        return n in _MUT_CALLS
    return False


def process_state(repo):
    """every place of the scoped modules where a value can outlive a call: module-level and class-level mutable
    containers, memoising decorators, mutable default arguments -> sorted list of 'file:what' strings"""
    items = set()
    for scope in STATE_SCOPE:
        base = os.path.join(repo, scope)
        paths = [base] if base.endswith(".py") else [os.path.join(dp, f) for dp, _dn, fn in os.walk(base) for f in fn if f.endswith(".py")]
        for path in paths:
            if not os.path.isfile(path):
                continue
            rel = os.path.relpath(path, repo)
            try:
                tree = ast.parse(open(path, encoding="utf-8").read())
            except SyntaxError:
                items.add("%s:<does not parse>" % rel)
                continue

            def scan(body, pre):
                for n in body:
                    if isinstance(n, (ast.Assign, ast.AnnAssign)):
                        tg = n.targets if isinstance(n, ast.Assign) else [n.target]
                        if n.value is not None and _is_mutable_expr(n.value):
                            for t in tg:
                                if isinstance(t, ast.Name):
                                    items.add("%s:%s%s = <mutable>" % (rel, pre, t.id))
                    elif isinstance(n, ast.ClassDef):
                        scan(n.body, pre + n.name + ".")
                    elif isinstance(n, (ast.If, ast.Try)):
                        scan(n.body, pre)
            scan(tree.body, "")
            for n in ast.walk(tree):
                if isinstance(n, (ast.FunctionDef, ast.AsyncFunctionDef)):
                    for d in n.decorator_list:
                        txt = ast.unparse(d)
                        if "cache" in txt:
                            items.add("%s:%s @%s" % (rel, n.name, txt.split("(")[0]))
                    for d in list(n.args.defaults) + [x for x in n.args.kw_defaults if x is not None]:
                        if _is_mutable_expr(d):
                            items.add("%s:%s(<mutable default>)" % (rel, n.name))
                    for sub in ast.walk(n):
                        if isinstance(sub, ast.Global):
                            for g in sub.names:
                                items.add("%s:%s global %s" % (rel, n.name, g))
    return sorted(items)


def render_gen(flags, table):
    b = lambda x: "true" if x else "false"  # noqa: E731
    lines = ["-- generated by harness/props/c20.py (pregen) from the Python ASTs of the annet tree; do not edit",
             "import AnnetModel.Model.Effects",
             "",
             "namespace Annet.Gen.Effects",
             "open Annet.Effects",
             "",
             "/-- make_diff deep-copies old/new; make_patch deep-copies the rule attrs; _select_match deep-copies the match attrs -/",
             "def flags : Flags := ⟨%s, %s, %s⟩" % tuple(b(x) for x in flags),
             "",
             "/-- write sets of the functions behind every %logic / %diff_logic name of the shipped rule files -/",
             "def table : List Entry := ["]
    ents = []
    for name, kind, resolved, ws in table:
        wl = ", ".join("⟨.%s, %s, %s, %s⟩" % (r, _lstr(f), _lstr(h), b(v)) for r, f, h, v in ws)
        ents.append("  ⟨%s, %s, %s, [%s]⟩" % (_lstr(name), ".logic" if kind == "logic" else ".diffLogic", b(resolved), wl))
    lines.append(",\n".join(ents))
    lines += ["]", "",
              "/-- every place of the scoped annet modules where a value can outlive a call (module- and class-level mutable",
              "containers, memoising decorators, mutable default arguments, `global` statements) -/",
              "def processState : List String := ["]
    lines.append(",\n".join("  " + _lstr(x) for x in process_state(REPO)))
    lines += ["]", "", "end Annet.Gen.Effects", ""]
    return "\n".join(lines)


_TABLE = None


def table():
    global _TABLE
    if _TABLE is None:
        _TABLE = build_table(REPO)
    return _TABLE


def _state_note():
    """how the regenerated process-state inventory differs from the audited list of Spec/ProcessState.lean (what
    C20_process_state_audited states), for the replay of an unproved run"""
    try:
        spec = open(os.path.join(LEAN, "AnnetModel", "Spec", "ProcessState.lean"), encoding="utf-8").read()
        audited = set(re.findall(r'^  "((?:[^"\\]|\\.)*)",?$', spec, re.M))
        now = set(process_state(REPO))
        if now != audited:
            return "; process state differs from the audited list (C20_process_state_audited): new %s, gone %s" % (
                sorted(now - audited), sorted(audited - now))
    except Exception as e:  # noqa
        return "; process-state note failed: %r" % (e,)
    return ""


def pregen():
    flags = copy_flags(REPO)
    text = render_gen(flags, table())
    os.makedirs(os.path.dirname(GEN_FILE), exist_ok=True)
    if not os.path.exists(GEN_FILE) or open(GEN_FILE, encoding="utf-8").read() != text:
        with open(GEN_FILE, "w", encoding="utf-8") as f:
            f.write(text)
        return "Gen/Effects.lean rewritten: flags=%s, %d entries%s" % (flags, len(table()), _state_note())
    return "Gen/Effects.lean unchanged" + _state_note()


# =====================================================================================================================
# the test-only logic module: `%logic=mut.L_<hex of the phases>`, `%diff_logic=mut.D_<hex of the effects>`
# =====================================================================================================================
_OPN = ["added", "removed", "moved", "affected", "unchanged"]


def _apply_eff(e, rule, diff):
    from annet.annlib.types import Op
    ops = {"added": Op.ADDED, "removed": Op.REMOVED, "moved": Op.MOVED, "affected": Op.AFFECTED, "unchanged": Op.UNCHANGED}
    tag = e[0]
    if tag == "set":
        rule[e[1]] = list(e[2]) if isinstance(e[2], list) else e[2]
    elif tag == "append":
        rule[e[1]] = rule[e[1]] + e[2]
    elif tag == "replace":
        rule[e[1]] = rule[e[1]].replace(e[2], e[3])
    elif tag == "push":
        rule[e[1]].append(e[2])
    elif tag == "move":
        diff[ops[e[2]]] += diff[ops[e[1]]]
        diff[ops[e[1]]] = []
    elif tag == "clear":
        diff[ops[e[1]]] = []
    elif tag == "nop":
        pass
    else:
        raise ValueError(tag)


def _mk_logic(phases):
    def logic(rule, key, diff, **_):
        from annet.annlib.types import Op
        from annet.rulebook import common
        ops = {"added": Op.ADDED, "removed": Op.REMOVED, "moved": Op.MOVED, "affected": Op.AFFECTED,
               "unchanged": Op.UNCHANGED}
        for guard, effs, yld in phases:
            if guard != "always":
                if (guard[0] == "if") != bool(diff[ops[guard[1]]]):
                    continue
            for e in effs:
                _apply_eff(e, rule, diff)
            if yld is None:
                continue
            if yld == "reverse":
                yield (False, rule["reverse"].format(*key), None)
            elif yld == "reverse_raw":
                yield (False, rule["reverse"], None)
            elif yld == "default":
                yield from common.default(rule, key, diff)
            else:
                yield (False, yld[1], None)
    return logic


def _mk_dlogic(effs):
    def dlogic(old, new, diff_pre, _pops=None):
        from annet.annlib.types import Op
        from annet.rulebook import common
        diff = common.default_diff(old, new, diff_pre, _pops if _pops is not None else (Op.AFFECTED,))
        for item in diff:
            for e in effs:
                _apply_eff(e, item.diff_pre["attrs"], None)
        return diff
    return dlogic


def spec_name(prefix, spec):
    return "mut.%s_%s" % (prefix, json.dumps(spec, separators=(",", ":")).encode().hex())


def install_logic_module():
    if "c20logic.mut" in sys.modules:
        return
    pkg = types.ModuleType("c20logic")
    pkg.__path__ = []
    mod = types.ModuleType("c20logic.mut")
    made = {}

    def __getattr__(name):
        if name in made:
            return made[name]
        if name.startswith("L_") or name.startswith("D_"):
            spec = json.loads(bytes.fromhex(name[2:]).decode())
            fn = _mk_logic(spec) if name.startswith("L_") else _mk_dlogic(spec)
            fn.__name__ = fn.__qualname__ = name
            made[name] = fn
            return fn
        raise AttributeError(name)
    mod.__getattr__ = __getattr__
    pkg.mut = mod
    sys.modules["c20logic"] = pkg
    sys.modules["c20logic.mut"] = mod


# =====================================================================================================================
# set-up
# =====================================================================================================================
_PROV = None


def _make_provider():
    from annet.rulebook import DefaultRulebookProvider

    class Provider(DefaultRulebookProvider):
        """shipped rulebooks for real hardware views, generated ones for rbgen.Hw; `%logic=mut.…` resolves in the
        test-only package through root_modules"""
        root_modules = ("annet.rulebook", "c20logic")
        table = {}

        def get_rulebook(self, hw):
            if isinstance(hw, rbgen.Hw):
                return Provider.table[hw.vendor + "|" + hw.tag]
            return super().get_rulebook(hw)
    return Provider


def setup_worker():
    global _PROV
    if _PROV is None:
        install_logic_module()
        _PROV = _make_provider()
        rbgen.setup(_PROV)


class _Dev:
    def __init__(self, hw):
        self.hw = hw
        self.hostname = "dev"
        self.breed = "x"


_HWS = {}


# hardware models that share a vendor (one rulebook) but not their implicit rules; with the device tags the rules read
IMPLICIT_MODELS = {
    "nexus": ["Cisco Nexus 9508", "Cisco Nexus 9508", "Cisco Nexus 9336", "Cisco Nexus 3132", "Cisco Nexus 3432"],
    "huawei": ["Huawei CE6870", "Huawei NE40E", "Huawei S5300"],
    "cisco": ["Cisco Catalyst 2960", "Cisco Catalyst 3650", "Cisco 7600"],
    "arista": ["Arista DCS-7280"],
}
IMPLICIT_TAGS = [[], ["spine1"], ["spine1", "x"], ["leaf"]]


def _hw_model(model):
    key = "model:" + model
    if key not in _HWS:
        from annet.annlib.netdev.views.hardware import HardwareView
        _HWS[key] = HardwareView(model, None)
    return _HWS[key]


def _dump_irules(rules):
    return [[row, r["type"], _dump_irules(r["children"])] for row, r in rules.items()]


def _hw_stub(vendor):
    # one HardwareView per vendor, as a worker that serves many devices of one model sees it
    if vendor not in _HWS:
        from tests import make_hw_stub
        _HWS[vendor] = make_hw_stub(vendor)
    return _HWS[vendor]


# =====================================================================================================================
# snapshots
# =====================================================================================================================
def snap(obj, drop=()):
    """deep, comparable image of an object graph of dict / list / tuple / scalars / compiled regexps / functions"""
    if isinstance(obj, dict):
        return ("d", tuple((snap(k), snap(v, drop)) for k, v in obj.items() if k not in drop))
    if isinstance(obj, (list, tuple)):
        return ("l" if isinstance(obj, list) else "t", tuple(snap(x, drop) for x in obj))
    if isinstance(obj, (str, int, float, bool)) or obj is None:
        return obj
    if isinstance(obj, re.Pattern):
        return ("re", obj.pattern, obj.flags)
    if callable(obj):
        return ("fn", getattr(obj, "__module__", ""), getattr(obj, "__qualname__", repr(type(obj))))
    return ("obj", type(obj).__name__, repr(obj)[:80])


def snap_diff(a, b, path=()):
    """first place where two snapshots differ, as a readable path"""
    if a == b:
        return None
    if isinstance(a, tuple) and isinstance(b, tuple) and len(a) == 2 and len(b) == 2 and a[0] == b[0] and a[0] == "d":
        da, db = dict(a[1]), dict(b[1])
        for k in list(da) + [k for k in db if k not in da]:
            if k not in da:
                return "/".join(map(str, path + (k,))) + " (added)"
            if k not in db:
                return "/".join(map(str, path + (k,))) + " (removed)"
            r = snap_diff(da[k], db[k], path + (k,))
            if r:
                return r
        return "/".join(map(str, path)) + " (order)"
    if isinstance(a, tuple) and isinstance(b, tuple) and len(a) == 2 and len(b) == 2 and a[0] == b[0] and a[0] in "lt":
        if len(a[1]) != len(b[1]):
            return "/".join(map(str, path)) + " (length %d -> %d)" % (len(a[1]), len(b[1]))
        for i, (x, y) in enumerate(zip(a[1], b[1])):
            r = snap_diff(x, y, path + (i,))
            if r:
                return r
    return "/".join(map(str, path)) + " (%r -> %r)" % (str(a)[:40], str(b)[:40])


# =====================================================================================================================
# jobs (kind=hist): self-contained descriptors, so that a fresh process can run them
# =====================================================================================================================
def _job_env(job):
    """-> (hw, rb, acl or None); compiles what the job names through the caches the real code uses"""
    from annet import rulebook
    from annet.annlib.rbparser.acl import compile_acl_text
    setup_worker()
    if job["src"] == "gen":
        hw = rbgen.Hw(job["vendor"])
        hw.tag = "c20"
        _PROV.table[hw.vendor + "|" + hw.tag] = rbgen.compile_rb(job["ptext"], job["otext"], job["vendor"])
    elif job.get("implicit"):
        hw = _hw_model(job["implicit"]["model"])
    else:
        hw = _hw_stub(job["vendor"])
    rb = rulebook.get_rulebook(hw)
    acl = compile_acl_text(job["acl"], hw.vendor) if job.get("acl") else None
    return hw, rb, acl


def _exc(e):
    return {"err": type(e).__name__}


def run_job(job, validate=False):
    """the three computations the property names, on the real code.  With validate=True the inputs and the compiled
    rulebook are snapshotted around every call and the modified objects are listed under "modified"."""
    from annet import api
    from annet.annlib import patching
    try:
        hw, rb, acl = _job_env(job)
    except Exception as e:  # noqa  compiling the job's rulebook / ACL failed: that IS the job's result (it must fail alike
        # in a fresh process and after any history)
        res = {"diff_patch": _exc(e), "ordered": _exc(e), "env": _exc(e)}
        if validate:
            res["modified"] = []
        return res
    old, new = rbgen.to_odict(job["old"]), rbgen.to_odict(job["new"])
    res = {}
    modified = []
    if job.get("implicit"):
        # what gen._old_new_per_device does before the trees reach _diff_and_patch (gen.py:201-205): both are completed
        # with the implicit rules of THIS device (hardware model and tags)
        try:
            from annet import implicit
            from annet.annlib.lib import merge_dicts
            dev = _Dev(hw)
            dev.tags = list(job["implicit"]["tags"])
            irules = implicit.compile_rules(dev)
            old = merge_dicts(old, implicit.config(old, irules))
            new = merge_dicts(new, implicit.config(new, irules))
            res["implicit"] = {"rules": _dump_irules(irules), "old": rbgen.to_list(old), "new": rbgen.to_list(new)}
        except Exception as e:  # noqa
            res["implicit"] = _exc(e)

    def guarded(what, fn):
        if validate:
            before = (snap(old), snap(new), snap(rb), snap(acl, drop=("match",)))
        try:
            out = fn()
        except AssertionError as e:
            out = _exc(e)
        except Exception as e:  # noqa  a vendor logic may refuse a config pair; it must refuse alike everywhere
            out = _exc(e)
        if validate:
            after = (snap(old), snap(new), snap(rb), snap(acl, drop=("match",)))
            for name, x, y in zip(("old", "new", "rulebook", "acl"), before, after):
                if x != y:
                    modified.append([what, name, snap_diff(x, y) or "?"])
        return out

    def diff_patch():
        d, p = api._diff_and_patch(_Dev(hw), old, new, acl, None, bool(job.get("add_comments")),
                                   do_commit=bool(job.get("do_commit", True)))
        return {"diff": rbgen.dump_diff(d), "patch": _dump_patch(p), "contexts": _contexts(d, p)}
    res["diff_patch"] = guarded("_diff_and_patch", diff_patch)
    res["ordered"] = guarded("order_config",
                             lambda: rbgen.to_list(patching.Orderer(rb["ordering"], hw.vendor).order_config(new)))
    if acl is not None:
        res["filtered"] = guarded("apply_acl", lambda: rbgen.to_list(patching.apply_acl(new, acl)))
    if validate:
        res["modified"] = modified
    return res


def _contexts(diff, pt):
    """the %context every patch item and every matched rule of the diff carries (it selects the deploy session wrapper)"""
    def of_patch(t, path=()):
        for it in t.itms:
            yield ["/".join(path + (str(it.row),)), sorted((str(k), str(v)) for k, v in (getattr(it, "context", None) or {}).items())]
            if it.child is not None:
                yield from of_patch(it.child, path + (str(it.row),))

    def of_diff(d, path=()):
        for (_op, row, ch, m) in d:
            ctx = ((m or {}).get("attrs") or {}).get("context") or {}
            yield ["/".join(path + (row,)), sorted((str(k), str(v)) for k, v in ctx.items())]
            yield from of_diff(ch, path + (row,))
    return {"patch": [x for x in of_patch(pt) if x[1]], "diff": [x for x in of_diff(diff) if x[1]]}


def _dump_patch(pt):
    out = []
    for it in pt.itms:
        k = it.sort_key
        key = None
        if k:
            o = k[0]
            key = ["inf" if o == float("inf") else ("-inf" if o == float("-inf") else int(o)), k[1], bool(k[2])]
        out.append([str(it.row), _dump_patch(it.child) if it.child is not None else None, key])
    return out


# ---- observed writes of the real logic functions (validation of the regenerated table)
def observed_writes(job):
    """run make_patch on the job's real `pre` with every logic wrapped by a recorder: which fields of its `rule` and
    which buckets of its `diff` changed during the call -> sorted [[name, root, field]] for annet.rulebook functions"""
    from annet import api
    from annet.annlib import patching
    from annet.annlib.types import Op
    try:
        hw, rb, acl = _job_env(job)
    except Exception:  # noqa  the failure itself is compared by run_job
        return []
    old, new = rbgen.to_odict(job["old"]), rbgen.to_odict(job["new"])
    opn = {Op.ADDED: "Op.ADDED", Op.REMOVED: "Op.REMOVED", Op.MOVED: "Op.MOVED", Op.AFFECTED: "Op.AFFECTED",
           Op.UNCHANGED: "Op.UNCHANGED"}
    seen = set()

    def wrap(fn):
        mod = getattr(fn, "__module__", "") or ""
        if mod.startswith("annet.rulebook."):
            name = mod[len("annet.rulebook."):] + "." + fn.__name__
        elif mod == "annet.annlib.rulebook.common":
            name = "common." + fn.__name__
        else:
            return fn

        def bucket(v):
            # the entries of one bucket: their rows and which children objects they carry (the children's own
            # buckets belong to the children's logic calls, which run between this generator's yields)
            try:
                return [(x["row"], id(x.get("children"))) for x in v]
            except Exception:  # noqa
                return snap(v)

        def rec(rule, key, diff, **kw):
            r0 = {k: snap(v) for k, v in rule.items()}
            d0 = {k: bucket(v) for k, v in diff.items()}
            try:
                yield from fn(rule=rule, key=key, diff=diff, **kw)
            finally:
                for k in set(r0) | set(rule):
                    if k not in r0 or k not in rule or r0[k] != snap(rule[k]):
                        seen.add((name, "rule", str(k)))
                for k in set(d0) | set(diff):
                    if k not in d0 or k not in diff or d0[k] != bucket(diff[k]):
                        seen.add((name, "diff", opn.get(k, str(k))))
        return rec

    def instrument(pre):
        for content in pre.values():
            if callable(content["attrs"].get("logic")):
                content["attrs"]["logic"] = wrap(content["attrs"]["logic"])
            for buckets in content["items"].values():
                for rows in buckets.values():
                    for r in rows:
                        if r.get("children"):
                            instrument(r["children"])
    try:
        if acl is not None:
            old = patching.apply_acl(old, acl)
            new = patching.apply_acl(new, acl)
        pre = patching.make_pre(patching.make_diff(old, new, rb, [acl, None]))
        instrument(pre)
        api.patch_from_pre(pre, hw, rb, False)
    except Exception:  # noqa  the refusal itself is compared by run_job
        pass
    return sorted(list(x) for x in seen)


# ---- fresh processes
_FRESH_CODE = ("import sys; sys.setrecursionlimit(10000); sys.path.insert(0, %r); sys.path.insert(0, %r); "
               "import harness.props.c20 as m; m.fresh_main()")


def _forked(job):
    r, w = os.pipe()
    pid = os.fork()
    if pid == 0:
        try:
            os.close(r)
            data = json.dumps(run_job(job)).encode()
            with os.fdopen(w, "wb") as f:
                f.write(data)
        finally:
            os._exit(0)
    os.close(w)
    with os.fdopen(r, "rb") as f:
        data = f.read()
    os.waitpid(pid, 0)
    return json.loads(data.decode()) if data else {"err": "child-died"}


def fresh_main():
    """stdin: {"mode": …, "jobs": [...]}; stdout: one JSON document.
    mode=fork: this process imports annet and sets the connectors, runs nothing itself, and forks one child per job
               (no job ever sees another) -> [result];
    mode=here: runs the jobs itself, one after the other, with snapshots around every call -> [result + "modified"];
    mode=both: fork first (the parent is still pristine), then here, then the last job once more
               -> {"fresh": […], "seq": […], "again": result}."""
    req = json.loads(sys.stdin.read())
    setup_worker()
    import annet.api  # noqa
    jobs = req["jobs"]
    if req["mode"] == "here":
        out = [run_job(job, validate=True) for job in jobs]
    elif req["mode"] == "fork":
        out = [_forked(job) for job in jobs]
    else:
        fresh = [_forked(job) for job in jobs]
        seq = [run_job(job, validate=True) for job in jobs]
        out = {"fresh": fresh, "seq": seq, "again": run_job(jobs[-1])}
    sys.stdout.write(json.dumps(out))
    sys.stdout.flush()


def fresh_results(jobs, mode="fork", timeout=600):
    env = dict(os.environ)
    env["PYTHONWARNINGS"] = "ignore"
    p = subprocess.run([sys.executable, "-W", "ignore", "-c", _FRESH_CODE % (VERIF, REPO)],
                       input=json.dumps({"mode": mode, "jobs": jobs}).encode(), stdout=subprocess.PIPE,
                       stderr=subprocess.PIPE, cwd=VERIF, env=env, timeout=timeout)
    if p.returncode != 0:
        raise RuntimeError("fresh process failed: " + p.stderr.decode()[-400:])
    return json.loads(p.stdout.decode())


# =====================================================================================================================
# generators
# =====================================================================================================================
_CORPUS = None


def corpus():
    global _CORPUS
    if _CORPUS is None:
        setup_worker()
        from tests.annet import patch_data
        out = []
        for name, sample in patch_data.get_samples(dirname="annet/test_patch"):
            vendor = sample.get("vendor", "huawei").lower()
            try:
                old, new, _ = patch_data.get_configs(_hw_stub(vendor), sample)
            except Exception:  # noqa
                continue
            out.append((name, vendor, rbgen.to_list(old), rbgen.to_list(new)))
        _CORPUS = out
    return _CORPUS


def acl_for(rng, trees):
    """an ACL text covering part of the given trees: rows by their first words, some with children rules"""
    rows = []
    for t in trees:
        for row, ch in t:
            rows.append((row, ch))
    rng.shuffle(rows)
    lines = []
    used = set()
    for row, ch in rows[:rng.randint(1, 6)]:
        ws = row.split(" ")
        if not ws or not re.fullmatch(r"[A-Za-z][A-Za-z0-9_-]*", ws[0]):
            continue
        head = ws[0] if len(ws) == 1 or rng.random() < 0.5 else ws[0] + " *"
        rule = head if len(ws) == 1 else head + " ~"
        if rng.random() < 0.3 and len(ws) >= 2:
            rule = ws[0] + " <name> ~" if len(ws) > 2 else ws[0] + " <name>"
        if rule in used:
            continue
        used.add(rule)
        par = ""
        if rng.random() < 0.2:
            par = "  %cant_delete=" + rng.choice("01")
        lines.append(rule + par)
        if ch:
            lines.append("    ~" + ("  %global" if rng.random() < 0.3 else ""))
    if not lines:
        lines = ["~"]
    return "\n".join(lines) + "\n"


def share_acls(rng, jobs, p=0.5):
    """a fleet served by one process shares ACL texts: the same text is compiled for devices of different vendors"""
    with_acl = [j for j in jobs if j.get("acl")]
    for j in jobs:
        if with_acl and rng.random() < p:
            donor = rng.choice(with_acl)
            if donor is not j and donor["vendor"] != j["vendor"]:
                j["acl"] = donor["acl"]
    return jobs


def gen_hist_job(rng, allow_gen=True):
    r = rng.random()
    cs = corpus()
    if r < 0.55 or not allow_gen:
        name, vendor, old, new = rng.choice(cs)
        job = dict(src="corpus", name=name, vendor=vendor, old=old, new=new)
    elif r < 0.75:
        v = rng.choice(sorted({c[1] for c in cs}))
        same = [c for c in cs if c[1] == v]
        a, b = rng.choice(same), rng.choice(same)
        old, new = a[rng.choice([2, 3])], b[rng.choice([2, 3])]
        if rng.random() < 0.4:
            new = [x for x in new if rng.random() < 0.8]
        job = dict(src="corpus", name="cross:%s|%s" % (a[0], b[0]), vendor=v, old=old, new=new)
    else:
        c = rbgen.gen_case(rng)
        if rng.random() < 0.5:
            # a rule whose logic writes to its rule argument and to its diff buckets
            c["ptext"] = _add_mut_logics(rng, c["ptext"])
        job = dict(src="gen", name="gen", vendor=c["vendor"], ptext=c["ptext"], otext=c["otext"], old=c["old"], new=c["new"])
    if rng.random() < 0.35:
        job["acl"] = acl_for(rng, [job["old"], job["new"]])
    job["add_comments"] = rng.random() < 0.3
    job["do_commit"] = rng.random() < 0.85
    if job["src"] == "corpus" and job["vendor"] in IMPLICIT_MODELS and rng.random() < 0.35:
        job["implicit"] = dict(model=rng.choice(IMPLICIT_MODELS[job["vendor"]]), tags=rng.choice(IMPLICIT_TAGS))
    return job


def gen_fleet(rng):
    """devices of one vendor served by one worker: the same rulebook, hardware models and tags that differ — what the
    implicit rules (gen.py:201-205) depend on"""
    cs = corpus()
    vendor = rng.choice(["nexus", "nexus", "huawei", "cisco", "arista"])
    same = [c for c in cs if c[1] == vendor]
    jobs = []
    for _ in range(rng.randint(3, 7)):
        a, b = rng.choice(same), rng.choice(same)
        old, new = a[rng.choice([2, 3])], b[rng.choice([2, 3])]
        if rng.random() < 0.4:
            new = [x for x in new if rng.random() < 0.8]
        job = dict(src="corpus", name="fleet:%s|%s" % (a[0], b[0]), vendor=vendor, old=old, new=new,
                   add_comments=False, do_commit=True,
                   implicit=dict(model=rng.choice(IMPLICIT_MODELS[vendor]), tags=rng.choice(IMPLICIT_TAGS)))
        if rng.random() < 0.2:
            job["acl"] = acl_for(rng, [old, new])
        jobs.append(job)
    return jobs


_MUT_SPECS = [
    [["always", [["append", "reverse", " X"]], None], ["always", [], "default"]],
    [["always", [["set", "force_commit", True]], None], ["always", [], "default"]],
    [["always", [["set", "comment", ["!!c20!!"]]], None], ["always", [], "default"]],
    [[["if", "removed"], [["replace", "reverse", "undo", "clear"], ["replace", "reverse", "no", "default"]], None],
     ["always", [], "default"]],
    [["always", [["set", "x_tag", "t"]], None], ["always", [], "default"], ["always", [["clear", "unchanged"]], None]],
]


def _add_mut_logics(rng, ptext):
    out = []
    for line in ptext.split("\n"):
        if line.strip() and "%" not in line and not line.strip().startswith("!") and rng.random() < 0.5:
            line = line + "  %logic=" + spec_name("L", rng.choice(_MUT_SPECS))
        out.append(line)
    return "\n".join(out)


# ---- kind=heap
_HEAP_ROWS = ["vlan *", "mtu *", "ntp server *", "snmp community *", "ip route * *", "description *", "peer * group *"]
_HEAP_VALS = ["10", "20", "30", "a", "b"]
_SHIPPED_PHASE_LOGICS = ["common.default", "common.default_instead_undo", "huawei.bgp.undo_commit",
                         "cisco.misc.no_ipv6_nd_suppress_ra"]


def _gen_eff(rng, for_dlogic=False):
    r = rng.random()
    if r < 0.25:
        return ["append", rng.choice(["reverse"] * 5 + ["x_tag"]), rng.choice([" X", " Y", "-z"])]
    if r < 0.4:
        return ["set", "force_commit", rng.random() < 0.6]
    if r < 0.5:
        return ["set", "x_tag", rng.choice(["t", "u"])]
    if r < 0.6:
        return ["set", "reverse", rng.choice(["clear {}", "default item {}", "drop"])]
    if r < 0.7:
        return ["replace", "reverse", rng.choice(["undo", "no", "remove"]), rng.choice(["default", "clear"])]
    if r < 0.8:
        return ["push", "comment", rng.choice(["!!c1!!", "!!c2!!"])]
    if r < 0.87:
        return ["set", "comment", [rng.choice(["!!s!!", "!!t!!"])]]
    if for_dlogic:
        return ["set", "x_tag", "d"]
    if r < 0.95:
        a, b = rng.sample(_OPN[:4], 2)
        return ["move", a, b]
    return ["clear", rng.choice(_OPN)]


def _gen_phases(rng):
    phases = []
    for _ in range(rng.randint(1, 3)):
        g = "always" if rng.random() < 0.5 else [rng.choice(["if", "ifnot"]), rng.choice(_OPN[:4])]
        effs = [_gen_eff(rng) for _ in range(rng.randint(0, 2))]
        y = rng.choice([None, None, "default", "reverse", "reverse_raw", ["literal", rng.choice(["commit-hint", "save x"])]])
        phases.append([g, effs, y])
    if rng.random() < 0.8:
        phases.append(["always", [], "default"])
    return phases


def _heap_cfg(rng, rules):
    rows = []
    seen = set()
    for _ in range(rng.randint(1, 5)):
        rr = rng.choice(rules)["row"]
        ws = [rng.choice(_HEAP_VALS) if w == "*" else w for w in rr.split(" ")]
        if rng.random() < 0.2:
            ws.append(rng.choice(_HEAP_VALS))       # same key, different row
        row = " ".join(ws)
        if row not in seen:
            seen.add(row)
            rows.append(row)
    return rows


def gen_heap(rng):
    vendor = rng.choice(rbgen.VENDORS)
    rules = []
    for row in rng.sample(_HEAP_ROWS, rng.randint(2, 4)):
        r = dict(row=row, comment=None, force_commit=rng.random() < 0.1, dlogic=None)
        if rng.random() < 0.35:
            r["logic"] = rng.choice(_SHIPPED_PHASE_LOGICS)
        else:
            r["logic"] = _gen_phases(rng)
        pushes = isinstance(r["logic"], list) and any(e[0] == "push" for ph in r["logic"] for e in ph[1])
        if rng.random() < 0.2:
            r["dlogic"] = [_gen_eff(rng, True) for _ in range(rng.randint(1, 2))]
            r["dlogic"] = [e for e in r["dlogic"] if e[0] not in ("move", "clear")]
            pushes = pushes or any(e[0] == "push" for e in r["dlogic"])
        if pushes or rng.random() < 0.3:
            r["comment"] = [rng.choice(["!!a!!", "!!b!!"])] + (["!!z!!"] if rng.random() < 0.3 else [])
        rules.append(r)
    jobs = []
    for _ in range(rng.randint(2, 4)):
        if jobs and rng.random() < 0.35:
            j = copy.deepcopy(rng.choice(jobs))
        else:
            old = _heap_cfg(rng, rules)
            if rng.random() < 0.3:
                new = [x for x in old if rng.random() < 0.6] + [x for x in _heap_cfg(rng, rules) if x not in old][:2]
            else:
                new = _heap_cfg(rng, rules)
            j = dict(old=old, new=new, add_comments=rng.random() < 0.5, do_commit=rng.random() < 0.8)
        jobs.append(j)
    return dict(kind="heap", vendor=vendor, rules=rules, jobs=jobs)


def heap_ptext(case, clean=False):
    lines = []
    for i, r in enumerate(case["rules"]):
        par = []
        if clean and r.get("dlogic"):
            # same grouping of rows by diff-logic function as the real rulebook, without the writes
            first = [k for k, q in enumerate(case["rules"]) if q.get("dlogic") == r["dlogic"]][0]
            par.append("%diff_logic=" + spec_name("D", [["nop", first]]))
        if not clean:
            lg = r["logic"]
            par.append("%logic=" + (lg if isinstance(lg, str) else spec_name("L", lg)))
            if r.get("dlogic"):
                par.append("%diff_logic=" + spec_name("D", r["dlogic"]))
            if r.get("comment"):
                par.append("%comment=" + ",".join(r["comment"]))
            if r.get("force_commit"):
                par.append("%force_commit")
        lines.append(r["row"] + ("  " + " ".join(par) if par else ""))
    return "\n".join(lines) + "\n"


# ---- kind=acl
def gen_acl(rng):
    vendor = rng.choice(["huawei", "cisco", "arista"])
    nouns = ["interface", "vlan", "ip", "peer", "description"]
    rules = []
    used = set()
    for _ in range(rng.randint(2, 5)):
        n = rng.choice(nouns)
        shape = rng.choice([n + " <name>", n + " *", n + " <a> <b>", n + " ~", n + " <name> ~", n])
        if shape in used:
            continue
        used.add(shape)
        par = []
        if rng.random() < 0.25:
            par.append("%global")
        if rng.random() < 0.25:
            par.append("%prio=" + str(rng.randint(0, 2)))
        rules.append(shape + ("  " + " ".join(par) if par else ""))
    rev = {"huawei": "undo", "cisco": "no", "arista": "no"}[vendor]
    rows = []
    for _ in range(rng.randint(3, 8)):
        n = rng.choice(nouns)
        ws = [n] + [rng.choice(["Eth1", "x", "10", "y2"]) for _ in range(rng.randint(0, 3))]
        if rng.random() < 0.25:
            ws.insert(0, rev)
        rows.append(" ".join(ws))
    return dict(kind="acl", vendor=vendor, text="\n".join(rules) + "\n", rows=rows)


def shards(tier, seed):
    q = tier == "quick"
    out = []
    out += [dict(kind="heap", seed=seed * 1000 + i, n=400 if q else 2500) for i in range(8)]
    out += [dict(kind="trees", seed=seed * 1000 + 100 + i, n=300 if q else 2500) for i in range(4)]
    out += [dict(kind="acl", seed=seed * 1000 + 200 + i, n=400 if q else 3000) for i in range(2)]
    out += [dict(kind="hist", seed=seed * 1000 + 300 + i, n=10 if q else 40) for i in range(16)]
    return out


def gen(desc):
    rng = random.Random(desc["seed"])
    kind = desc["kind"]
    for _ in range(desc["n"]):
        if kind == "heap":
            yield gen_heap(rng)
        elif kind == "trees":
            c = rbgen.gen_case(rng)
            c["kind"] = "trees"
            yield c
        elif kind == "acl":
            yield gen_acl(rng)
        else:
            if rng.random() < 0.3:
                jobs = gen_fleet(rng)
            else:
                jobs = share_acls(rng, [gen_hist_job(rng) for _ in range(rng.randint(3, 8))])
            if rng.random() < 0.5:
                jobs.append(copy.deepcopy(rng.choice(jobs)))          # a repeated job
            yield dict(kind="hist", jobs=jobs, fresh="fork")


def corpus_cases():
    """the witness jobs of the C20_flag_needed_* theorems, run first: each needs one of the three copies"""
    mut = spec_name("L", [["always", [["append", "reverse", " X"], ["set", "force_commit", True]], None],
                          ["always", [], "default"]])
    heap = dict(kind="heap", vendor="huawei",
                rules=[dict(row="vlan *", logic=[["always", [["append", "reverse", " X"]], None], ["always", [], "default"]],
                            comment=None, force_commit=False, dlogic=None),
                       dict(row="mtu *", logic="common.default_instead_undo", comment=None, force_commit=False, dlogic=None)],
                jobs=[dict(old=["vlan 10", "vlan 20", "mtu 1"], new=[], add_comments=False, do_commit=True)] * 2)
    trees = dict(kind="trees", vendor="huawei", ptext="vlan *\n", otext="",
                 old=[["vlan 10", []], ["unknown a", []]], new=[["vlan 20", []], ["unknown b", [["x", []]]]])
    hist = dict(kind="hist", fresh="fork", jobs=[
        dict(src="gen", name="gen", vendor="huawei", ptext="vlan *  %logic=" + mut + "\n", otext="",
             old=[["vlan 10", []], ["vlan 20", []], ["stray", []]], new=[], add_comments=False, do_commit=True)] * 2)
    return [heap, trees, hist]


# =====================================================================================================================
# impl
# =====================================================================================================================
def _dump_attrs(attrs):
    out = {}
    for k, v in attrs.items():
        if k in ("logic", "diff_logic", "regexp", "context"):
            continue
        if isinstance(v, (str, bool)):
            out[k] = v
        elif isinstance(v, list) and all(isinstance(x, str) for x in v):
            out[k] = list(v)
        else:
            out[k] = repr(v)[:40]
    return out


def _clear_compile_caches():
    from annet.rulebook.patching import compile_patching_text
    compile_patching_text.cache_clear()


def _flat_rows(rows):
    return rbgen.to_odict([[r, []] for r in rows])


def _patch_rows(pt):
    return sorted(str(it.row) for it in pt.itms)


def impl_heap(case):
    from annet import api
    from annet.annlib import patching
    setup_worker()
    _clear_compile_caches()
    vendor = case["vendor"]
    hw = rbgen.Hw(vendor)
    hw.tag = "c20heap"
    rb = rbgen.compile_rb(heap_ptext(case), "", vendor)
    _PROV.table[vendor + "|" + hw.tag] = rb
    raws = list(rb["patching"]["local"].keys())
    out = {"jobs": []}
    import annet.patching as api_patching            # the module api._diff_and_patch looks make_pre up in
    orig = api_patching.make_pre
    for job in case["jobs"]:
        cap = {}

        def wrap(diff, _parent_match=None, cap=cap):
            r = orig(diff, _parent_match)
            if _parent_match is None and "pre" not in cap:
                cap["pre"] = r
            return r
        old, new = _flat_rows(job["old"]), _flat_rows(job["new"])
        before = (snap(old), snap(new), snap(rb))
        api_patching.make_pre = wrap
        try:
            _, pt = api._diff_and_patch(_Dev(hw), old, new, None, None, job["add_comments"], do_commit=job["do_commit"])
            res = {"rows": _patch_rows(pt)}
        except Exception as e:  # noqa
            res = {"err": type(e).__name__}
        finally:
            api_patching.make_pre = orig
        after = (snap(old), snap(new), snap(rb))
        pre = None
        if "pre" in cap:
            pre = {str(raws.index(raw)): _dump_attrs(c["attrs"]) for raw, c in cap["pre"].items() if raw in raws}
        out["jobs"].append({"res": res, "pre": pre,
                            "rb": [_dump_attrs(rb["patching"]["local"][raw]["attrs"]) for raw in raws],
                            "modified": [n for n, x, y in zip(("old", "new", "rulebook"), before, after) if x != y]})
    # within one job, one (rule, key) at a time: the rows of a key must not depend on the other keys of the job
    # (every logic of this kind looks at its own arguments only)
    out["alone"] = _heap_alone(case)
    return out


def _heap_alone(case):
    """for every job without an error: the multiset of patch rows when every (rule, key) group of rows is processed as
    a job of its own, on a freshly compiled rulebook each time (so that only the grouping differs)"""
    from annet import api
    from annet.annlib import patching
    vendor = case["vendor"]
    res = []
    for job in case["jobs"]:
        _clear_compile_caches()
        hw = rbgen.Hw(vendor)
        hw.tag = "c20alone"
        rb = rbgen.compile_rb(heap_ptext(case, clean=True), "", vendor)
        groups = odict()
        try:
            for side in ("old", "new"):
                for row in job[side]:
                    m, _ = patching._match_row_to_rules(row, rb["patching"])
                    if m:
                        groups.setdefault((m["raw_rule"], tuple(m["key"])), {"old": [], "new": []})[side].append(row)
        except Exception:  # noqa
            res.append(None)
            continue
        rows = []
        ok = True
        for g in groups.values():
            _clear_compile_caches()
            _PROV.table[vendor + "|" + hw.tag] = rbgen.compile_rb(heap_ptext(case), "", vendor)
            try:
                _, pt = api._diff_and_patch(_Dev(hw), _flat_rows(g["old"]), _flat_rows(g["new"]), None, None,
                                            job["add_comments"], do_commit=job["do_commit"])
                rows += _patch_rows(pt)
            except Exception:  # noqa
                ok = False
                break
        res.append(sorted(rows) if ok else None)
    _clear_compile_caches()
    return res


def impl_trees(case):
    from annet.annlib import patching
    setup_worker()
    rb = rbgen.compile_rb(case["ptext"], case["otext"], case["vendor"])
    old, new = rbgen.to_odict(case["old"]), rbgen.to_odict(case["new"])
    io, inw = copy.deepcopy(old), copy.deepcopy(new)
    before = snap(rb)
    try:
        patching.apply_diff_rb(io, inw, rb)
        patching.make_diff(old, new, rb, [])
    except Exception as e:  # noqa
        return {"err": type(e).__name__}
    return {"inner_old": rbgen.to_list(io), "inner_new": rbgen.to_list(inw), "caller_old": rbgen.to_list(old),
            "caller_new": rbgen.to_list(new), "rb_modified": snap(rb) != before}


def _acl_level(case):
    from annet.annlib import patching
    from annet.annlib.rbparser.acl import compile_acl_text
    setup_worker()
    compile_acl_text.cache_clear()
    rules = compile_acl_text(case["text"], case["vendor"])
    flat = [r for (_, r), _g in patching._rules_local_global(rules)]
    return rules, flat


def impl_acl(case):
    from annet.annlib import patching
    rules, flat = _acl_level(case)
    cfg = _flat_rows(case["rows"])

    def one_pass():
        reads = []
        for row in case["rows"]:
            m, _ = patching.match_row_to_acl(row, rules)
            if m is None:
                reads.append(None)
            else:
                idx = [i for i, r in enumerate(flat) if r["attrs"]["direct_regexp"] is m["attrs"]["direct_regexp"]]
                g = m["attrs"].get("match")
                reads.append([idx[0] if idx else -1, bool(m["is_reverse"]), None if g is None else sorted([k, str(v)] for k, v in g.items())])
        return reads
    before = snap(rules, drop=("match",))
    first = one_pass()
    scratch = [None if r["attrs"].get("match") is None else sorted([k, str(v)] for k, v in r["attrs"]["match"].items())
               for r in flat]
    filtered1 = rbgen.to_list(patching.apply_acl(cfg, rules))
    second = one_pass()                       # the same (now used) ACL objects again
    filtered2 = rbgen.to_list(patching.apply_acl(cfg, rules))
    return {"reads": first, "scratch": scratch, "reads_again": second, "filtered": filtered1, "filtered_again": filtered2,
            "acl_modified": snap(rules, drop=("match",)) != before}


def impl_hist(case):
    """the sequence is run in a process of its own (its history is exactly the jobs of the case, so that the case
    replays); fresh="fork": the baselines are forked children of that process, taken before it runs anything;
    fresh="exec": every baseline is a `python -c` process of its own"""
    setup_worker()
    jobs = case["jobs"]
    if case.get("fresh") == "exec":
        seq = fresh_results(jobs, mode="here")
        again = seq[-1]
        fresh = [_strip(fresh_results([j], mode="here")[0]) for j in jobs]
    else:
        r = fresh_results(jobs, mode="both")
        seq, fresh, again = r["seq"], r["fresh"], r["again"]
    obs = set()
    for j in jobs:
        for w in observed_writes(j):
            obs.add(tuple(w))
    out = {"n": len(jobs), "modified": [], "history": [], "repeat": [], "observed": sorted(list(x) for x in obs),
           "cmds": 0}
    for i, (a, f) in enumerate(zip(seq, fresh)):
        for m in a.pop("modified"):
            out["modified"].append([i] + m)
        for part in sorted(set(a) | set(f)):
            if a.get(part) != f.get(part):
                out["history"].append([i, part, _first_diff(a.get(part), f.get(part))])
        dp = a.get("diff_patch", {})
        if "patch" in dp:
            out["cmds"] += len(dp["patch"])
    again = _strip(again)
    for part in sorted(again):
        if again[part] != seq[-1].get(part):
            out["repeat"].append([len(jobs) - 1, part, _first_diff(again[part], seq[-1].get(part))])
    for i in range(len(jobs)):
        for k in range(i):
            if jobs[i] == jobs[k] and seq[i] != seq[k]:
                out["repeat"].append([i, "same-job-as-%d" % k, _first_diff(seq[i], seq[k])])
    return out


def _strip(r):
    r = dict(r)
    r.pop("modified", None)
    return r


def _first_diff(a, b, path=""):
    if type(a) != type(b):
        return "%s: %s vs %s" % (path, str(a)[:60], str(b)[:60])
    if isinstance(a, dict):
        for k in sorted(set(a) | set(b)):
            if a.get(k) != b.get(k):
                return _first_diff(a.get(k), b.get(k), path + "/" + str(k))
    if isinstance(a, list):
        if len(a) != len(b):
            return "%s: length %d vs %d" % (path, len(a), len(b))
        for i, (x, y) in enumerate(zip(a, b)):
            if x != y:
                return _first_diff(x, y, path + "/" + str(i))
    return "%s: %s vs %s" % (path, str(a)[:60], str(b)[:60])


def impl(case):
    k = case["kind"]
    if k == "heap":
        return impl_heap(case)
    if k == "trees":
        return impl_trees(case)
    if k == "acl":
        return impl_acl(case)
    return impl_hist(case)


# =====================================================================================================================
# model
# =====================================================================================================================
def _heap_request(case):
    """initial attrs from the real compiled rules; rows and items of every job from the real make_diff / make_pre on
    the same rules without logic parameters (matching and ops do not depend on them)"""
    from annet.annlib import patching
    from annet.annlib.types import Op
    setup_worker()
    _clear_compile_caches()
    vendor = case["vendor"]
    rb = rbgen.compile_rb(heap_ptext(case), "", vendor)
    raws = list(rb["patching"]["local"].keys())
    rules = []
    for raw, r in zip(raws, case["rules"]):
        attrs = _dump_attrs(rb["patching"]["local"][raw]["attrs"])
        rules.append({"attrs": [[k, v] for k, v in attrs.items()], "logic": r["logic"], "dlogic": r.get("dlogic") or []})
    clean = rbgen.compile_rb(heap_ptext(case, clean=True), "", vendor)
    craws = list(clean["patching"]["local"].keys())
    opn = {Op.ADDED: "added", Op.REMOVED: "removed", Op.MOVED: "moved", Op.AFFECTED: "affected", Op.UNCHANGED: "unchanged"}
    jobs = []
    for job in case["jobs"]:
        diff = patching.make_diff(_flat_rows(job["old"]), _flat_rows(job["new"]), clean, [])
        pre = patching.make_pre(diff)
        rows = [craws.index(m["raw_rule"]) for (_op, _row, _ch, m) in diff]
        items = []
        for raw, content in pre.items():
            for key, buckets in content["items"].items():
                items.append({"rule": craws.index(raw), "key": list(key),
                              "buckets": {opn[o]: [x["row"] for x in rs] for o, rs in buckets.items()}})
        jobs.append({"rows": rows, "items": items, "add_comments": job["add_comments"], "do_commit": job["do_commit"]})
    _clear_compile_caches()
    return {"op": "c20.heap", "rules": rules, "jobs": jobs}


def requests(case):
    k = case["kind"]
    if k == "heap":
        return [_heap_request(case)]
    if k == "trees":
        rbgen.setup()
        return [rbgen.job_request("c20.trees", case)]
    if k == "acl":
        rules, flat = _acl_level(case)
        from annet.annlib import patching
        rows = []
        for row in case["rows"]:
            dm, rm = [], []
            for r in flat:
                d = r["attrs"]["direct_regexp"].match(patching._normalize_row_for_acl(row, r))
                v = r["attrs"]["reverse_regexp"].match(patching._normalize_row_for_acl(row, r))
                dm.append(None if d is None else sorted([k2, str(x)] for k2, x in d.groupdict().items()))
                rm.append(None if v is None else sorted([k2, str(x)] for k2, x in v.groupdict().items()))
            m, _ = patching.match_row_to_acl(row, rules)
            sel = None
            if m is not None:
                idx = [i for i, r in enumerate(flat) if r["attrs"]["direct_regexp"] is m["attrs"]["direct_regexp"]]
                sel = [idx[0], bool(m["is_reverse"])]
            rows.append({"dm": dm, "rm": rm, "sel": sel})
        return [{"op": "c20.acl", "n": len(flat), "rows": rows}]
    # hist: the observed writes are recomputed here (deterministic) and checked against the table inside the driver
    return [{"op": "c20.table_check", "observed": full_obs(case)["observed"]}, {"op": "c20.flags"}]


_KEEP = {"heap": ("jobs",), "trees": ("inner_old", "inner_new", "caller_old", "caller_new"), "acl": ("reads", "scratch")}


def model(case, resp):
    k = case["kind"]
    r = resp[0]
    if "fail" in r:
        return {"driver": r["fail"]}
    if k == "heap":
        return {"jobs": [{"res": _canon_res(j["res"]), "pre": j["pre"], "rb": j["rb"]} for j in r["jobs"]]}
    if k == "trees":
        if r.get("grammar") is False:
            return {"skip": True}
        return {x: r[x] for x in _KEEP["trees"]}
    if k == "acl":
        return {"reads": r["reads"], "scratch": r["scratch"]}
    return {"outside_table": r["outside_table"], "flags": resp[1]["flags"]}


def _canon_res(res):
    return {"rows": sorted(res["rows"])} if "rows" in res else res


# the runner compares impl(case) with model(case, …): impl returns the projection of its observation on what the
# model speaks about; the full observation is kept for the oracle (same process, called right after impl)
_impl_full = impl
_FULL = collections.OrderedDict()


def _case_key(case):
    return json.dumps(case, sort_keys=True)


def full_obs(case):
    k = _case_key(case)
    if k not in _FULL:
        _FULL[k] = _impl_full(case)
        while len(_FULL) > 64:
            _FULL.popitem(last=False)
    return _FULL[k]


def impl(case):  # noqa: F811
    _FULL.pop(_case_key(case), None)
    r = full_obs(case)
    k = case["kind"]
    if k == "heap":
        return {"jobs": [{"res": j["res"], "pre": j["pre"], "rb": j["rb"]} for j in r["jobs"]]}
    if k == "trees":
        if "err" in r:
            return r
        return {x: r[x] for x in _KEEP["trees"]}
    if k == "acl":
        return {"reads": r["reads"], "scratch": r["scratch"]}
    return {"outside_table": [], "flags": list(copy_flags(REPO))}


# =====================================================================================================================
# oracle
# =====================================================================================================================
def oracle(case, r):
    if isinstance(r, dict) and str(r.get("err", "")).startswith("Unexpected"):
        return [dict(sig="unexpected-exception", what="harness adapter raised: %s" % (r,))]
    full = full_obs(case)
    k = case["kind"]
    out = []
    if k == "heap":
        res = [j["res"] for j in full["jobs"]]
        for i, j in enumerate(full["jobs"]):
            for name in j["modified"]:
                out.append(dict(sig="input-modified." + name, what="job %d: api._diff_and_patch changed the %s it was "
                                "given (rulebook = the compiled rules' attrs)" % (i, name)))
        for i in range(len(case["jobs"])):
            for p in range(i):
                if case["jobs"][i] == case["jobs"][p] and res[i] != res[p]:
                    out.append(dict(sig="history-dependent-result", what="the same job gives %s as job %d and %s as job "
                                    "%d of one process" % (res[p], p, res[i], i)))
                    break
        for i, alone in enumerate(full["alone"]):
            if alone is not None and "rows" in res[i] and sorted(res[i]["rows"]) != alone:
                out.append(dict(sig="item-history-dependent", what="job %d: processed together the keys give %s, each "
                                "(rule, key) on its own gives %s: a logic's writes to its rule argument reach the "
                                "next key" % (i, sorted(res[i]["rows"]), alone)))
                break
        return _uniq(out)
    if k == "trees":
        if "err" in full:
            return []
        if full["caller_old"] != case["old"]:
            out.append(dict(sig="input-modified.old", what="make_diff changed the caller's old tree: %d -> %d top rows"
                            % (len(case["old"]), len(full["caller_old"]))))
        if full["caller_new"] != case["new"]:
            out.append(dict(sig="input-modified.new", what="make_diff changed the caller's new tree"))
        if full["rb_modified"]:
            out.append(dict(sig="input-modified.rulebook", what="make_diff changed the compiled rulebook"))
        return out
    if k == "acl":
        if full["reads"] != full["reads_again"] or full["filtered"] != full["filtered_again"]:
            out.append(dict(sig="acl-reuse-differs", what="the same rows through the same compiled ACL objects give a "
                            "different answer the second time"))
        if full["acl_modified"]:
            out.append(dict(sig="input-modified.acl", what="matching changed the compiled ACL beyond its scratch field"))
        return out
    for i, what, obj, where in full["modified"]:
        out.append(dict(sig="input-modified." + obj, what="job %d (%s): %s changed the %s it was given at %s" % (
            i, case["jobs"][i]["name"], what, obj, where)))
    for i, part, d in full["history"]:
        out.append(dict(sig="history-dependent-result", what="job %d (%s): %s after jobs 0..%d differs from a fresh "
                        "process: %s" % (i, case["jobs"][i]["name"], part, i - 1, d)))
    for i, part, d in full["repeat"]:
        out.append(dict(sig="repeat-differs", what="job %d (%s): repeating the computation gives a different %s: %s" % (
            i, case["jobs"][i]["name"], part, d)))
    return _uniq(out)


def _uniq(vs):
    seen = set()
    out = []
    for v in vs:
        if v["sig"] not in seen:
            seen.add(v["sig"])
            out.append(v)
    return out


def nontrivial(case, r):
    if isinstance(r, dict) and str(r.get("err", "")).startswith("Unexpected"):
        return False
    full = full_obs(case)
    k = case["kind"]
    if k == "heap":
        return sum(len(j["res"].get("rows", [])) for j in full["jobs"]) >= 2
    if k == "trees":
        return "inner_old" in full and (full["inner_old"] != case["old"] or full["inner_new"] != case["new"])
    if k == "acl":
        return len([x for x in full["reads"] if x]) >= 2
    return full.get("cmds", 0) >= 2


def stats(case, r):
    if isinstance(r, dict) and str(r.get("err", "")).startswith("Unexpected"):
        return ["kind=" + case["kind"], "unexpected-exception"]
    full = full_obs(case)
    k = case["kind"]
    lab = ["kind=" + k]
    if k == "heap":
        lab.append("vendor=" + case["vendor"])
        for j in full["jobs"]:
            lab.append("heap-job=" + ("err:" + j["res"]["err"] if "err" in j["res"] else "ok"))
        for rl in case["rules"]:
            lab.append("heap-logic=" + (rl["logic"] if isinstance(rl["logic"], str) else "spec"))
            if rl.get("dlogic"):
                lab.append("heap-dlogic=spec")
    elif k == "trees":
        lab.append("popped=" + ("yes" if nontrivial(case, r) else "no"))
    elif k == "acl":
        lab.append("acl-named-groups=" + ("yes" if any(x and x[2] for x in full["reads"]) else "no"))
    else:
        for j in case["jobs"]:
            lab.append("job-src=" + j["src"] + ("+acl" if j.get("acl") else ""))
            lab.append("job-vendor=" + j["vendor"])
            if j.get("implicit"):
                lab.append("job-implicit=%s%s" % (j["implicit"]["model"], "+" + ",".join(j["implicit"]["tags"]) if j["implicit"]["tags"] else ""))
        ims = [(j["implicit"]["model"], tuple(j["implicit"]["tags"])) for j in case["jobs"] if j.get("implicit")]
        if any(a[0] == b[0] and a[1] != b[1] for a in ims for b in ims):
            lab.append("hist-same-model-different-tags")
        lab.append("observed-writers=%d" % len({w[0] for w in full["observed"]}))
    return lab


def shrink_candidates(case):
    k = case["kind"]
    if k == "hist":
        js = case["jobs"]
        # the violation is reported on one job: drop chunks of the others (halves first), then single jobs
        n = len(js)
        size = n // 2
        while size >= 1 and n > 1:
            for start in range(0, n, size):
                cand = js[:start] + js[start + size:]
                if cand and len(cand) < n:
                    yield dict(case, jobs=cand)
            size //= 2
        for i, j in enumerate(js):
            for side in ("old", "new"):
                t = j[side]
                for x in range(len(t)):
                    nj = dict(j, **{side: t[:x] + t[x + 1:]})
                    yield dict(case, jobs=js[:i] + [nj] + js[i + 1:])
            if j.get("acl"):
                yield dict(case, jobs=js[:i] + [dict(j, acl=None)] + js[i + 1:])
    elif k == "heap":
        js = case["jobs"]
        for i in range(len(js)):
            if len(js) > 1:
                yield dict(case, jobs=js[:i] + js[i + 1:])
        for i, j in enumerate(js):
            for side in ("old", "new"):
                for x in range(len(j[side])):
                    nj = dict(j, **{side: j[side][:x] + j[side][x + 1:]})
                    yield dict(case, jobs=js[:i] + [nj] + js[i + 1:])
    elif k == "trees":
        for side in ("old", "new"):
            t = case[side]
            for x in range(len(t)):
                yield dict(case, **{side: t[:x] + t[x + 1:]})
    elif k == "acl":
        for x in range(len(case["rows"])):
            if len(case["rows"]) > 1:
                yield dict(case, rows=case["rows"][:x] + case["rows"][x + 1:])


def search(case):
    """around a disagreement / a failed proof: the witness jobs of the flag theorems, then neighbours"""
    for c in corpus_cases():
        yield c
    rng = random.Random(json.dumps(case, sort_keys=True))
    for _ in range(40):
        yield gen_heap(rng)


# =====================================================================================================================
# extra: one long history in this process, every job against a real fresh `python -c` subprocess
# =====================================================================================================================
def extra(tier, seed, ctx):
    from concurrent.futures import ThreadPoolExecutor
    setup_worker()
    rng = random.Random(seed * 7919 + 5)
    cs = corpus()
    jobs = [dict(src="corpus", name=n, vendor=v, old=o, new=nw, add_comments=False, do_commit=True) for n, v, o, nw in cs]
    for j in jobs:
        if rng.random() < 0.25:
            j["acl"] = acl_for(rng, [j["old"], j["new"]])
    jobs += [gen_hist_job(rng) for _ in range(80 if tier == "quick" else 400)]
    rng.shuffle(jobs)
    share_acls(rng, jobs, 0.3)
    nbase = 96 if tier == "quick" else 480
    picked = sorted(rng.sample(range(len(jobs)), min(nbase, len(jobs))))
    # the history: every job, one after the other, in one process of its own (a pool worker serving many devices)
    seq = fresh_results(jobs, mode="here", timeout=1500)
    viol = []
    for i, r in enumerate(seq):
        for what, obj, where in r.pop("modified"):
            viol.append(dict(case=dict(kind="hist", fresh="exec", jobs=[jobs[i]]), impl={"modified": [what, obj, where]},
                             sig="input-modified." + obj,
                             what="job %s: %s changed the %s it was given at %s" % (jobs[i]["name"], what, obj, where)))

    def one(i):
        return i, _strip(fresh_results([jobs[i]], mode="here")[0])
    with ThreadPoolExecutor(max_workers=int(os.environ.get("VERIF_JOBS", "16"))) as ex:
        fresh = list(ex.map(one, picked))
    for i, f in fresh:
        if f != seq[i]:
            part = [p for p in sorted(set(f) | set(seq[i])) if f.get(p) != seq[i].get(p)][0]
            # the replay carries the whole history up to the job; the runner shrinks the sequence
            viol.append(dict(case=dict(kind="hist", fresh="fork", jobs=jobs[:i + 1]), impl={"differs": part},
                             sig="history-dependent-result",
                             what="job %s: %s after %d other jobs in one process differs from a fresh python process: %s"
                             % (jobs[i]["name"], part, i, _first_diff(seq[i].get(part), f.get(part)))))
            break
    # validation of the regenerated table on the whole history: every observed write of a shipped logic function
    obs = set()
    for j in jobs:
        for w in observed_writes(j):
            obs.add(tuple(w))
    tie = []
    try:
        from harness.core import bridge
        resp = bridge.run_requests([{"op": "c20.table_check", "observed": sorted(list(x) for x in obs)}])[0]
        if resp.get("outside_table"):
            tie.append("observed writes outside the regenerated table: %s" % resp["outside_table"][:5])
    except Exception as e:  # noqa
        tie.append("table check failed: %r" % (e,))
    return dict(violations=viol[:20], evaluations=len(jobs) + len(picked), tie_failures=tie,
                coverage=dict(history_length_one_process=len(jobs), fresh_python_subprocess_baselines=len(picked),
                              observed_writers=sorted({"%s:%s[%s]" % tuple(x) for x in obs}),
                              corpus_pairs=len(cs), table_entries=len(table()),
                              copy_flags=dict(zip(("copy_old_new", "copy_attrs", "copy_match"), copy_flags(REPO)))))
