"""C08 — ordering. impl: make_patch (sort keys, PatchTree.sort) and Orderer.order_config; model: Annet.Patch.makePatch /
orderConfig; oracle: permutation, sortedness + stability w.r.t. the emitted keys, reference rank at top level,
removal-before-re-creation, independence of unrelated rows, idempotence of order_config."""
import copy
import random

from harness import rbgen
from harness.props import c07

ID = "C08"
RULE = ("(patching text, ordering text, vendor, old, new): random rulebooks as in C03 plus ordering rulebooks (nesting<=3, "
        "%order_reverse, %global, %scope, overlapping and disjoint sibling rules, rules in negated form); the patch of "
        "(old,new) and order_config(new) are checked;" + rbgen.SMALL_RULE % (", under four small ordering rulebooks", "") +
        " non-trivial = some block of the patch has >=3 commands with >=2 "
        "different sort keys; distinct = distinct case")
TRUSTED_BASE = [
    "Lean 4.33 kernel; axioms per theorem listed (subset of propext, Classical.choice, Quot.sound)",
    "Python list.sort/sorted are stable (modelled by an insertion sort; validated by the tie on every case)",
    "rule rows matched by Model/Pattern.lean (tied to CPython re by C07)",
    "harness/rbgen.py + harness/props/c08.py and the compiled Lean driver",
]
ASSUMPTIONS = ["common logics only (vendor %logic functions are parameters of the model)", "add_comments=False, empty RefTracker",
               "ordering rule rows inside the rule grammar"]


def setup_worker():
    rbgen.setup()


def shards(tier, seed):
    n = 200 if tier == "quick" else 20000
    out = [dict(seed=seed * 1000 + i, n=n) for i in range(16)]
    # the small space of rbgen under four small ordering rulebooks (plain, nested, %order_reverse, %global)
    if tier == "quick":
        out += [dict(kind="small", part=(seed * 2 + i) % 2048, parts=2048) for i in range(2)]
    else:
        out += [dict(kind="small", part=i, parts=64) for i in range(64)]
    return out


def gen(desc):
    if desc.get("kind") == "small":
        for c in rbgen.small_cases(desc["part"], desc["parts"], orderings=rbgen.SMALL_ORDERINGS):
            rng = random.Random(len(c["ptext"]) * 31 + len(str(c["old"])) * 7 + len(str(c["new"])))
            c["oc"] = with_negated_rows(rng, c["new"], REV.get(c["vendor"], "no"))
            yield c
        return
    rng = random.Random(desc["seed"])
    for _ in range(desc["n"]):
        c = rbgen.gen_case(rng, overlap=rng.random() < 0.5)
        c["oc"] = with_negated_rows(rng, c["new"], REV.get(c["vendor"], "no"))
        yield c


REV = {"huawei": "undo", "cisco": "no", "arista": "no", "nexus": "no", "b4com": "no", "routeros": "remove"}


def with_negated_rows(rng, tree, rev):
    """the config handed to order_config: the target config plus rows in the vendor's negated form (device configs
    do contain them: 'no shutdown', 'undo portswitch'), often several per block"""
    out = []
    for row, ch in tree:
        out.append([row, with_negated_rows(rng, ch, rev)])
    k = rng.choice([0, 0, 2, 3])
    have = {r for r, _ in out}
    for _ in range(k):
        base = rng.choice([r for r, _ in tree]) if tree and rng.random() < 0.6 else \
            " ".join(rng.choice(rbgen.NOUNS + rbgen.VALS) for _ in range(rng.randint(1, 2)))
        neg = rev + " " + base
        if neg not in have:
            have.add(neg)
            out.insert(rng.randint(0, len(out)), [neg, []])
    return out


def run_patch(case, sort=True, old=None, new=None):
    from annet.annlib import patching
    from annet.api import patch_from_pre
    rb = rbgen.compile_rb(case["ptext"], case["otext"], case["vendor"])
    o = rbgen.to_odict(case["old"] if old is None else old)
    n = rbgen.to_odict(case["new"] if new is None else new)
    hw = rbgen.Hw(case["vendor"])
    saved = patching.PatchTree.sort
    if not sort:
        patching.PatchTree.sort = lambda self: None
    try:
        d = patching.make_diff(o, n, rb, [])
        pre = patching.make_pre(d)
        pt = patch_from_pre(pre, hw, rb, False)
    except AssertionError:
        return None, None, None
    finally:
        patching.PatchTree.sort = saved
    return pt, pre, rb


def commented_ptext(case):
    """the case's patching rulebook with a `%comment=<word>` on about half of its rules; the words come from the row
    vocabulary, so that `row + " " + comment` can look like a longer row to a careless ordering lookup"""
    rng = random.Random(len(case["ptext"]) * 13 + len(case["otext"]))
    words = rbgen.NOUNS + rbgen.VALS
    out = []
    for line in case["ptext"].split("\n"):
        if line.strip() and not line.lstrip().startswith("!") and rng.random() < 0.5:
            line += ("  " if "%" not in line else " ") + "%comment=" + rng.choice(words)
        out.append(line)
    return "\n".join(out)


def run_commented(case):
    """make_patch with add_comments=False and add_comments=True from one pre (rules carry %comment texts)"""
    from annet.annlib import patching
    from annet.api import patch_from_pre
    rb = rbgen.compile_rb(commented_ptext(case), case["otext"], case["vendor"])
    hw = rbgen.Hw(case["vendor"])
    try:
        d = patching.make_diff(rbgen.to_odict(case["old"]), rbgen.to_odict(case["new"]), rb, [])
        pre = patching.make_pre(d)
        plain = patch_from_pre(pre, hw, rb, False)
        shown = patch_from_pre(pre, hw, rb, True)
    except AssertionError:
        return None
    return [rbgen.dump_patch(plain), rbgen.dump_patch(shown)]


def impl(case):
    from annet.annlib import patching
    rbgen.setup()
    pt, pre, rb = run_patch(case)
    if pt is None:
        return {"err": "AssertionError"}
    oc = patching.Orderer(rb["ordering"], case["vendor"]).order_config(rbgen.to_odict(case.get("oc", case["new"])))
    return {"patch": rbgen.dump_patch(pt), "ordered": rbgen.to_list(oc)}


def comments_check(case, out):
    """%comment texts are annotations: asking for them (add_comments=True) must not move a command. Position by position,
    at every depth, the commented patch has the row of the plain patch, or that row followed by its comment."""
    try:
        both = run_commented(case)
    except Exception as e:  # noqa  (a rulebook text the parser refuses with comments added is outside this clause)
        return
    if both is None:
        return

    def walk(plain, shown, path):
        if len(plain) != len(shown):
            return path, "%d commands without comments, %d with" % (len(plain), len(shown))
        for (r0, c0, _k0), (r1, c1, _k1) in zip(plain, shown):
            if not (r1 == r0 or r1.startswith(r0 + " ")):
                return path, "position of %r is taken by %r when comments are shown" % (r0, r1)
            if (c0 is None) != (c1 is None):
                return path + (r0,), "block/leaf shape differs"
            if c0 is not None:
                bad = walk(c0, c1, path + (r0,))
                if bad:
                    return bad
        return None
    bad = walk(both[0], both[1], ())
    if bad:
        out.append(dict(sig="comments-move-commands", what="under %r: %s (plain order %r, with comments %r)" % (
            list(bad[0]), bad[1], [x[0] for x in both[0]][:6], [x[0] for x in both[1]][:6])))


def requests(case):
    rbgen.setup()
    return [rbgen.job_request("rb.patch", case, do_commit=True, mode="device"),
            dict(op="rb.order_config", vendor=rbgen.vendor_info(case["vendor"]), ordering=rbgen.raw_ordering(case["otext"]),
                 config=case.get("oc", case["new"]))]


def model(case, resp):
    p, o = resp
    if p.get("grammar") is False or o.get("grammar") is False:
        return {"skip": True}
    if "err" in p:
        return {"err": p["err"]}
    return {"patch": p["patch"], "ordered": o["ok"]}


# ------------------------------------------------------------------ oracle
def ppaths(pt, pre=()):
    out = []
    for row, ch, key in pt:
        out.append(pre + (row,))
        if ch:
            out.extend(ppaths(ch, pre + (row,)))
    return out


def keyt(k):
    o = k[0]
    return (float("inf") if o == "inf" else float("-inf") if o == "-inf" else o, k[1], k[2])


def check_sorted(sorted_pt, unsorted_pt, path, out):
    ks = [keyt(k) for _, _, k in sorted_pt]
    if any(ks[i] > ks[i + 1] for i in range(len(ks) - 1)):
        out.append(dict(sig="not-sorted-by-key", what="block %r is not sorted by its sort keys" % (path,)))
    # stability: equal keys keep the unsorted order
    if sorted([(keyt(k), r) for r, _, k in sorted_pt]) == sorted([(keyt(k), r) for r, _, k in unsorted_pt]):
        for key in set(ks):
            a = [r for r, _, k in sorted_pt if keyt(k) == key]
            b = [r for r, _, k in unsorted_pt if keyt(k) == key]
            if a != b:
                out.append(dict(sig="sort-not-stable", what="commands with equal key %r were reordered in block %r" % (key, path)))
    for (r, ch, _) in sorted_pt:
        if ch:
            cu = [c for (r2, c, _) in unsorted_pt if r2 == r and c]
            if len(cu) == 1:
                check_sorted(ch, cu[0], path + (r,), out)


def top_rank_check(case, pt, out):
    """disjoint top-level ordering rules: the order component of a top-level command's key is the index of the unique
    rule matching it (direct form: +index, only through the negated form: -index)"""
    oraw = rbgen.raw_ordering(case["otext"])
    info = rbgen.vendor_info(case["vendor"])
    rules = [r for r in oraw if r["normal"]]
    if any(r["order_reverse"] or r["scope"] for r in rules):
        return
    for row, ch, key in pt:
        hits = []
        for i, r in enumerate(rules):
            d = c07.ref_match(r["row"], row)
            neg = r["row"][len(info["reverse"]) + 1:] if r["row"].startswith(info["reverse"] + " ") else info["reverse"] + " " + r["row"]
            n = c07.ref_match(neg, row)
            if d == "outside" or n == "outside":
                return
            if d is not None or n is not None:
                hits.append(i)
        if len(hits) == 1:
            if key[0] not in (hits[0], -hits[0]):
                out.append(dict(sig="rank-not-rule-index", what="top-level command %r matches only ordering rule #%d but "
                                                                "its order is %r" % (row, hits[0], key[0])))
        elif not hits and row != info["exit"] and key[0] != 0:
            out.append(dict(sig="rank-without-rule", what="command %r matches no ordering rule but has order %r" % (row, key[0])))


def neg_of(row, rev):
    return row[len(rev) + 1:] if row.startswith(rev + " ") else rev + " " + row


def ref_effective_children(rules, row, rev):
    """reference reading of the rules that order the children of a block command: in FILE ORDER, every %global rule
    itself and the child rules of every rule matching the block command (direct or negated form)"""
    out = []
    for r in rules:
        if r["global"]:
            out.append(r)
        d = c07.ref_match(r["row"], row)
        n = c07.ref_match(neg_of(r["row"], rev), row)
        if d == "outside" or n == "outside":
            return None
        if d is not None or n is not None:
            out.extend(x for x in r["children"] if x["normal"])
    # odict(children): first position, last value
    seen, res = {}, []
    for x in out:
        if x["raw_rule"] in seen:
            res[seen[x["raw_rule"]]] = x
        else:
            seen[x["raw_rule"]] = len(res)
            res.append(x)
    return res


def nested_rank_check(case, pt, out):
    """at every depth: a command matched by exactly one rule of the effective rule list has that rule's index as |order|"""
    oraw = [r for r in rbgen.raw_ordering(case["otext"]) if r["normal"]]
    info = rbgen.vendor_info(case["vendor"])
    rev = info["reverse"]

    def plain(rules):
        return all(not r["order_reverse"] and not r["scope"] and plain([x for x in r["children"] if x["normal"]]) for r in rules)
    if not plain(oraw):
        return

    def walk(items, rules, path):
        for row, ch, key in items:
            hits = []
            for i, r in enumerate(rules):
                d = c07.ref_match(r["row"], row)
                n = c07.ref_match(neg_of(r["row"], rev), row)
                if d == "outside" or n == "outside":
                    return
                if d is not None or n is not None:
                    hits.append(i)
            if len(hits) == 1 and key[0] not in (hits[0], -hits[0]) and row != info["exit"]:
                out.append(dict(sig="rank-not-rule-index",
                                what="command %r in block %r matches only rule #%d (%r) of the rules ordering that block but its "
                                     "order is %r" % (row, path, hits[0], rules[hits[0]]["raw_rule"], key[0])))
                return
            if ch:
                sub = ref_effective_children(rules, row, rev)
                if sub is not None:
                    walk(ch, sub, path + (row,))
    walk(pt, oraw, ())


def removal_first_check(case, pt, pre, rb, out):
    """one rule and key: removal before re-creation (top level), unless an %order_reverse rule pins the removal"""
    from annet.annlib.types import Op
    if "%order_reverse" in case["otext"]:
        return
    rows = [r for r, _, _ in pt]
    for raw, content in pre.items():
        attrs = content["attrs"]
        for key, diff in content["items"].items():
            if diff[Op.REMOVED] and diff[Op.ADDED] and not diff[Op.AFFECTED] and attrs["logic"].__name__ == "undo_redo":
                rem = attrs["reverse"].format(*key)
                add = diff[Op.ADDED][0]["row"]
                if rem in rows and add in rows and rows.index(rem) > rows.index(add):
                    out.append(dict(sig="recreate-before-remove",
                                    what="%r is sent before %r for the same rule and key" % (add, rem)))


def common_subseq_order(a_rows, b_rows):
    ca = [r for r in a_rows if r in b_rows]
    cb = [r for r in b_rows if r in a_rows]
    return ca == cb or len(set(ca)) != len(ca) or len(set(cb)) != len(cb)


def independence_check(case, pt, out, rng):
    tops = [r for r, c in case["new"] if any(r == r2 and c == c2 for r2, c2 in case["old"])]
    if not tops:
        return
    victim = rng.choice(tops)
    old2 = [x for x in case["old"] if x[0] != victim]
    new2 = [x for x in case["new"] if x[0] != victim]
    pt2, _, _ = run_patch(case, old=old2, new=new2)
    if pt2 is None:
        return
    a = [r for r, _, _ in pt]
    b = [str(i.row) for i in pt2.itms]
    if not common_subseq_order(a, b):
        keys = dict((r, tuple(k)) for r, _, k in pt)
        ca = [r for r in a if r in b]
        cb = [r for r in b if r in a]
        flipped = [(x, y) for i, x in enumerate(ca) for y in ca[i + 1:] if cb.index(y) < cb.index(x)]
        sig = "order-depends-on-unrelated-row"
        if flipped and all(keys[x] == keys[y] for x, y in flipped):
            # commands of equal rank (same order, same rule): their order is the order of the diff entries, whose
            # indices shift with unrelated rows (removed rows carry old indices, added rows new ones)
            sig = "equal-rank-commands-follow-diff-position"
        out.append(dict(sig=sig,
                        what="removing the unchanged top-level row %r from old and new changes the relative order of the "
                             "remaining commands: %r vs %r" % (victim, a, b)))


def unordered(t):
    return sorted((r, unordered(c)) for r, c in t)


def order_config_checks(case, r, rb, out):
    from annet.annlib import patching
    oc = r["ordered"]
    if unordered(oc) != unordered(case.get("oc", case["new"])):
        out.append(dict(sig="order-config-not-permutation", what="order_config lost, duplicated or moved a line across blocks"))
        return
    again = patching.Orderer(rb["ordering"], case["vendor"]).order_config(rbgen.to_odict(oc))
    if rbgen.to_list(again) != oc:
        out.append(dict(sig="order-config-not-idempotent", what="ordering an ordered configuration changes it"))
    # rows no top-level rule mentions keep their relative order
    oraw = [x for x in rbgen.raw_ordering(case["otext"]) if x["normal"]]
    info = rbgen.vendor_info(case["vendor"])

    def mentioned(row):
        for x in oraw:
            neg = x["row"][len(info["reverse"]) + 1:] if x["row"].startswith(info["reverse"] + " ") else info["reverse"] + " " + x["row"]
            for p in (x["row"], neg):
                m = c07.ref_match(p, row)
                if m == "outside" or m is not None:
                    return True
        return row == info["exit"]
    free_in = [row for row, _ in case.get("oc", case["new"]) if not mentioned(row)]
    free_out = [row for row, _ in oc if not mentioned(row)]
    # rows starting with the negation word sort first (direct=False): compare within each class
    pre_ = info["reverse"]
    for cls in (True, False):
        a = [x for x in free_in if x.startswith(pre_) == cls]
        b = [x for x in free_out if x.startswith(pre_) == cls]
        if a != b:
            out.append(dict(sig="order-config-unmentioned-reordered",
                            what="rows no ordering rule mentions changed their relative order: %r -> %r" % (a, b)))


def oc_rank_check(case, oc, out):
    """order_config at every depth: rows matched by at most one rule of the rules ordering their block are sorted by the
    reference key (index of that rule, negative for a row in negated form; 0 when no rule mentions the row; negated
    rows before direct ones on ties)"""
    oraw = [r for r in rbgen.raw_ordering(case["otext"]) if r["normal"]]
    info = rbgen.vendor_info(case["vendor"])
    rev = info["reverse"]

    def plain(rules):
        return all(not r["order_reverse"] and not r["scope"] and plain([x for x in r["children"] if x["normal"]]) for r in rules)
    if not plain(oraw):
        return

    def walk(items, rules, path, given=None):
        keys = []
        for row, ch in items:
            hits = []
            for i, r in enumerate(rules):
                d = c07.ref_match(r["row"], row)
                n = c07.ref_match(neg_of(r["row"], rev), row)
                if d == "outside" or n == "outside":
                    return
                if d is not None or n is not None:
                    hits.append(i)
            direct = not row.startswith(rev)
            if row == info["exit"]:
                keys.append(None)
            elif len(hits) <= 1:
                o = hits[0] if hits else 0
                keys.append((o if direct else -o, direct, row))
            else:
                keys.append(None)
            if ch:
                sub = ref_effective_children(rules, row, rev)
                if sub is not None:
                    gch = next((c for r2, c in (given or []) if r2 == row), None)
                    walk(ch, sub, path + (row,), gch)
        ks = [k for k in keys if k is not None]
        for a, b in zip(ks, ks[1:]):
            if (a[0], a[1]) > (b[0], b[1]):
                out.append(dict(sig="order-config-rank-order",
                                what="order_config puts %r (reference key %r) before %r (key %r) in block %r" % (
                                    a[2], a[:2], b[2], b[:2], path)))
                return
        # rows with equal reference keys (in particular rows no rule of their block mentions) keep the order they came in
        if given is not None and all(k is not None for k in keys) and len({r for r, _ in given}) == len(given):
            pos = {r: i for i, (r, _) in enumerate(given)}
            for a, b in zip(ks, ks[1:]):
                if a[:2] == b[:2] and a[2] in pos and b[2] in pos and pos[a[2]] > pos[b[2]]:
                    out.append(dict(sig="order-config-equal-rank-reordered",
                                    what="order_config swaps %r and %r in block %r although the rules ordering that block give "
                                         "them the same rank %r" % (b[2], a[2], path, a[:2])))
                    return
    walk(oc, oraw, (), case.get("oc", case["new"]))


def oracle(case, r):
    rbgen.setup()
    if "err" in r:
        return []
    out = []
    pt_uns, pre, rb = run_patch(case, sort=False)
    uns = rbgen.dump_patch(pt_uns)
    pt = r["patch"]
    if sorted(ppaths(pt)) != sorted(ppaths(uns)):
        out.append(dict(sig="sort-not-permutation", what="sorting the patch lost, duplicated or re-parented a command"))
    else:
        check_sorted(pt, uns, (), out)
    top_rank_check(case, pt, out)
    nested_rank_check(case, pt, out)
    removal_first_check(case, pt, pre, rb, out)
    independence_check(case, pt, out, random.Random(len(case["ptext"]) * 7 + len(pt)))
    comments_check(case, out)
    order_config_checks(case, r, rb, out)
    oc_rank_check(case, r["ordered"], out)
    seen, uniq = set(), []
    for v in out:
        if v["sig"] not in seen:
            seen.add(v["sig"])
            uniq.append(v)
    return uniq


def nontrivial(case, r):
    if "patch" not in r:
        return False

    def blocks(pt):
        yield pt
        for _, ch, _ in pt:
            if ch:
                yield from blocks(ch)
    return any(len(b) >= 3 and len(set(map(lambda x: tuple(x[2]), b))) >= 2 for b in blocks(r["patch"]))


def stats(case, r):
    lab = ["vendor=" + case["vendor"]]
    if "err" in r:
        return lab + ["result=" + r["err"]]
    n = len(ppaths(r["patch"]))
    lab.append("patch-cmds=%s" % ("0" if n == 0 else "1-3" if n <= 3 else "4-9" if n <= 9 else "10+"))
    nr = len([l for l in case["otext"].split("\n") if l.strip()])
    lab.append("order-rules=%s" % ("0" if nr == 0 else "1-3" if nr <= 3 else "4+"))
    for kw in ("%order_reverse", "%global", "%scope"):
        if kw in case["otext"]:
            lab.append("order:" + kw)
    if any(k[0] not in (0, "inf") for _, _, k in r["patch"]):
        lab.append("ranked-commands")
    if any(isinstance(k[0], int) and k[0] < 0 for _, _, k in r["patch"]):
        lab.append("negative-rank")
    return lab


def shrink_candidates(case):
    for side in ("old", "new"):
        t = case[side]
        for i in range(len(t)):
            yield dict(case, **{side: t[:i] + t[i + 1:]})
    ls = [l for l in case["otext"].split("\n") if l.strip()]
    for i in range(len(ls)):
        yield dict(case, otext="\n".join(ls[:i] + ls[i + 1:]) + "\n")
