"""C12 — the worker pool returns exactly one result per submitted device.

impl   : the real annet.parallel.Parallel (irun / run, callbacks incl. annet.api.PoolProgressLogger) over generated id
         lists, pool sizes, quotas, task durations, consumer / callback delays, raising ids, tolerate_fails.  Every run
         happens in a forked child with its own process group and a watchdog (a run that does not return is a result).
model  : Annet.Pool (lean/AnnetModel/Model/Pool.lean) through the compiled driver:
         * kind "trace": the run is instrumented from the harness process only (no /repo edit): `annet.parallel.mp` is
           replaced by a shim whose Queue/Process log take / put / get / exitcode-read / start events into one
           O_APPEND file (global order); `done_queue.get(True, 1)` waits a scaled time; optionally the parent pauses
           at the entry of `_check_children`.  The log is turned into a schedule of `Pool.step` (flush / feeder-death /
           exit events are inserted where the observations force them, flushes in the order the parent received the
           results) and replayed by the driver: every event must be enabled and every observation (task taken, result
           received or timeout, exit code read, yield / break / abort, restart) must coincide, as must the delivered
           sequence and the way the run ended.
         * pool_size == 1 (any kind): the delivered sequence against `Pool.single`, in order.
         * api == "run": Parallel.run's two dictionaries (as ordered lists) against `Pool.run` applied to the sequence
           irun yielded.
         * kind "plain": nothing is delayed or rescaled (real 1 s polling); only puts and gets are logged so that a loss
           can be classified; an untraced multi-process irun is the oracle's business only.
         Model parameters read off the code under test: the loop-exit rule and whether PickleSafeException of a local
         class pickles (`code_params`), so that the check follows the proposed repairs when they land.
oracle : multiset(delivered ids) == multiset(submitted), payload(id) == f(id) (value shape or exception kind after
         invoke_retry), normal termination; run(): dictionaries file every id under its own outcome and
         strict_error_code raises exactly on failure.  Computed from the case only, no Lean.
extra  : bounded exhaustive exploration of every schedule of small configurations in the compiled model.
"""
import collections
import json
import os
import pickle
import random
import select
import signal
import sys
import tempfile
import time

ID = "C12"
RULE = ("cases = (ids 0..40 as int/str/tuple payloads, parallel 1..8, max_tasks 1..25 (0 = none in a few), "
        "tolerate_fails 0/1, per-id behaviour: value shapes int/str/list/gen/64KiB blob, raising "
        "ValueError/2-arg custom/OSError/KeyError/local class, transient BrokenPipeError k times, "
        "per-id durations, consumer / parent-callback / in-thread-callback delays, scaled poll timeout, "
        "pause before _check_children, optionally an earlier run of >= n ids on the same Parallel object); kinds trace (replayed through the Lean transition system), "
        "single (pool_size 1), plain (untouched timing, irun or run, PoolProgressLogger callback); "
        "non-trivial = at least 2 ids on at least 2 workers; distinct = distinct case descriptors")
TRUSTED_BASE = [
    "Lean 4.33 kernel; axioms per theorem are listed in axioms_per_theorem (subset of propext, Classical.choice, Quot.sound)",
    "multiprocessing rules stated at the top of Model/Pool.lean (FIFO task queue, per-worker feeder buffer, "
    "unpicklable object dropped by the feeder, exit code visible only after the feeder buffer is flushed, "
    "get() times out only on an empty pipe) - validated on every logged trace, not proved",
    "harness/props/c12.py: event logging shim, trace -> schedule conversion (flush/exit insertion), canonicalisation",
    "compiled Lean driver (Lean compiler) evaluating Model/Pool.lean",
    "task_timeout (1800 s) never fires; workers are not killed from outside; callbacks return their argument",
]
ASSUMPTIONS = [
    "tasks raise Exception subclasses only (no SystemExit / os._exit / signals from inside a task)",
    "device ids are picklable payloads; results are compared after mapping through the case's value shape",
    "C12_exactly_once is FALSE of the code over all schedules (two Lean witnesses: abort with "
    "tolerate_fails=False - by design; result flushed between a timed-out get and _check_children - race); "
    "proved for HEAD under 'no flush inside that window' and for every schedule with the proposed exit rule",
]
EXHAUSTIVE = {"quick": False, "thorough": False}

NET_RETRY = 3
EXC_TAGS = {"BrokenPipeError": 0, "ValueError": 1, "ModExc": 2, "OSError": 3, "Loc": 4, "KeyError": 5,
            "FileNotFoundError": 3, "TypeError": 6, "Dyn": 7}
UNSENDABLE_TAGS = {4}      # emptied by code_params() when PickleSafeException survives a local exception class
_PARAMS = {}


def code_params():
    """Parameters of the model that are read off the code under test (the theorems hold for every value):
    the loop-exit rule ("drained" once the proposed repair is in Parallel.irun, else the HEAD rule) and
    whether the PickleSafeException of a local exception class can be pickled."""
    if not _PARAMS:
        import inspect
        import annet.parallel as ap
        src = inspect.getsource(ap.Parallel.irun)
        _PARAMS["rule"] = "drained" if "drained" in src else "head"

        class _Probe(Exception):
            pass
        try:
            pickle.loads(pickle.dumps(ap.PickleSafeException.from_exc(_Probe("x"), 0)))
            _PARAMS["local_class_sendable"] = True
            UNSENDABLE_TAGS.clear()
        except Exception:
            _PARAMS["local_class_sendable"] = False
    return _PARAMS


class ModExc(Exception):
    """module-level exception whose constructor needs two arguments (does not round-trip through pickle by itself)"""

    def __init__(self, a, b):
        super().__init__("modexc %s" % a)
        self.a = a
        self.b = b


# ------------------------------------------------------------------------------------------------ cases

def _behaviour(rng, raising, p_trans=0.08):
    if raising:
        b = dict(k="err", e=rng.choice([1, 1, 2, 3, 5]))
    else:
        b = dict(k="val", shape=rng.choice(["int", "int", "str", "list", "gen", "int", "str", "lazy"]))
    if rng.random() < p_trans:
        b["trans"] = rng.choice([1, 2, 3, 3, 4, 5])
    return b


def make_case(rng, kind, tier="quick"):
    if kind == "single":
        if rng.random() < 0.5:
            n, par = rng.randint(0, 40), 1
        else:
            n, par = 1, rng.randint(1, 8)
    elif kind == "plain":
        n = rng.choice([0, 2, 3, 5, 8, 13, 21, 40]) if rng.random() < 0.5 else rng.randint(2, 40)
        par = rng.randint(2, 8)
    else:
        n = rng.choice([0, 2, 2, 3, 3, 4, 5, 6, 8, 12, 20, 40]) if rng.random() < 0.7 else rng.randint(2, 40)
        par = rng.randint(2, 8)
    mt = rng.choice([1, 1, 2, 2, 3, 5, 25, rng.randint(1, 25)])
    if rng.random() < 0.03:
        mt = 0
    if tier == "quick" and kind != "single" and mt in (1, 2) and n > 16:
        n = rng.randint(9, 16)          # every retirement is a fork: keep the quick tier light
    tol = rng.random() < 0.8
    idform = rng.choice(["int", "int", "int", "str", "tuple"])
    p_raise = rng.choice([0, 0, 0.1, 0.3, 1.0]) if tol else rng.choice([0, 0, 0, 0.15])
    dup = kind != "single" and n >= 2 and rng.random() < 0.05
    ids = list(range(n))
    if dup:
        ids = [rng.randrange(max(1, n // 2)) for _ in range(n)]
    beh = {}
    for i in sorted(set(ids)):
        beh[str(i)] = _behaviour(rng, rng.random() < p_raise, 0.0 if dup else 0.08)
    case = dict(kind=kind, ids=ids, parallel=par, max_tasks=mt, tolerate=tol, idform=idform, beh=beh,
                api="irun", strict=False)
    if kind == "single":
        if rng.random() < 0.1:
            k = str(rng.choice(ids)) if ids else None
            if k is not None and beh[k]["k"] == "err":
                beh[k]["e"] = rng.choice([4, 7])
        if rng.random() < 0.3:
            case["api"] = "run"
            case["strict"] = rng.random() < 0.4
        case["dur"] = {}
        case["cons"] = 0
        case["cb"] = 0
        case["itcb"] = 0
        return case
    # durations (ms)
    style = rng.choice(["zero", "tiny", "mixed", "slow-one", "equal"])
    dur = {}
    for i in sorted(set(ids)):
        if style == "zero":
            d = 0
        elif style == "tiny":
            d = rng.choice([0, 1, 2, 3])
        elif style == "mixed":
            d = rng.choice([0, 1, 5, 10, 20, 40])
        elif style == "equal":
            d = 15
        else:
            d = 1
        if d:
            dur[str(i)] = d
    if style == "slow-one" and ids:
        dur[str(rng.choice(ids))] = rng.choice([60, 120])
    case["dur"] = dur
    case["cons"] = rng.choice([0, 0, 0, 2, 10, 30])       # caller sleeps after every result (ms)
    case["cb"] = rng.choice([0, 0, 0, 3, 15])             # parent-side callback sleeps (ms)
    case["itcb"] = rng.choice([0, 0, 0, 5])               # in-thread (worker-side) callback sleeps (ms)
    if n >= 2 and rng.random() < 0.2:
        case["warm"] = n + rng.choice([0, 0, 1, 3])     # an earlier run of at least as many ids on the same object
    if kind == "trace":
        case["gt"] = rng.choice([5, 10, 20, 40, 80])      # done_queue.get(True, 1) waits gt ms instead of 1 s
        case["pause"] = rng.choice([0, 0, 0, 0, 10, 30, 60])  # parent sleeps before _check_children reads exit codes
        case["pause_when"] = rng.choice(["timeout", "always"])
        if rng.random() < 0.03 and tol:
            k = [k for k in beh if beh[k]["k"] == "err"]
            if k:
                beh[rng.choice(k)]["e"] = rng.choice([4, 7])
        if rng.random() < 0.04 and n >= 2:
            k = str(rng.choice(ids))
            if beh[k]["k"] == "val":
                beh[k]["shape"] = "blob"
        if n > 20:
            case["cons"] = min(case["cons"], 10)
    else:
        # plain: untouched code and timing; keep the sleep budget small, the loop polls with 1 s
        if rng.random() < 0.35:
            case["api"] = "run"
            case["strict"] = rng.random() < 0.3
            if dup:
                case["ids"] = ids = sorted(set(ids))
        case["progress_cb"] = rng.random() < 0.3 and idform != "tuple"
        if case["progress_cb"] and ids and not dup and rng.random() < 0.5 and all(b["k"] == "val" for b in beh.values()) \
                and case["tolerate"]:
            # the report's host map does not list every submitted id (api.diff with ids outside the loader's report):
            # PoolProgressLogger then raises KeyError for them; the pool files the id as failed - it must not lose it
            miss = [i for i in sorted(set(ids)) if rng.random() < 0.4] or [sorted(set(ids))[0]]
            case["progress_missing"] = miss
        style2 = rng.choice(["fast", "slow-consumer", "slow-tasks", "fast"])
        if style2 == "slow-consumer":
            case["cons"] = rng.choice([60, 150, 300]) if n <= 12 else 20
        elif style2 == "slow-tasks":
            for i in sorted(set(ids)):
                dur[str(i)] = rng.choice([10, 50, 120]) if n <= 16 else rng.choice([5, 20])
        if n > 20:
            case["cons"] = min(case["cons"], 10)
    return case


def race_case(rng):
    """parent paused between a timed-out get and _check_children while the last workers finish"""
    n = rng.choice([2, 2, 3, 4])
    par = rng.randint(n, 8)
    gt = rng.choice([30, 40])
    d = gt + rng.choice([25, 35])
    return dict(kind="trace", ids=list(range(n)), parallel=par, max_tasks=rng.choice([2, 25]), tolerate=True,
                idform="int", beh={str(i): dict(k="val", shape="int") for i in range(n)}, api="irun", strict=False,
                dur={str(i): d for i in range(n)}, cons=0, cb=0, itcb=0, gt=gt, pause=150, pause_when="timeout")


def shards(tier, seed):
    out = []
    if tier == "quick":
        for i in range(16):
            out.append(dict(kind="single", seed=seed * 100003 + i, n=150))
        for i in range(64):
            out.append(dict(kind="trace", seed=seed * 100003 + 1000 + i, n=26, tier=tier))
        for i in range(32):
            out.append(dict(kind="plain", seed=seed * 100003 + 2000 + i, n=8, tier=tier))
        out.append(dict(kind="race", seed=seed * 100003 + 3000, n=6))
    else:
        for i in range(32):
            out.append(dict(kind="single", seed=seed * 100003 + i, n=400))
        for i in range(240):
            out.append(dict(kind="trace", seed=seed * 100003 + 1000 + i, n=70, tier=tier))
        for i in range(144):
            out.append(dict(kind="plain", seed=seed * 100003 + 2000 + i, n=16, tier=tier))
        for i in range(4):
            out.append(dict(kind="race", seed=seed * 100003 + 3000 + i, n=10))
    only = os.environ.get("C12_KINDS")
    if only:
        out = [d for d in out if d["kind"] in only.split(",")]
    # long shards first
    out.sort(key=lambda d: {"plain": 0, "trace": 1, "race": 2, "single": 3}[d["kind"]])
    return out


def gen(desc):
    rng = random.Random(desc["seed"])
    for _ in range(desc["n"]):
        if desc["kind"] == "race":
            yield race_case(rng)
        else:
            yield make_case(rng, desc["kind"], desc.get("tier", "quick"))


# ------------------------------------------------------------------------------------------------ expected semantics (oracle side, python only)

def real_id(case, i):
    f = case["idform"]
    if f == "int":
        return i
    if f == "str":
        return "dev%d" % i
    return ("/old/dev%d.cfg" % i, "/new/dev%d.cfg" % i)


def model_id(case, rid):
    f = case["idform"]
    try:
        if f == "int":
            return int(rid)
        if f == "str":
            return int(rid[3:])
        return int(rid[0][8:-4])
    except Exception:
        return -1


def shape_value(shape, i):
    v = i * 7 + 1
    if shape == "int":
        return v
    if shape == "str":
        return "r%d" % v
    if shape == "list":
        return [v, [v, "x"], {"k": v}]
    if shape == "gen":
        return [v, v + 1]
    if shape == "blob":
        return bytes([v % 251]) * 65536
    if shape == "lazy":
        return [v, "<generator>"]
    raise ValueError(shape)


def expected_out(case, i):
    """the oracle's own reading of f(id) under invoke_retry: ["ok", v] | ["exc", tag, sendable]"""
    b = case["beh"][str(i)]
    t = b.get("trans", 0)
    if t > NET_RETRY:
        return ["exc", 0, True]
    if b["k"] == "val":
        if b.get("shape") == "lazy" and pool_size(case) != 1:
            # a result that cannot be pickled (a lazy generator inside a row): the worker reports the task as failed
            # with the pickling error; in the single-process path the object is handed over as it is
            return ["exc", 6, True]
        return ["ok", i * 7 + 1]
    return ["exc", b["e"], b["e"] not in UNSENDABLE_TAGS]


def pool_size(case):
    n = len(case["ids"])
    return case["parallel"] if n > case["parallel"] else n


# ------------------------------------------------------------------------------------------------ the task run by the real pool

_ATTEMPTS = {}


def _task(device_id, spec):
    case = spec
    i = model_id(case, device_id)
    if i >= 1000:
        return i            # warm-up run
    b = case["beh"][str(i)]
    d = case["dur"].get(str(i), 0)
    if d:
        time.sleep(d / 1000.0)
    t = b.get("trans", 0)
    if t:
        a = _ATTEMPTS.get(i, 0)
        if a < t:
            _ATTEMPTS[i] = a + 1
            try:
                raise BrokenPipeError("transient %d" % a)
            except BrokenPipeError as e:
                if a % 2:
                    raise RuntimeError("wrapped") from e     # find_exc_in_stack follows __cause__
                raise
        _ATTEMPTS.pop(i, None)
    if b["k"] == "val":
        if b["shape"] == "gen":
            v = i * 7 + 1
            return (x for x in (v, v + 1))
        if b["shape"] == "lazy":
            v = i * 7 + 1
            return [v, (x for x in (v,))]
        return shape_value(b["shape"], i)
    e = b["e"]
    if e == 1:
        raise ValueError("boom %d" % i)
    if e == 2:
        raise ModExc(i, "two")
    if e == 3:
        raise FileNotFoundError(2, "no such file", "/x/%d" % i)
    if e == 5:
        raise KeyError(i)

    if e == 7:
        # a class made at run time (a plugin's error registry): an ordinary name, but not importable - pickling the
        # class by reference fails although "<locals>" is not in its qualified name
        raise type("Dyn", (Exception,), {"__module__": __name__})("dynamic class %d" % i)

    class Loc(Exception):
        pass
    raise Loc("local class %d" % i)


def canon_result(case, tr):
    """TaskResult -> [model id, out]"""
    i = model_id(case, tr.device_id)
    if tr.exc is not None:
        cls = getattr(tr.exc, "orig_exc_cls", None)
        name = cls.__name__ if cls is not None else type(tr.exc).__name__
        if name == "RuntimeError" and "BrokenPipeError" in getattr(tr.exc, "formatted_output", ""):
            name = "BrokenPipeError"
        if name == "Exception" and "Loc: local class" in getattr(tr.exc, "formatted_output", ""):
            name = "Loc"          # a repaired PickleSafeException stands in for the unpicklable class
        if name == "Exception" and "Dyn: dynamic class" in getattr(tr.exc, "formatted_output", ""):
            name = "Dyn"
        tag = EXC_TAGS.get(name, -1)
        dev = getattr(tr.exc, "device_id", None)
        if tag < 0 or (dev is not None and model_id(case, dev) != i) or tr.result is not None:
            return [i, ["badexc", name]]
        return [i, ["exc", tag, tag not in UNSENDABLE_TAGS]]
    b = case["beh"].get(str(i))
    if b is None or b["k"] != "val":
        return [i, ["badval", repr(tr.result)[:40]]]
    import inspect
    if b["shape"] == "lazy" and isinstance(tr.result, list) and len(tr.result) == 2 and tr.result[0] == i * 7 + 1 \
            and inspect.isgenerator(tr.result[1]):
        return [i, ["ok", i * 7 + 1]]
    if tr.result == shape_value(b["shape"], i):
        return [i, ["ok", i * 7 + 1]]
    return [i, ["badval", repr(tr.result)[:40]]]


# ------------------------------------------------------------------------------------------------ instrumentation (harness process only)

class _Ctl:
    def __init__(self, path, case):
        self.fd = os.open(path, os.O_WRONLY | os.O_CREAT | os.O_APPEND, 0o600)
        self.case = case
        self.last_get_empty = False
        self.take_lock = None
        self.nqueues = 0
        self.warming = False

    def log(self, *a):
        os.write(self.fd, (" ".join(str(x) for x in a) + "\n").encode())


def _slot(name):
    return int(str(name).rsplit("-", 1)[1])


def _install_shim(ctl):
    import multiprocessing as realmp
    import multiprocessing.queues as mpq
    import queue as pyqueue
    import annet.parallel as ap
    case = ctl.case
    ctl.take_lock = realmp.Lock()
    scale = case["gt"] / 1000.0

    class LQ:
        def __init__(self, role):
            self.q = realmp.Queue()
            self.role = role

        def put(self, obj, *a, **k):
            if self.role == "done":
                ctl.log("P", _slot(obj[0]), model_id(case, obj[1].payload), os.getpid())
            return self.q.put(obj, *a, **k)

        def get(self, block=True, timeout=None):
            if self.role == "task":
                with ctl.take_lock:
                    t = self.q.get(block, timeout)
                    ctl.log("T", _slot(realmp.current_process().name),
                            "stop" if t.type == ap.PoolWorkerTaskType.STOP else model_id(case, t.payload))
                return t
            try:
                item = self.q.get(block, None if timeout is None else timeout * scale)
            except pyqueue.Empty:
                ctl.last_get_empty = True
                ctl.log("G", "-")
                raise
            ctl.last_get_empty = False
            ctl.log("G", _slot(item[0]), model_id(case, item[1].payload))
            return item

        def qsize(self):
            return self.q.qsize()

        def close(self):
            return self.q.close()

    class PS:
        def __init__(self, name=None, target=None, args=()):
            self.slot = _slot(name)
            self.p = realmp.Process(name=name, target=target, args=args)

        def start(self):
            ctl.log("S", self.slot)
            self.p.start()

        @property
        def exitcode(self):
            c = self.p.exitcode
            ctl.log("X", self.slot, c)
            return c

        @property
        def pid(self):
            return self.p.pid

        def join(self, *a):
            return self.p.join(*a)

        def terminate(self):
            return self.p.terminate()

    class Shim:
        def Queue(self):
            ctl.nqueues += 1
            return LQ("task" if ctl.nqueues % 2 == 1 else "done")

        Process = PS
        cpu_count = staticmethod(realmp.cpu_count)
        current_process = staticmethod(realmp.current_process)

    ap.mp = Shim()
    orig_cc = ap.Parallel._check_children

    def cc(self, pool):
        ctl.log("C")
        if case.get("pause") and not ctl.warming and (case.get("pause_when") == "always" or ctl.last_get_empty):
            time.sleep(case["pause"] / 1000.0)
        return orig_cc(self, pool)
    ap.Parallel._check_children = cc

    def feeder_error(e, obj):
        try:
            ctl.log("D", _slot(obj[0]), model_id(case, obj[1].payload))
        except Exception:
            ctl.log("D", "?", "?")
    mpq.Queue._on_queue_feeder_error = staticmethod(feeder_error)


def _install_light_shim(ctl):
    """plain kind: nothing is delayed, locked or rescaled; only puts (worker side) and gets (parent side)
    are written to the log so that a loss can be classified"""
    import multiprocessing as realmp
    import multiprocessing.queues as mpq
    import queue as pyqueue
    import annet.parallel as ap
    case = ctl.case

    class LQ:
        def __init__(self, role):
            self.q = realmp.Queue()
            self.role = role

        def put(self, obj, *a, **k):
            if self.role == "done":
                ctl.log("P", _slot(obj[0]), model_id(case, obj[1].payload), os.getpid())
            return self.q.put(obj, *a, **k)

        def get(self, block=True, timeout=None):
            if self.role == "task":
                return self.q.get(block, timeout)
            try:
                item = self.q.get(block, timeout)
            except pyqueue.Empty:
                ctl.log("G", "-")
                raise
            ctl.log("G", _slot(item[0]), model_id(case, item[1].payload))
            return item

        def qsize(self):
            return self.q.qsize()

        def close(self):
            return self.q.close()

    class Shim:
        def Queue(self):
            ctl.nqueues += 1
            return LQ("task" if ctl.nqueues % 2 == 1 else "done")

        Process = realmp.Process
        cpu_count = staticmethod(realmp.cpu_count)
        current_process = staticmethod(realmp.current_process)

    ap.mp = Shim()

    def feeder_error(e, obj):
        try:
            ctl.log("D", _slot(obj[0]), model_id(case, obj[1].payload))
        except Exception:
            ctl.log("D", "?", "?")
    mpq.Queue._on_queue_feeder_error = staticmethod(feeder_error)


def _run_case(case, logpath):
    """runs in a forked child of the shard process"""
    import logging
    import warnings
    logging.disable(logging.CRITICAL)
    warnings.simplefilter("ignore")
    import annet.parallel as ap
    ctl = _Ctl(logpath, case)
    if case["kind"] == "trace":
        _install_shim(ctl)
    else:
        _install_light_shim(ctl)
    ids = [real_id(case, i) for i in case["ids"]]
    p = ap.Parallel(_task, case).tune(parallel=case["parallel"], max_tasks=case["max_tasks"])
    if case.get("warm"):
        # history: the same Parallel object has already served an earlier run (ids 1000.., all succeed at once);
        # only the run that follows is logged and judged
        ctl.warming = True
        for _ in p.irun([real_id(case, 1000 + k) for k in range(case["warm"])], True):
            pass
        ctl.warming = False
        os.ftruncate(ctl.fd, 0)
        ctl.last_get_empty = False
    if case.get("cb"):
        def cb(pool, tr):
            time.sleep(case["cb"] / 1000.0)
            return tr
        p.add_callback(cb)
    if case.get("itcb"):
        def itcb(pool, tr):
            time.sleep(case["itcb"] / 1000.0)
            return tr
        p.add_callback(itcb, in_thread=True)
    if case.get("progress_cb"):
        from annet.api import PoolProgressLogger
        p.add_callback(PoolProgressLogger({real_id(case, i): "host%d.example" % i for i in set(case["ids"])
                                           if i not in case.get("progress_missing", ())}))
    res = dict(end="done", delivered=[])
    t0 = time.monotonic()
    try:
        if case["api"] == "run":
            real_irun = p.irun

            def recording_irun(device_ids, tolerate_fails=True):
                for r in real_irun(device_ids, tolerate_fails):
                    c = canon_result(case, r)
                    res["delivered"].append(c)
                    ctl.log("Y", c[0])
                    yield r
            p.irun = recording_irun            # Parallel.run calls self.irun
            succ, fail = p.run(ids, case["tolerate"], case["strict"])
            tr = ap.TaskResult
            res["success"] = [canon_result(case, tr("w", k, result=v)) for k, v in succ.items()]
            res["fail"] = [canon_result(case, tr("w", k, exc=v)) for k, v in fail.items()]
        else:
            for r in p.irun(ids, case["tolerate"]):
                c = canon_result(case, r)
                res["delivered"].append(c)
                ctl.log("Y", c[0])
                if case.get("cons"):
                    time.sleep(case["cons"] / 1000.0)
    except ap.PickleSafeException as e:
        i = model_id(case, e.device_id)
        res["end"] = ["raised", canon_result(case, ap.TaskResult("w", e.device_id, exc=e))]
    except RuntimeError as e:
        res["end"] = ["RuntimeError", str(e)]
    ctl.log("E", "done" if res["end"] == "done" else "raised")
    res["wall_ms"] = int((time.monotonic() - t0) * 1000)
    return res


def _budget(case):
    tot = sum(case["dur"].get(str(i), 0) for i in case["ids"]) + len(case["ids"]) * (
        case.get("cons", 0) + case.get("cb", 0) + case.get("itcb", 0) + case.get("pause", 0) + 5)
    return 60.0 + 4 * tot / 1000.0


def run_isolated(case):
    """fork a child (own process group), run the case there, kill the group on timeout -> end = hang"""
    d = tempfile.mkdtemp(prefix="c12_")
    logpath = os.path.join(d, "trace.log")
    rfd, wfd = os.pipe()
    pid = os.fork()
    if pid == 0:
        code = 0
        try:
            os.close(rfd)
            os.setsid()
            import multiprocessing.process as _mpp
            _mpp.current_process()._config["daemon"] = False     # the runner's shard workers are daemonic
            try:
                res = _run_case(case, logpath)
            except BaseException as e:  # noqa
                res = dict(end=["harness-exception", type(e).__name__, str(e)[:200]], delivered=None)
            with os.fdopen(wfd, "wb") as f:
                pickle.dump(res, f)
        except BaseException:  # noqa
            code = 3
        finally:
            os._exit(code)
    os.close(wfd)
    buf = b""
    deadline = time.monotonic() + (_budget(case) if _HANGS[0] == 0 else min(_budget(case), 20.0 + 4 * sum(
        case["dur"].get(str(i), 0) for i in case["ids"]) / 1000.0))
    hung = False
    try:
        while True:
            left = deadline - time.monotonic()
            if left <= 0:
                hung = True
                break
            r, _, _ = select.select([rfd], [], [], left)
            if not r:
                hung = True
                break
            chunk = os.read(rfd, 1 << 16)
            if not chunk:
                break
            buf += chunk
    finally:
        os.close(rfd)
        try:
            os.killpg(pid, signal.SIGKILL)
        except OSError:
            pass
        try:
            os.waitpid(pid, 0)
        except OSError:
            pass
    log = []
    try:
        if os.path.exists(logpath):
            log = open(logpath).read().split("\n")
            log = [l.split(" ") for l in log if l]
    finally:
        import shutil
        shutil.rmtree(d, ignore_errors=True)
    if hung:
        res = dict(end="hang", delivered=None)
    else:
        try:
            res = pickle.loads(buf)
        except Exception as e:
            res = dict(end=["harness-exception", "no-result", repr(e)[:100]], delivered=None)
    return res, log


# ------------------------------------------------------------------------------------------------ trace -> schedule

def lean_cfg(case, rule=None):
    rule = rule or code_params()["rule"]
    calls = []
    for k in sorted(case["beh"], key=int):
        b = case["beh"][k]
        i = int(k)
        fin = ["val", i * 7 + 1] if b["k"] == "val" else ["err", b["e"], b["e"] not in UNSENDABLE_TAGS]
        if b["k"] == "val" and b.get("shape") == "lazy" and pool_size(case) != 1:
            fin = ["err", 6, True]
        calls.append([i, [["net"]] * b.get("trans", 0) + [fin]])
    return dict(ids=case["ids"], calls=calls, net_retry=NET_RETRY, parallel=case["parallel"],
                max_tasks=case["max_tasks"], tolerate=bool(case["tolerate"]), rule=rule)


def schedule_of_trace(case, log):
    """Turn the logged events into a schedule of Pool.step plus the observation expected at each step.
    Flushes are placed as late as the observations allow, in the order the parent received the results
    (the pipe is FIFO); a worker's exit is placed just before the first read of its exit code."""
    P = pool_size(case)
    sendable = {int(k): expected_out(case, int(k))[0] == "ok" or expected_out(case, int(k))[2] for k in case["beh"]}
    # global order of receipts: G[k] = (slot, j) = j-th sendable put of that slot.  Receipts are matched to
    # puts per slot in FIFO order by id; a put that is skipped was never received (abort, loss, dead feeder).
    sched, expect, problems = [], [], []
    putseq = collections.defaultdict(list)
    for ev in log:
        if ev[0] == "P" and sendable.get(int(ev[2]), True):
            putseq[int(ev[1])].append(int(ev[2]))
    G = []
    ptr = collections.Counter()
    for ev in log:
        if ev[0] == "G" and ev[1] != "-":
            w, i = int(ev[1]), int(ev[2])
            p_ = ptr[w]
            while p_ < len(putseq[w]) and putseq[w][p_] != i:
                p_ += 1
            if p_ >= len(putseq[w]):
                problems.append("slot %d: received id %d that it never put" % (w, i))
                G.append((w, -1 - len(G)))
                continue
            G.append((w, p_))
            ptr[w] = p_ + 1
    gindex = {g: k for k, g in enumerate(G)}
    buf = collections.defaultdict(collections.deque)    # slot -> deque of (id, sendable, j or None)
    nput = collections.Counter()
    state = dict(gi=0)
    exited = set()
    pool = list(range(P))
    starts_seen = 0
    reads_left = 0
    parent_phase = "get"      # get | scan | after
    first_iter = True

    def emit(e, x):
        sched.append(e)
        expect.append(x)

    # unpicklable results for which the feeder thread reported an error (it then goes on); without a
    # report the feeder thread met the result while the process was exiting and ended (queues.py _feed)
    reported = collections.Counter((int(ev[1]), int(ev[2])) for ev in log if ev[0] == "D" and ev[1] != "?")

    def flush_one(w, exiting=False):
        if not buf[w]:
            problems.append("slot %d: nothing buffered to flush" % w)
            return True, None
        idv, snd, j = buf[w][0]
        if not snd and exiting and reported[(w, idv)] <= 0:
            emit("K%d" % w, [x[0] for x in buf[w]])
            buf[w].clear()
            return snd, j
        if not snd:
            reported[(w, idv)] -= 1
        buf[w].popleft()
        emit("L%d" % w, [idv, snd])
        return snd, j

    def flush_upto(k):
        while state["gi"] <= k:
            w, j = G[state["gi"]]
            while True:
                if not buf[w]:
                    problems.append("result %d of slot %d received before it was put (pipe not FIFO?)" % (j, w))
                    state["gi"] += 1
                    break
                snd, jj = flush_one(w)
                if snd:
                    if jj != j:
                        problems.append("slot %d: flush order mismatch" % w)
                    state["gi"] += 1
                    break

    def flush_all_of(w):
        while buf[w]:
            idv, snd, j = buf[w][0]
            if snd and (w, j) in gindex and gindex[(w, j)] >= state["gi"]:
                flush_upto(gindex[(w, j)])
            elif snd:
                # never received (abort / loss): in the FIFO pipe it sits behind everything that was received
                flush_upto(len(G) - 1)
                flush_one(w)
            else:
                flush_one(w, exiting=True)

    raised = bool(log) and log[-1][0] == "E" and log[-1][1] == "raised"
    last_g = max([n for n, ev in enumerate(log) if ev[0] == "G"], default=-1)
    for n_ev, ev in enumerate(log):
        if raised and n_ev > last_g and parent_phase == "after":
            break            # the parent decided to abort: workers are terminated, later worker events are moot
        k = ev[0]
        if k == "S":
            w = int(ev[1])
            starts_seen += 1
            if starts_seen <= P:
                continue
            emit("P", ["start", w])
            exited.discard(w)
        elif k == "T":
            w = int(ev[1])
            emit("T%d" % w, "stop" if ev[2] == "stop" else int(ev[2]))
        elif k == "P":
            w, i = int(ev[1]), int(ev[2])
            emit("F%d" % w, i)
            snd = sendable.get(i, True)
            if snd:
                buf[w].append((i, True, nput[w]))
                nput[w] += 1
            else:
                buf[w].append((i, False, None))
        elif k == "G":
            if not first_iter:
                emit("P", ["loop"])
            first_iter = False
            if ev[1] == "-":
                emit("P", ["get", None])
            else:
                w = int(ev[1])
                # this receipt is G[idx]; everything before it has been received already
                idx = sum(1 for e in expect if isinstance(e, list) and e and e[0] == "get" and e[1] is not None)
                flush_upto(idx)
                emit("P", ["get", int(ev[2])])
            reads_left = len(pool)
            parent_phase = "scan"
            if reads_left == 0:
                emit("P", ["scanned"])
                emit("P", None)
                parent_phase = "after"
        elif k == "X":
            if parent_phase != "scan" or reads_left <= 0:
                continue                     # exit codes read by the terminate loop after an abort
            w = int(ev[1])
            code = None if ev[2] == "None" else int(ev[2])
            if code is not None and w not in exited:
                flush_all_of(w)
                emit("X%d" % w, code)
                exited.add(w)
            emit("P", ["read", w, code])
            if code is not None and code != 9:
                if w in pool:
                    pool.remove(w)
            reads_left -= 1
            if reads_left == 0:
                emit("P", ["scanned"])
                emit("P", None)              # post: yield / break / abort, compared through the final state
                parent_phase = "after"
        # C, Y, E, D: no model event
    return sched, expect, problems


# ------------------------------------------------------------------------------------------------ runner API

_STASH = {}


def setup_worker():
    import logging
    logging.disable(logging.CRITICAL)
    try:
        import annet.parallel  # noqa
        import annet.api  # noqa
        code_params()
    except Exception:
        pass


def _key(case):
    return json.dumps(case, sort_keys=True)


_HANGS = [0]        # runs of this worker process that did not return: after a few, the check stops paying for more


def impl(case, stash=True):
    if _HANGS[0] >= 4:
        # the pool does not terminate on this code: four witnesses per worker are enough, the remaining cases of the
        # shard are not run (a check must end in minutes also when it fails)
        return dict(end="skipped-after-hangs", delivered=None, diag={})
    res, log = run_isolated(case)
    if res.get("end") == "hang":
        _HANGS[0] += 1
    out = dict(end=res["end"], delivered=res.get("delivered"))
    if case["api"] == "run" and "success" in res:
        out["success"] = res["success"]
        out["fail"] = res["fail"]
    out["diag"] = diagnose(case, log)
    if case["kind"] == "trace":
        sched, expect, problems = schedule_of_trace(case, log)
        out["trace"] = "valid"
        if stash:
            _stash_put(case, dict(sched=sched, expect=expect, problems=problems, diag=out["diag"]))
    elif stash:
        _stash_put(case, dict(diag=out["diag"], delivered=out["delivered"], end=out["end"]))
    return out


def _stash_put(case, v):
    # identical cases may occur twice in one batch: impl/requests run per case, model() later in the same order
    _STASH.setdefault(_key(case), collections.deque()).append(v)


def diagnose(case, log):
    """facts about the receipts and the parent's last get, used only to classify a loss (signature)"""
    d = dict(last_get=None, received_not_yielded=[], put_not_received=[], behind_unpicklable=[])
    gets = [ev for ev in log if ev[0] == "G"]
    if gets:
        d["last_get"] = "timeout" if gets[-1][1] == "-" else "result"
    got = collections.Counter(int(ev[2]) for ev in gets if ev[1] != "-")
    yielded = collections.Counter(int(ev[1]) for ev in log if ev[0] == "Y")
    puts = [ev for ev in log if ev[0] == "P"]
    d["received_not_yielded"] = sorted((got - yielded).elements())
    d["put_not_received"] = sorted((collections.Counter(int(ev[2]) for ev in puts) - got).elements())
    # results buffered in one worker process behind an unpicklable one
    bad_pid = set()
    for ev in puts:
        i, pid = int(ev[2]), ev[3] if len(ev) > 3 else "?"
        o = expected_out(case, i) if str(i) in case["beh"] else ["ok", 0]
        if o[0] == "exc" and not o[2]:
            bad_pid.add(pid)
        elif pid in bad_pid:
            d["behind_unpicklable"].append(i)
    d["behind_unpicklable"].sort()
    return d


def requests(case):
    q = _STASH.get(_key(case))
    if not q or case.get("progress_missing"):
        return []
    st = q[-1]
    cfg = lean_cfg(case)
    if case["kind"] == "trace":
        return [dict(op="c12.replay", cfg=cfg, events=st["sched"])]
    rq = []
    if pool_size(case) == 1:
        rq.append(dict(op="c12.single", cfg=cfg))
    if case["api"] == "run" and st["delivered"] is not None:
        seq = [x for x in st["delivered"] if x[1][0] in ("ok", "exc")]
        rq.append(dict(op="c12.run", delivered=seq, strict=bool(case["strict"])))
    if not rq:
        q.pop()
    return rq


def model(case, resp):
    st = _STASH[_key(case)].popleft()
    if case.get("progress_missing"):
        return {"skip": True}      # the callback's KeyError is outside the pool model; the oracle judges these runs
    for r in resp:
        if "fail" in r and len(r) == 1:
            return {"driver-fail": r["fail"]}
    if case["kind"] == "trace":
        r = resp[0]
        sched, expect, problems = st["sched"], st["expect"], st["problems"]
        out = dict(delivered=r["delivered"], trace="valid", diag=st["diag"])
        if r["pc"] == "done":
            out["end"] = "done"
        elif r["pc"] == "aborted":
            last = None
            for o in r["obs"]:
                if isinstance(o, list) and o and o[0] == "get":
                    last = o[1]
            out["end"] = ["raised", [last, expected_out(case, last)] if last is not None else None]
        else:
            out["end"] = "model-not-terminal:" + r["pc"]
        bad = list(problems)
        if not r["accepted"]:
            bad.append("event %d (%s) not enabled in the model" % (r["steps"], sched[r["steps"]] if r["steps"] < len(sched) else "?"))
        for n, (o, x) in enumerate(zip(r["obs"], expect)):
            if x is not None and o != x:
                bad.append("step %d %s: model observes %s, trace says %s" % (n, sched[n], json.dumps(o), json.dumps(x)))
                break
        if bad:
            out["trace"] = bad[:3]
        return out
    # untraced kinds.  What is compared: the single-process sequence (Pool.single) and Parallel.run's
    # dictionaries (Pool.run applied to the sequence irun yielded).  The multiset delivered by an untraced
    # pool run is the oracle's business.
    out = dict(end=st["end"], delivered=st["delivered"], diag=st["diag"])
    k = 0
    if pool_size(case) == 1:
        r = resp[k]
        k += 1
        out["delivered"] = r["delivered"]
        out["end"] = "done"
        if r["raised"]:
            first = [i for i in case["ids"] if expected_out(case, i)[0] == "exc"][0]
            out["end"] = ["raised", [first, expected_out(case, first)]]
    if case["api"] == "run" and st["delivered"] is not None:
        r = resp[k]
        if isinstance(out["end"], list) and out["end"][0] == "raised":
            pass
        elif "err" in r:
            out["end"] = ["RuntimeError", "failed for %d/%d devices" % (r["nfail"], len(case["ids"]))]
        else:
            out["end"] = "done"
            out["success"] = [[i, ["ok", v]] for i, v in r["success"]]
            out["fail"] = [[i, ["exc", v, v not in UNSENDABLE_TAGS]] for i, v in r["fail"]]
    return out


def oracle(case, r):
    """the property itself on the real code's result"""
    out = []
    ids = case["ids"]
    exp = {i: expected_out(case, i) for i in set(ids)}
    raising = [i for i in ids if exp[i][0] == "exc"]
    end = r.get("end")
    if end == "skipped-after-hangs":
        return []
    if end == "hang":
        return [dict(sig="no-termination", what="irun/run did not return within the time budget (n=%d, parallel=%d)" % (len(ids), case["parallel"]))]
    if isinstance(end, list) and end[0] == "harness-exception":
        return [dict(sig="unexpected-exception:" + str(end[1]), what="the pool run raised %s: %s" % (end[1], end[2]))]
    delivered = r.get("delivered")
    if delivered is None:
        return [dict(sig="bad-end", what="no result from the run: %r" % (end,))]
    if case.get("progress_missing"):
        # the host map of the progress callback misses some ids: whatever the callback does with them (today: KeyError,
        # the pool files the id as failed), every submitted id must still come out exactly once
        got = collections.Counter(x[0] for x in delivered)
        if got != collections.Counter(ids):
            lost = sorted((collections.Counter(ids) - got).elements())
            return [dict(sig="result-lost-by-progress-callback", what="ids %r (not listed in the PoolProgressLogger host map: %r) "
                         "were submitted and never delivered; delivered ids %r" % (lost, case["progress_missing"], sorted(got.elements())))]
        return []
    want_all = collections.Counter(json.dumps([i, exp[i]]) for i in ids)
    have = collections.Counter(json.dumps(x) for x in delivered)
    if isinstance(end, list) and end[0] == "RuntimeError":
        # Parallel.run(strict_error_code=True) raises after everything was collected, exactly when some id failed
        if not (case["api"] == "run" and case["strict"] and raising):
            return [dict(sig="unexpected-runtime-error", what="run raised RuntimeError %r without a failed id" % (end[1],))]
        if end[1] != "failed for %d/%d devices" % (len(set(raising)), len(ids)):
            out.append(dict(sig="wrong-fail-count", what="run raised %r, %d ids fail" % (end[1], len(set(raising)))))
        end = "done"
    if isinstance(end, list) and end[0] == "raised":
        who = end[1]
        ok_abort = ((not case["tolerate"]) and who is not None and who[0] in raising and who[1] == exp[who[0]]
                    and not (have - want_all))
        if ok_abort:
            return [dict(sig="abort-on-first-failure:tolerate_fails=False",
                         what="by design: with tolerate_fails=False the first failed task aborts the run "
                              "(its exception is raised, remaining ids are not delivered)")]
        return [dict(sig="unexpected-raise", what="irun raised %s (tolerate_fails=%s), delivered %s" % (
            json.dumps(who), case["tolerate"], json.dumps(delivered)[:200]))]
    if end != "done":
        return [dict(sig="bad-end", what="unexpected end %r" % (end,))]
    if case["api"] == "run" and "success" in r:
        # the dictionaries must hold exactly what irun yielded, each id under its own outcome
        filed = collections.Counter(json.dumps(x) for x in r["success"] + r["fail"])
        if filed != collections.Counter(json.dumps(x) for x in dict((x[0], x) for x in delivered).values()):
            out.append(dict(sig="run-dicts-differ-from-irun", what="run() returned %s / %s for the irun sequence %s" % (
                json.dumps(r["success"])[:100], json.dumps(r["fail"])[:100], json.dumps(delivered)[:100])))
        for i, o in r["success"]:
            if o[0] != "ok":
                out.append(dict(sig="run-misfiled", what="id %d filed under success with %s" % (i, o)))
        for i, o in r["fail"]:
            if o[0] == "ok":
                out.append(dict(sig="run-misfiled", what="id %d filed under fail with %s" % (i, o)))
    if have == want_all:
        return out
    idw = collections.Counter(ids)
    idg = collections.Counter(x[0] for x in delivered)
    missing = sorted((idw - idg).elements())
    extra = sorted((idg - idw).elements())
    if extra:
        out.append(dict(sig="duplicate-or-foreign-results", what="ids delivered more often than submitted: %s" % extra[:10]))
    wrong = [json.loads(x) for x in (have - want_all) if json.loads(x)[0] not in extra]
    if wrong:
        out.append(dict(sig="wrong-payload", what="payload differs from f(id): %s" % wrong[:5]))
    if missing:
        diag = r.get("diag") or {}
        multi = pool_size(case) != 1
        unsend = [i for i in missing if exp[i][0] == "exc" and not exp[i][2] and multi]
        behind = list((collections.Counter(i for i in missing if i not in unsend)
                       & collections.Counter(diag.get("behind_unpicklable", []))).elements()) if multi else []
        rest = list((collections.Counter(missing) - collections.Counter(unsend) - collections.Counter(behind)).elements())
        if unsend or behind:
            out.append(dict(sig="lost-result:unpicklable-exception-class",
                            what="task raised an exception whose class cannot be pickled; the worker's PickleSafeException "
                                 "is dropped by the queue feeder: id(s) %s get no outcome%s" % (
                                     unsend[:10], (", and results buffered behind it in the same exiting worker are lost too: %s"
                                                   % behind[:10]) if behind else "")))
        if rest:
            if (multi and diag.get("last_get") == "timeout" and not diag.get("received_not_yielded")
                    and not (collections.Counter(rest) - collections.Counter(diag.get("put_not_received", [])))):
                out.append(dict(sig="lost-results:put-between-timed-out-get-and-check_children",
                                what="irun left its loop although results were still to come: the last get timed out, then "
                                     "the remaining workers put %s and exited before _check_children read their exit codes "
                                     % rest[:10]))
            else:
                out.append(dict(sig="lost-results", what="%d of %d submitted ids got no outcome: %s (n=%d parallel=%d max_tasks=%d; %s)" % (
                    len(rest), len(ids), rest[:10], len(ids), case["parallel"], case["max_tasks"],
                    "last get: %s, received but not yielded: %s" % (diag.get("last_get"), diag.get("received_not_yielded")))))
    return out


def _explore_cfg(n, par, mt, tol, exc, rule):
    return dict(ids=list(range(n)), calls=[[i, [["err", 1, True]] if i in exc else [["val", i * 7 + 1]]] for i in range(n)],
                net_retry=NET_RETRY, parallel=par, max_tasks=mt, tolerate=tol, rule=rule)


def extra(tier, seed, ctx):
    """Bounded exhaustive exploration of the compiled transition system (every schedule of small
    configurations): cross-checks the theorems against the compiled definitions and counts the schedules on
    which the code's exit rule loses results."""
    from harness.core import bridge
    if not ctx["P"]["driver_ok"]:
        return {}
    head = code_params()["rule"]
    grid = []
    sizes = [(0, 2), (1, 2), (2, 2), (3, 2), (2, 3)] if tier == "quick" else \
        [(0, 2), (1, 2), (2, 2), (3, 2), (4, 2), (2, 3), (3, 3), (2, 4)]
    for (n, par) in sizes:
        for mt in ((1, 25) if tier == "quick" else (1, 2, 25)):
            for tol, exc in ((True, ()), (True, (0,)), (False, ())):
                if exc and n == 0:
                    continue
                grid.append((n, par, mt, tol, exc))
    reqs, meta = [], []
    limit = 400000 if tier == "quick" else 3000000
    for g in grid:
        for rule, atomic in ((head, True), ("drained", False), (head, False), ("old", True)):
            reqs.append(dict(op="c12.explore", cfg=_explore_cfg(*g, rule), atomic=atomic, limit=limit))
            meta.append((g, rule, atomic))
    resp = bridge.run_requests(reqs)
    fails, states, lossy, complete = [], 0, 0, 0
    for (g, rule, atomic), r in zip(meta, resp):
        if "states" not in r:
            fails.append("explore failed on %s: %s" % ((g, rule, atomic), r))
            continue
        states += r["states"]
        if r["truncated"]:
            continue
        complete += 1
        if r["deadlocks"]:
            fails.append("compiled model deadlocks (non-terminal state without enabled event): cfg %s rule %s" % (g, rule))
        must_hold = (rule == "drained" and not atomic) or (rule == "head" and atomic)
        if must_hold and r["bad_terminal"]:
            fails.append("compiled model contradicts the exactly-once theorem: cfg %s rule %s atomic %s schedule %s" % (
                g, rule, atomic, " ".join(r["witness"] or [])))
        if rule == head and not atomic and r["bad_terminal"]:
            lossy += 1
    return dict(violations=[], tie_failures=fails, evaluations=0,
                coverage=dict(explored_states=states, explored_configs_complete=complete,
                              explored_configs_total=len(reqs), configs_where_code_rule_loses_under_some_schedule=lossy))


def nontrivial(case, r):
    return len(case["ids"]) >= 2 and pool_size(case) >= 2


def stats(case, r):
    n = len(case["ids"])
    lab = ["kind=" + case["kind"], "api=" + case["api"],
           "n=%s" % (n if n <= 3 else "4-10" if n <= 10 else "11-25" if n <= 25 else "26-40"),
           "pool=%d" % pool_size(case), "tolerate=%d" % int(case["tolerate"]),
           "max_tasks=%s" % (case["max_tasks"] if case["max_tasks"] <= 3 else "4+")]
    nr = sum(1 for i in case["ids"] if expected_out(case, i)[0] == "exc")
    lab.append("raising=%s" % ("0" if nr == 0 else "all" if nr == n else "some"))
    end = r.get("end")
    lab.append("end=%s" % (end if isinstance(end, str) else end[0]))
    if case.get("cons"):
        lab.append("slow-consumer")
    if case.get("pause"):
        lab.append("pause-before-check")
    if n > case["max_tasks"] * max(1, pool_size(case)) and case["max_tasks"]:
        lab.append("retirement-needed")
    if len(set(case["ids"])) < n:
        lab.append("duplicate-ids")
    if case.get("warm"):
        lab.append("second-run-on-same-Parallel-object")
    if case.get("progress_missing"):
        lab.append("progress-map-misses-ids")
    if any(b.get("trans") for b in case["beh"].values()):
        lab.append("transient-net-errors")
    d = r.get("diag") or {}
    if pool_size(case) != 1:
        lab.append("last-get=%s" % d.get("last_get"))
    return lab


def _sigs(case):
    try:
        r = json.loads(json.dumps(impl(case, stash=False), sort_keys=True))
        return set(v["sig"] for v in oracle(case, r))
    except Exception:
        return set()


def _raw_candidates(case):
    ids = case["ids"]
    n = len(ids)

    def variant(**kw):
        c = json.loads(json.dumps(case))
        c.update(kw)
        keep = set(str(i) for i in c["ids"])
        c["beh"] = {k: v for k, v in c["beh"].items() if k in keep}
        c["dur"] = {k: v for k, v in c["dur"].items() if k in keep}
        return c
    # schedule-robust variants first: untouched timing, a caller that sleeps 300 ms per result / no delays at all
    small = ids[:6]
    base = dict(kind="plain", api="irun", strict=False, ids=small, parallel=max(2, min(case["parallel"], 3)),
                cb=0, itcb=0, dur={}, progress_cb=False)
    if n >= 2:
        yield variant(cons=300, **base)
        yield variant(cons=0, **base)
    if n > 2:
        yield variant(ids=ids[:n // 2])
        yield variant(ids=ids[:-1])
    if case["parallel"] > 2:
        yield variant(parallel=case["parallel"] - 1)
    for f in ("cb", "itcb", "cons"):
        if case.get(f):
            yield variant(**{f: 0})
    if case["dur"]:
        yield variant(dur={})


def shrink_candidates(case):
    """smaller / more schedule-robust cases; a candidate is offered only if it fails twice in a row with one of
    the signatures the case itself shows (the runner then runs it a third time), so that the replay file written at
    the end reproduces"""
    want = _sigs(case)
    if not want:
        return
    seen = {json.dumps(case, sort_keys=True)}
    for c in _raw_candidates(case):
        k = json.dumps(c, sort_keys=True)
        if k in seen:
            continue
        seen.add(k)
        if (_sigs(c) & want) and (_sigs(c) & want):
            yield c


def search(case):
    rng = random.Random(len(json.dumps(case)))
    for _ in range(10):
        c = json.loads(json.dumps(case))
        c["cons"] = rng.choice([0, 10, 40])
        if c["kind"] == "trace":
            c["gt"] = rng.choice([5, 20, 60])
            c["pause"] = rng.choice([0, 30, 100])
        yield c
