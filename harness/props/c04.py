"""C04 — vendor text <-> config tree round trip, all 14 registered vendors.

impl   : registry_connector.get()[vendor].make_formatter(indent=…).join / .split and
         annet.annlib.tabparser.parse_to_tree (what `annet gen` prints and what every reader parses)
model  : Annet.FormatSplit.join / split / parse (lean/AnnetModel/Model/FormatSplit.lean) through c04.tree / c04.text
oracle : parse(join(t)) == t and join(parse(join(t))) == join(t) on the real code, for t in the vendor's
         well-formed domain (in_domain below: the twin of the Lean predicates `WF…` of Props/C04.lean)
"""
import itertools
import os
import random
import re

ID = "C04"
RULE = ("cases = (vendor, indent kwarg, tree) or (vendor, indent kwarg, device-like text); trees: seeded random "
        "well-formed trees (depth<=5, vendor word pools, unique siblings; RouterOS: sections then leaves), a "
        "malformed stream (delimiter words, blanks, tabs, comments, braces, newlines in rows, odd indents), "
        "device-style renderings (exit-address-family, end-policy, #, braces, configure{} wrapper, /path lines), "
        "the before/after texts of tests/annet/test_patch/*.yaml, and every tree with <=3 nodes over a 6-row "
        "alphabet per vendor (quick; + 4 nodes over 4 rows per formatter class), <=4 nodes over 6 rows per vendor "
        "and 5 nodes over 6 rows per formatter class (thorough); non-trivial = at least 3 rows and nesting; distinct = distinct case")
TRUSTED_BASE = [
    "Lean 4.33 kernel; axioms per theorem are listed in axioms_per_theorem (subset of propext, Classical.choice, Quot.sound)",
    "correspondence harness harness/props/c04.py + compiled Lean driver evaluating Model/FormatSplit.lean and Model/Offside.lean",
    "Python twin `in_domain` of the Lean well-formedness predicates (oracle domain)",
    "CPython `re` semantics of the six regexes in tabparser.py, re-stated as list functions in the model and validated by the correspondence",
]
ASSUMPTIONS = [
    "Juniper-family comment rows (`/* … */`, Comment.loads/json) and RouterOS `/file`, `/user ssh-keys` post-processors are not modelled (cases reaching them are skipped on the model side, still checked by the oracle when in domain)",
    "rows never contain U+0085/U+2028/U+2029 (line protocol); str.isspace table = pyIsSpace",
]
EXHAUSTIVE = {"quick": False, "thorough": True}

VENDORS = ["huawei", "h3c", "optixtrans", "cisco", "nexus", "iosxr", "arista", "aruba", "b4com",
           "juniper", "ribbon", "nokia", "routeros", "pc"]
CLASS = {"huawei": "huawei", "h3c": "huawei", "optixtrans": "common", "pc": "common", "cisco": "cisco",
         "nexus": "nexus", "arista": "nexus", "aruba": "nexus", "b4com": "nexus", "iosxr": "asr",
         "juniper": "juniper", "ribbon": "juniper", "nokia": "nokia", "routeros": "ros"}
JUN = ("juniper", "nokia")
MAXDEPTH = 5

_FMT = {}


def setup_worker():
    pass


def _formatter(vendor, indent):
    key = (vendor, indent)
    if key not in _FMT:
        from annet.vendors import registry_connector
        kw = {} if indent is None else {"indent": indent}
        _FMT[key] = registry_connector.get()[vendor].make_formatter(**kw)
    return _FMT[key]


# ------------------------------------------------------------------ trees
def _mk(t):
    from collections import OrderedDict
    return OrderedDict((k, _mk(v)) for k, v in t)


def _un(d):
    return [[k, _un(v)] for k, v in d.items()]


def _depth(t):
    return 1 + max([_depth(c) for _, c in t], default=0) if t else 0


def _nodes(t):
    return sum(1 + _nodes(c) for _, c in t)


def _rows(t):
    for k, c in t:
        yield k
        yield from _rows(c)


W_GEN = ["interface", "GigabitEthernet0/0/1", "Eth-Trunk1", "description", "uplink", "ip", "address", "10.0.0.1",
         "255.255.255.0", "vlan", "100", "bgp", "65000", "peer", "as-number", "router", "neighbor", "remote-as",
         "mtu", "9000", "shutdown", "undo", "no", "ipv4", "unicast", "vrf", "MGMT", "route-policy", "IN", "permit",
         "node", "10", "acl", "rule", "5", "x", "a", "b", "ipv6", "vpn-instance", "if", "then", "else", "in",
         "prefix-set", "P1", "xpl", "route-filter", "apply", "pass", "exit-ish", "end", "family"]
W_JUN = ["system", "host-name", "r1", "interfaces", "ge-0/0/0", "unit", "0", "family", "inet", "address",
         "10.0.0.1/24", "protocols", "bgp", "group", "IBGP", "[", "a", "b", "]", "policy-options", "term", "t1",
         "from", "then", "accept", "apply-groups", "inactive:", "neighbor", "description", "\"up link\"", "x",
         "admin-state", "enable", "router", "Base", "port", "1/1/1", "#1", "a#b"]
ROS_SECT = ["ip", "address", "user", "group", "interface", "bridge", "port", "system", "identity", "snmp",
            "routing", "bgp", "peer", "aaa", "firewall", "filter", "x", "a", "b"]
ROS_LEAF = ["add address=10.0.0.1/24 interface=ether1", "set name=router", "add name=x group=full",
            "set enabled=yes", "add chain=input action=accept", "set [ find default=yes ] disabled=no",
            "add name=br1", "set accounting=yes", "r0", "r1", "add bridge=br1 interface=ether2",
            "set contact=\"a b\"", "add comment=x", "print"]


# delimiter words in positions where they do NOT delimit (all inside the domain)
W_NEAR = {
    "huawei": ["x end-list", "my endif", "no end-filter", "undo quit", "quit x", "return x"],
    "asr": ["end-set x", "endif y", "end-policy z", "append-set a", "no exit", "if endif x"],
    "cisco": ["no exit", "exit x", "x address-family ipv4", "exit-address-family x", "no address-family"],
    "nexus": ["exit", "no exit", "end", "exit x"],
    "common": ["exit", "quit", "end", "return"],
    "juniper": ["exit", "a#b c", "x ## y", "a ;b", "configure", "x /*y"],
    "nokia": ["exit", "a#b c", "x configure", "configure x", "a ##b"],
}


def _row(rng, vendor, cls, used):
    for _ in range(20):
        if rng.random() < 0.05 and cls in W_NEAR:
            r = rng.choice(W_NEAR[cls])
            if _row_ok(cls, r) and r not in used:
                used.add(r)
                return r
        if cls in JUN:
            r = " ".join(rng.choice(W_JUN) for _ in range(rng.randint(1, 4)))
        else:
            ws = [rng.choice(W_GEN) for _ in range(rng.randint(1, 4))]
            if cls in ("cisco", "nexus", "asr") and rng.random() < 0.12:
                ws[0] = "address-family"
            r = " ".join(ws)
        if r not in used and r[0] not in "!#":
            used.add(r)
            return r
    r = "u%d" % len(used)
    used.add(r)
    return r


def _wf_tree(rng, vendor, depth=1, maxdepth=MAXDEPTH, nested_ros=0.25):
    cls = CLASS[vendor]
    if cls == "ros":
        return _ros_tree(rng, 1, maxdepth, nested_ros)
    out, used = [], set()
    for _ in range(rng.choice([1, 1, 2, 2, 3, 4])):
        row = _row(rng, vendor, cls, used)
        kids = []
        if depth < maxdepth and rng.random() < (0.55 if depth < 3 else 0.35):
            kids = _wf_tree(rng, vendor, depth + 1, maxdepth)
        out.append([row, kids])
    return out


def _ros_tree(rng, depth, maxdepth, nested):
    """sections: single words with children; inside a section: leaves first, then sub-sections"""
    out, used = [], set()
    for _ in range(rng.choice([1, 1, 2, 3])):
        w = rng.choice(ROS_SECT)
        if w in used:
            continue
        used.add(w)
        kids = []
        for _ in range(rng.choice([0, 1, 1, 2, 3])):
            l = rng.choice(ROS_LEAF)
            if l not in used:
                used.add(l)
                kids.append([l, []])
        if depth + 1 < maxdepth and rng.random() < nested:
            kids.extend(_ros_tree(rng, depth + 1, maxdepth, nested))
        if not kids:
            kids.append(["r0", []])
        out.append([w, kids])
    return out


BAD_ROWS = ["", " ", "a  b", "a   b c", " a", "a ", "\ta", "a\tb", "!c", "#c", "a\nb", "a\n  b", "a\r", "\xa0a",
            "a b", "a   b", "exit", "quit", "endif", "end-list", "end-filter x", "x end-set", "x endif",
            "end-policy", "exit-address-family", "address-family ipv4", "address-family", "configure", "{", "}",
            "a {", "a }", "a;", "a; ## c", "a ; ##", "a { }", "a {  }", "/* c */", "/*c", "a */", "/* {\"row\": \"a\", "
            "\"comment\": \"c\"} */", "/ip", "/ip address", "a/b", "file", "ssh-keys", "user ssh-keys", "a ##",
            "a {\t# x", "}\t# y", "a }\t# y", "## x", "; ##", "a\t# b", "a  ", "  a  b  ", "x  \ty", "a\x1cb",
            "a; # SECRET-DATA", ";", "a;;", "a {;", "é ü", "a\x0bb", "configure x", "if x then", "xpl route-filter f",
            "exit ", "a #b", "a !b"]
ODD_INDENTS = ["", "\t", " \t", "x", "--", "     "]


def _mal_tree(rng, vendor):
    t = _wf_tree(rng, vendor, maxdepth=rng.choice([2, 3, 4, 6]))
    if CLASS[vendor] == "ros" and rng.random() < 0.5:
        t = _wf_tree(rng, "huawei", maxdepth=3) + (t if rng.random() < 0.5 else [])
        rng.shuffle(t)

    def mutate(tr):
        out, used = [], set()
        for k, c in tr:
            if rng.random() < 0.25:
                k = rng.choice(BAD_ROWS)
            if k in used:
                continue
            used.add(k)
            out.append([k, mutate(c)])
        return out
    return mutate(t)


# ------------------------------------------------------------------ device-style texts
def _device_text(rng, vendor):
    cls = CLASS[vendor]
    t = _wf_tree(rng, vendor, maxdepth=4, nested_ros=0.6)
    lines = []
    if cls == "ros":
        if rng.random() < 0.5:
            lines.append("# jan/02/1970 by RouterOS 6.45")

        def walk(tr, path):
            leaves = [k for k, c in tr if not c]
            if path and leaves:
                lines.append("/" + " ".join(path))
                lines.extend((" " * rng.choice([0, 0, 4])) + l for l in leaves)
            for k, c in tr:
                if c:
                    walk(c, path + [k])
        walk(t, [])
        return "\n".join(lines)
    if cls in JUN:
        unit = rng.choice([4, 4, 2])
        end = "" if cls == "nokia" and rng.random() < 0.8 else ";"

        def walkj(tr, d):
            for k, c in tr:
                if rng.random() < 0.05:
                    lines.append(" " * (unit * d) + "/* note %d */" % d)
                if c:
                    lines.append(" " * (unit * d) + k + " {" + ("\t# cmt" if rng.random() < 0.05 else ""))
                    walkj(c, d + 1)
                    lines.append(" " * (unit * d) + "}")
                elif rng.random() < 0.05:
                    lines.append(" " * (unit * d) + k + " { }")
                else:
                    lines.append(" " * (unit * d) + k + end + (" ## SECRET-DATA" if end and rng.random() < 0.1 else ""))
        if cls == "nokia" and rng.random() < 0.7:
            if rng.random() < 0.5:
                lines.append("# TiMOS-C-20.10.R1")
            lines.append("configure {")
            walkj(t, 1)
            lines.append("}")
            if rng.random() < 0.4:
                lines.append("persistent-indices {")
                lines.append("    description \"x\"")
                lines.append("}")
        else:
            walkj(t, 0)
        return "\n".join(lines)
    unit = rng.choice([1, 1, 2, 3])
    off = rng.choice([0, 0, 0, 1])

    af_style = rng.choice(["flat", "flat", "nested", "device"])

    def walki(tr, d, flat=0):
        """cisco address-family sections: `flat` = the way the formatter expects a device to print them (body and
        exit-address-family at the indent of the address-family line), `nested` = the way annet prints a parsed
        config (body and exit one level deeper), `device` = IOS style (body deeper, exit at the line's indent)"""
        for k, c in tr:
            ind = " " * (off + unit * (d - flat))
            row = k.replace(" ", "  ", 1) if rng.random() < 0.1 else k
            lines.append(ind + row + (" " if rng.random() < 0.03 else ""))
            af = cls == "cisco" and k.startswith("address-family") and rng.random() < 0.9
            if c:
                walki(c, d + 1, flat + (1 if af and af_style == "flat" else 0))
            if af:
                lines.append((ind + " " * unit if af_style == "nested" else ind) + "exit-address-family")
            if cls == "asr" and c:
                if k.startswith("route-policy"):
                    lines.append(ind + "end-policy")
                elif k.startswith("if") and k.endswith("then"):
                    lines.append(ind + "endif")
                elif k.startswith("prefix-set"):
                    lines.append(ind + "end-set")
            if cls == "huawei" and c and k.startswith("xpl"):
                lines.append(ind + ("end-filter" if k.startswith("xpl route-filter") else "end-list"))
            if d == 0 and rng.random() < 0.3:
                lines.append({"huawei": "#", "common": "#"}.get(cls, "!"))
            elif rng.random() < 0.05:
                lines.append(ind + "!")
    walki(t, 0)
    if rng.random() < 0.2:
        lines.append("")
    if cls == "huawei" and rng.random() < 0.5:
        lines.append("return")
    return "\n".join(lines)


def _sample_texts():
    """before/after device texts of the repo's patch samples (real-looking configs of 9 vendors)"""
    from harness.core.paths import REPO
    d = os.path.join(REPO, "tests", "annet", "test_patch")
    out = []
    try:
        import yaml
        names = sorted(os.listdir(d))
    except Exception:
        return out
    vmap = {"asr": "iosxr", "huawei ce": "huawei"}
    for fn in names:
        if not fn.endswith(".yaml"):
            continue
        try:
            data = yaml.load(open(os.path.join(d, fn), encoding="utf-8"), Loader=yaml.BaseLoader)
        except Exception:
            continue
        for s in (data if isinstance(data, list) else [data]):
            if not isinstance(s, dict):
                continue
            v = str(s.get("vendor", "huawei")).lower()
            v = vmap.get(v, v)
            if v not in VENDORS:
                continue
            for k in ("before", "after"):
                txt = s.get(k)
                if isinstance(txt, str) and not any(c in txt for c in "\x85\u2028\u2029"):
                    out.append((v, txt))
    return out


# ------------------------------------------------------------------ exhaustive small trees
def _small_alphabet(vendor):
    cls = CLASS[vendor]
    if cls == "ros":
        return None
    if cls == "cisco":
        return ["a", "b c", "address-family ipv4", "interface x", "no a", "vrf y"]
    if cls in JUN:
        return ["a", "b c", "[ a b ]", "x/1", "set y", "unit 0"]
    if cls == "asr":
        return ["a", "b c", "route-policy P", "if a then", "address-family ipv4", "pass"]
    if cls == "huawei":
        return ["a", "b c", "xpl route-filter f", "if a then", "undo a", "peer x"]
    return ["a", "b c", "d", "no a", "x y z", "e"]


def _forests(n, alpha):
    """all ordered forests with n nodes, sibling rows distinct, rows from alpha"""
    if n == 0:
        yield []
        return
    # first tree has k nodes (root + forest of k-1), rest forest has n-k
    for k in range(1, n + 1):
        for sub in _forests(k - 1, alpha):
            for rest in _forests(n - k, alpha):
                used = {r for r, _ in rest}
                for a in alpha:
                    if a not in used:
                        yield [[a, sub]] + rest


def _ros_small():
    sect = ["ip", "a", "user"]
    leaf = ["r0", "add x=1"]
    # one or two top-level sections, each: leaves and at most one sub-section (which has leaves / one more level)
    def section_bodies(depth):
        for nl in (0, 1, 2):
            for ls in itertools.permutations(leaf, nl):
                base = [[l, []] for l in ls]
                if base:
                    yield base
                if depth < 3:
                    for w in sect:
                        for b in section_bodies(depth + 1):
                            # the sub-section after, before and between the section's own rows (a device export lists
                            # `/user group` before the rows of `/user`)
                            for pos in range(len(base), -1, -1):
                                yield base[:pos] + [[w, b]] + base[pos:]
    bodies = list(section_bodies(1))
    for b in bodies:
        yield [["ip", b]]
    for b1 in bodies[:12]:
        for b2 in bodies[:12]:
            yield [["ip", b1], ["user", b2]]


# ------------------------------------------------------------------ shards / gen
def shards(tier, seed):
    out = []
    if tier == "quick":
        n_wf, n_mal, n_txt = 3000, 1200, 600
        reps = 1
    else:
        n_wf, n_mal, n_txt = 6000, 2500, 1200
        reps = 4
    for v in VENDORS:
        for r in range(reps):
            out.append(dict(kind="wf", vendor=v, seed=seed * 1000 + r, n=n_wf))
            out.append(dict(kind="mal", vendor=v, seed=seed * 1000 + 100 + r, n=n_mal))
            out.append(dict(kind="text", vendor=v, seed=seed * 1000 + 200 + r, n=n_txt))
    out.append(dict(kind="samples"))
    reps_of_class = ["huawei", "optixtrans", "cisco", "nexus", "iosxr", "juniper", "nokia"]
    for v in VENDORS:
        if CLASS[v] == "ros":
            out.append(dict(kind="exh-ros", vendor=v, limit=None if tier == "thorough" else 1200))
        elif tier == "thorough":
            for first in range(6):
                out.append(dict(kind="exh", vendor=v, minnodes=0, maxnodes=4, alpha=6, first=first))
            if v in reps_of_class:
                for first in range(6):
                    out.append(dict(kind="exh", vendor=v, minnodes=5, maxnodes=5, alpha=6, first=first))
        else:
            out.append(dict(kind="exh", vendor=v, minnodes=0, maxnodes=3, alpha=6, first=None))
            if v in reps_of_class:
                out.append(dict(kind="exh", vendor=v, minnodes=4, maxnodes=4, alpha=4, first=None))
    return out


def _indent_choice(rng, odd=False):
    if odd and rng.random() < 0.3:
        return rng.choice(ODD_INDENTS)
    return rng.choice([None, None, "  ", "  ", "  ", " ", "    ", "   "])


def gen(desc):
    kind = desc["kind"]
    if kind in ("wf", "mal", "text"):
        v = desc["vendor"]
        rng = random.Random("%s-%s-%d" % (kind, v, desc["seed"]))
        for _ in range(desc["n"]):
            if kind == "wf":
                yield dict(vendor=v, indent=_indent_choice(rng), tree=_wf_tree(rng, v))
            elif kind == "mal":
                yield dict(vendor=v, indent=_indent_choice(rng, odd=True), tree=_mal_tree(rng, v))
            else:
                yield dict(vendor=v, indent=_indent_choice(rng), text=_device_text(rng, v))
    elif kind == "samples":
        for v, txt in _sample_texts():
            yield dict(vendor=v, indent=None, text=txt)
            yield dict(vendor=v, indent="  ", text=txt)
    elif kind == "exh":
        v = desc["vendor"]
        alpha = _small_alphabet(v)[:desc["alpha"]]
        for n in range(desc["minnodes"], desc["maxnodes"] + 1):
            for t in _forests(n, alpha):
                if desc["first"] is not None:
                    if n == 0:
                        if desc["first"] != 0:
                            continue
                    elif t[0][0] != alpha[desc["first"]]:
                        continue
                yield dict(vendor=v, indent="  ", tree=t)
    elif kind == "exh-ros":
        for i, t in enumerate(_ros_small()):
            if desc.get("limit") is not None and i >= desc["limit"]:
                break
            yield dict(vendor=desc["vendor"], indent="  ", tree=t)


# ------------------------------------------------------------------ impl
def _err(e):
    from annet.annlib import tabparser
    if isinstance(e, tabparser.ParserError):
        m = re.search(r"line (\d+):", str(e))
        return {"err": "ParserError", "line": int(m.group(1)) if m else -1}
    return {"err": type(e).__name__}


def _parse_fields(f, text):
    from annet.annlib import tabparser
    out = {}
    try:
        out["lines"] = list(f.split(text))
    except Exception as e:  # noqa
        return {"lines": _err(e), "parse": _err(e)}, None
    try:
        t = tabparser.parse_to_tree(text, f.split)
    except Exception as e:  # noqa
        out["parse"] = _err(e)
        return out, None
    out["parse"] = {"ok": _un(t)}
    return out, t


def _cycle(f, tree):
    try:
        s = f.join(tree)
    except Exception as e:  # noqa
        return {"join": _err(e)}
    out = {"join": s}
    fields, t = _parse_fields(f, s)
    out.update(fields)
    if t is None:
        out["rejoin"] = None
    else:
        try:
            out["rejoin"] = f.join(t)
        except Exception as e:  # noqa
            out["rejoin"] = _err(e)
    return out


def impl(case):
    f = _formatter(case["vendor"], case["indent"])
    if "tree" in case:
        return _cycle(f, _mk(case["tree"]))
    fields, t = _parse_fields(f, case["text"])
    fields["cycle"] = None if t is None else _cycle(f, t)
    return fields


# ------------------------------------------------------------------ model
def requests(case):
    if "tree" in case:
        # the odict the real code sees: duplicate sibling rows are impossible there
        return [dict(op="c04.tree", vendor=case["vendor"], indent=case["indent"], tree=_un(_mk(case["tree"])))]
    return [dict(op="c04.text", vendor=case["vendor"], indent=case["indent"], text=case["text"])]


def _has_unsupported(o):
    if isinstance(o, dict):
        return "unsupported" in o or any(_has_unsupported(v) for v in o.values())
    if isinstance(o, list):
        return any(_has_unsupported(v) for v in o)
    return False


def model(case, resp):
    r = resp[0]
    if _has_unsupported(r):
        return {"skip": True}
    return r


# ------------------------------------------------------------------ oracle
_WORDS = re.compile(r"^[\x21-\x7e]+( [\x21-\x7e]+)*$")
HUAWEI_END = ("end-list", "endif", "end-filter")
ASR_END = ("end-set", "endif", "end-policy")


def _row_ok(cls, row):
    """rows of printable words without the vendor's syntax delimiters"""
    if not _WORDS.match(row) or row[0] in "!#":
        return False
    if cls == "huawei":
        return not row.startswith(HUAWEI_END)
    if cls == "cisco":
        return row not in ("exit", "exit-address-family")
    if cls == "asr":
        return not row.endswith(ASR_END)
    if cls in JUN:
        return not any(c in row for c in "{};") and "/*" not in row and "*/" not in row
    return True


def _ros_splitter(path):
    """`/path words` is one of the two sections RosFormatter.split post-processes (device listings)"""
    g = ("/" + " ".join(path)).replace("/", "_splitter_").replace(" ", "_").replace("-", "_")
    return g in ("_splitter_file", "_splitter_user_ssh_keys")


def _ros_ok(tree, path=()):
    seen_section = False
    for k, c in tree:
        if c:
            seen_section = True
            if " " in k or "/" in k or not _row_ok("ros", k) or _ros_splitter(path + (k,)) \
                    or not _ros_ok(c, path + (k,)):
                return False
        else:
            if not path or k.startswith("/") or not _row_ok("ros", k):
                return False
    return True


def indent_ok(indent):
    """the `--indent` of `annet gen`: the default, or a non-empty run of blanks / tabs"""
    return indent is None or (len(indent) > 0 and set(indent) <= {" ", "\t"})


def in_domain(vendor, tree, closed_af=False):
    cls = CLASS[vendor]
    if _depth(tree) > MAXDEPTH:
        return False
    if cls == "ros":
        return _ros_ok(tree)
    if cls == "nokia" and any(k == "configure" for k, _ in tree):
        return False
    if cls == "cisco" and closed_af:
        return _cisco_closed_ok(tree)
    return all(_row_ok(cls, r) for r in _rows(tree))


def _cisco_closed_ok(tree, parent_af=False):
    """a parsed Cisco device config: `exit-address-family` only as the last child of an address-family block"""
    for i, (k, c) in enumerate(tree):
        if k == "exit-address-family":
            if not (parent_af and i == len(tree) - 1 and not c):
                return False
            continue
        if not _row_ok("cisco", k):
            return False
        if k.startswith("address-family") and not (c and c[-1][0] == "exit-address-family"):
            return False
        if not _cisco_closed_ok(c, k.startswith("address-family")):
            return False
    return True


def _af_then_outside(tree):
    """some `address-family…` row is followed, in document order, by a row that is not its descendant"""
    flat = []

    def walk(tr, d):
        for k, c in tr:
            flat.append((d, k))
            walk(c, d + 1)
    walk(tree, 0)
    for i, (d, k) in enumerate(flat):
        if k.startswith("address-family") and any(d2 <= d for d2, _ in flat[i + 1:]):
            return True
    return False


def _close_af(tree):
    return [[k, _close_af(c) + ([["exit-address-family", []]] if k.startswith("address-family") else [])]
            for k, c in tree]


def _ros_nested(tree, depth=0):
    return any(c and (depth >= 1 or _ros_nested(c, depth + 1)) for k, c in tree)


def _classify(case, vendor, tree, cyc):
    """why the round trip of `tree` (in domain) failed -> signature"""
    cls = CLASS[vendor]
    if isinstance(cyc.get("join"), dict):
        kind = "join-raises-" + cyc["join"]["err"]
    elif "err" in cyc["parse"]:
        kind = "parse-raises-" + cyc["parse"]["err"]
    elif cyc["parse"]["ok"] != tree:
        kind = "tree-differs"
    else:
        kind = "rejoin-differs"
    if cls == "cisco" and _af_then_outside(tree) and kind in ("parse-raises-ParserError", "tree-differs"):
        # explained by F04a iff the same tree with every address-family block closed the way a device prints it
        # (last child `exit-address-family`) does round-trip
        f = _formatter(vendor, case["indent"])
        closed = _close_af(tree)
        c2 = _cycle(f, _mk(closed))
        if c2.get("parse") == {"ok": closed} and c2.get("rejoin") == c2.get("join"):
            return "cisco-address-family-not-closed-by-join"
    if cls == "ros" and _ros_nested(tree) and kind == "tree-differs":
        return "routeros-nested-section-path"
    return "roundtrip.%s.%s" % (cls, kind)


def oracle(case, r):
    vendor = case["vendor"]
    if "tree" in case:
        tree = _un(_mk(case["tree"]))
        if not indent_ok(case["indent"]) or not in_domain(vendor, tree):
            return []
        cyc = r
        what = "parse(join(t)) != t"
    else:
        if not isinstance(r.get("parse"), dict) or "ok" not in r["parse"]:
            return []
        tree = r["parse"]["ok"]
        if not indent_ok(case["indent"]) or not in_domain(vendor, tree, closed_af=True):
            return []
        cyc = r["cycle"]
        what = "re-rendering the parsed device text and parsing again is not a fixed point"
    ok = (isinstance(cyc.get("parse"), dict) and cyc["parse"].get("ok") == tree and cyc.get("rejoin") == cyc.get("join")
          and isinstance(cyc.get("join"), str))
    if ok:
        return []
    sig = _classify(case, vendor, tree, cyc)
    return [dict(sig=sig, what="%s: %s (vendor %s, indent %r): join=%r parse=%r" % (
        sig, what, vendor, case["indent"], cyc.get("join"), cyc.get("parse")))]


# ------------------------------------------------------------------ bookkeeping
def nontrivial(case, r):
    if "tree" in case:
        return _nodes(case["tree"]) >= 3 and _depth(case["tree"]) >= 2
    return case["text"].count("\n") >= 2 and isinstance(r.get("parse"), dict) and "ok" in r["parse"] \
        and _depth(r["parse"]["ok"]) >= 2


def stats(case, r):
    v = case["vendor"]
    lab = ["vendor=" + v, "class=" + CLASS[v], "indent=%r" % (case["indent"],)]
    if "tree" in case:
        t = _un(_mk(case["tree"]))
        dom = indent_ok(case["indent"]) and in_domain(v, t)
        lab += ["input=tree", "depth=%d" % min(_depth(t), 7), "nodes=%s" % (_nodes(t) if _nodes(t) < 10 else "10+"),
                "domain=" + ("in" if dom else "out")]
        cyc = r
    else:
        lab += ["input=text"]
        cyc = r.get("cycle") or {}
        p = r.get("parse")
        if isinstance(p, dict) and "ok" in p:
            lab.append("text-domain=" + ("in" if in_domain(v, p["ok"], closed_af=True) else "out"))
        else:
            lab.append("text-parse=" + (p or {}).get("err", "?"))
    p = cyc.get("parse")
    if isinstance(p, dict):
        lab.append("cycle-parse=" + ("ok" if "ok" in p else p.get("err", "?")))
    if isinstance(cyc.get("join"), dict):
        lab.append("join-raises=" + cyc["join"]["err"])
    return lab


def shrink_candidates(case):
    if "tree" not in case:
        ls = case["text"].split("\n")
        for i in range(len(ls)):
            yield dict(case, text="\n".join(ls[:i] + ls[i + 1:]))
        return
    t = case["tree"]

    def variants(tr):
        for i, (k, c) in enumerate(tr):
            yield tr[:i] + tr[i + 1:]                      # drop the node
            if c:
                yield tr[:i] + c + tr[i + 1:]              # hoist its children
                yield tr[:i] + [[k, []]] + tr[i + 1:]      # drop its children
            ws = k.split(" ")
            if len(ws) > 1:
                yield tr[:i] + [[" ".join(ws[:-1]), c]] + tr[i + 1:]
            for sub in variants(c):
                yield tr[:i] + [[k, sub]] + tr[i + 1:]
    for cand in variants(t):
        rows = [k for k, _ in cand]
        if len(set(rows)) == len(rows):
            yield dict(case, tree=cand)
    if case["indent"] is not None:
        yield dict(case, indent=None)


def search(case):
    rng = random.Random(repr(case))
    v = case["vendor"]
    for _ in range(300):
        r = rng.random()
        if r < 0.5:
            yield dict(vendor=v, indent=case["indent"], tree=_wf_tree(rng, v, maxdepth=3))
        elif r < 0.8:
            yield dict(vendor=v, indent=_indent_choice(rng), tree=_wf_tree(rng, v))
        else:
            yield dict(vendor=v, indent=case["indent"], text=_device_text(rng, v))
