"""C18 — every known hardware model resolves to one vendor and a loadable rulebook.

impl  : annet.annlib.netdev.devdb.parse_hw_model / annet.annlib.netdev.db.get_db + find_true_sequences,
        HardwareView.match / HardwareLeaf, Registry.match (hw.vendor and fresh registries),
        DefaultRulebookProvider.get_rulebook
model : Annet.Hw.parseHw / hwMatchPath / registryMatch / getRulebook (lean/AnnetModel/Model/Hw.lean) through
        Glue/C18.lean; the regexp search outcomes, Mako and the rule compilers are parameters whose values are
        taken from the real functions
oracle: the property itself on the real code: prefix-closed true sequences, vendor equal under permutations of
        the registration order and most specific, get_rulebook succeeds and two fresh providers (caches
        cleared) give structurally equal rulebooks; plus fresh interpreters with different PYTHONHASHSEED.
"""
import functools
import hashlib
import itertools
import json
import os
import random
import re
import subprocess
import sys

ID = "C18"
RULE = ("hw cases: for each of the devdb sequences the shortest and several alternative model strings synthesised "
        "from its regexp chain, every vendor's canonical hardware, hand-written real-life model strings and random "
        "mixtures of chain fragments, each under a permutation of the vendor registration; db cases: random "
        "databases of 0..9 sequences (missing parents, shared sibling regexps, repeated components) with random "
        "model strings and synthetic registries; leaf cases: arbitrary true/false sets with synthetic registries; "
        "rb cases: get_rulebook for every synthesised chain string on fresh providers (caches cleared) under 2 (quick) / 4 (thorough) software-version shapes, the first shape twice; esc cases: "
        "random rule texts over a vocabulary of Mako control lines, %params, comments, blank/odd white space, and the 34 "
        "shipped rule files, through _escape_mako; hist cases: one long-lived provider over the shipped templates against fresh providers; prov cases: call "
        "histories on one provider over templates that branch on hw.soft.  A case is non-trivial when at least "
        "one sequence is true (hw/db/leaf), a rulebook was produced (rb) or the history has >= 2 calls (prov)")
TRUSTED_BASE = [
    "Lean 4.33 kernel; axioms per theorem are listed in axioms_per_theorem (subset of propext, Classical.choice, Quot.sound)",
    "harness/translate_c18.py: the extraction of devdb, vendors' match() lists, hw.<path> references (AST + Mako "
    "control lines), logic names and importable functions into lean/AnnetModel/Gen/DevDb.lean (names interned as Nat)",
    "correspondence harness harness/props/c18.py + compiled Lean driver evaluating Model/Hw.lean",
    "CPython re (regexp search outcome is a parameter of the model), Mako rendering, rule-text compilers and python "
    "import: executed on the finite space, not modelled",
    "model-string synthesiser (re._parser walk) in harness/props/c18.py: every synthesised string is checked with "
    "re.search against its whole regexp chain before use",
]
ASSUMPTIONS = [
    "no devdb component is named like a python attribute of HardwareView (model, soft, vendor, match, dump)",
    "ChainTrue (C18_vendor_order_independent): the model string reaches exactly the tree nodes of one sequence's "
    "chain; strings that match several unrelated chains (e.g. 'Cisco ASR Nexus') are outside the quantifier",
    "rule templates do not read hw.soft (checked: translator finds no such reference); the provider caches by hw.model only",
]
EXHAUSTIVE = {"quick": True, "thorough": True}
EXTRA_TARGETS = ()

HW_PY_ATTRS = ("model", "soft", "_soft", "vendor", "match", "dump")
SOFTS = ["", "V200R005C10SPC800", "7.0(3)I7(6)", "4.23.4M"]
REAL_MODELS = [
    "Huawei CE6870-48S6CQ-EI", "Huawei CE8850-64CQ-EI", "Huawei NE40E-X8A", "Huawei S5720-52X-PWR-SI-AC",
    "Huawei Quidway S2326TP-EI", "Huawei OptiXtrans DC908", "Huawei CE12804", "Huawei NetEngine 8000 F1A",
    "Cisco Nexus 9336C-FX2", "Cisco Nexus 3172PQ", "Cisco Catalyst 2960X-48TS-L", "Cisco WS-C3750X-24T-S",
    "Cisco ASR 9010", "Cisco 8201-32FH", "Cisco IOS XRv 9000", "Cisco CGS-2520-24TC", "Cisco Nexus N9K-C9364C",
    "Juniper MX480", "Juniper QFX5100-48S", "Juniper EX4300-48T", "Juniper PTX10003", "Arista DCS-7050SX-128",
    "Arista DCS-7280CR3-32P4", "Nokia 7750 SR-12", "Nokia 7250 IXR", "Mellanox SN3700", "Edge-Core AS9736-64D",
    "NVIDIA SN5600", "Moxa NPort 6610-32", "Asterfusion CX864E-N", "UfiSpace S9321-64EO", "Nebius NB-E-BR-DCU-AST2600",
    "PC", "pc", "MikroTik RB4011", "RouterOS CCR1036", "Aruba AP-515", "Aruba IAP-325", "Ribbon OPT9608D",
    "H3C S12508R", "B4com B4T-CS4148Q", "B4com B4T-CS2148P", "", "unknown box", "huawei", "cisco", "Zyxel GS1900",
]

_PREGEN_DONE = False
_IS_MAIN = True


# ---------------------------------------------------------------------------------------------- pregen / setup
def pregen():
    """Regenerate lean/AnnetModel/Gen/DevDb.lean from the annet tree (rewritten only when the content changes)."""
    global _PREGEN_DONE
    from harness import translate_c18
    path, changed = translate_c18.regenerate()
    _PREGEN_DONE = True
    return path, changed


_SETUP_DONE = False


def setup_worker():
    global _SETUP_DONE
    if not _SETUP_DONE:     # the runner calls this in the parent and again in every forked worker
        from annet.hardware import hardware_connector, AnnetHardwareProvider
        from annet.rulebook import rulebook_provider_connector, DefaultRulebookProvider
        hardware_connector.set(AnnetHardwareProvider)
        rulebook_provider_connector.set(DefaultRulebookProvider)
        _SETUP_DONE = True
    # the runner calls setup_worker() in the parent before the Lean build: the tables are regenerated here so
    # that the proof part is about the tree being checked (pregen() may also be called by the runner itself)
    if not _PREGEN_DONE:
        pregen()
    real()      # computed once in the parent; forked workers inherit the cache


# ---------------------------------------------------------------------------------------------- real data
@functools.lru_cache(None)
def real():
    from annet.annlib.netdev.devdb import _prepare_db
    from annet.annlib.netdev import db
    from annet.vendors import registry_connector
    from harness import translate_c18
    prepared = _prepare_db()
    seqs = list(prepared)
    tree, all_seq = db.get_db(prepared)
    reg = registry_connector.get()
    vendors = [(name, type(v), list(v.match()), v.hardware.model) for name, v in reg.vendors.items()]
    refs = sorted(set(".".join(p) for _, p in translate_c18.extract_hw_refs()))
    return dict(prepared=prepared, seqs=seqs, db=[[list(s), prepared[s].pattern] for s in seqs],
                all_seq=sorted(all_seq), vendors=vendors, refs=refs)


# ---------------------------------------------------------------------------------------------- synthesis
class Unsupported(Exception):
    pass


def _gen_example(pattern, rng):
    """(example string, anchored at start, anchored at end) for a regexp, by walking its parse tree."""
    import re._parser as sp
    import re._constants as sc
    st = dict(begin=False, end=False)

    def cat(av):
        table = {sc.CATEGORY_DIGIT: "0123456789", sc.CATEGORY_SPACE: " ", sc.CATEGORY_WORD: "aZ5_",
                 sc.CATEGORY_NOT_DIGIT: "xY- ", sc.CATEGORY_NOT_SPACE: "xY-9", sc.CATEGORY_NOT_WORD: " -"}
        if av not in table:
            raise Unsupported(av)
        return list(table[av])

    def in_(items):
        neg, opts = False, []
        for op, av in items:
            if op is sc.NEGATE:
                neg = True
            elif op is sc.LITERAL:
                opts.append(chr(av))
            elif op is sc.RANGE:
                opts.extend(chr(c) for c in range(av[0], min(av[1], av[0] + 9) + 1))
            elif op is sc.CATEGORY:
                opts.extend(cat(av))
            else:
                raise Unsupported(op)
        if neg:
            for c in "xX9 -_":
                if c not in opts:
                    return c
            raise Unsupported("negated class")
        return rng.choice(opts)

    def go(seq):
        out = []
        for op, av in seq:
            if op is sc.LITERAL:
                out.append(chr(av))
            elif op is sc.NOT_LITERAL:
                out.append("x" if chr(av) != "x" else "y")
            elif op is sc.ANY:
                out.append(rng.choice("xX9"))
            elif op is sc.IN:
                out.append(in_(av))
            elif op is sc.CATEGORY:
                out.append(rng.choice(cat(av)))
            elif op is sc.BRANCH:
                out.append(go(rng.choice(av[1])))
            elif op is sc.SUBPATTERN:
                out.append(go(av[3]))
            elif op in (sc.MAX_REPEAT, sc.MIN_REPEAT):
                lo, hi, sub = av
                out.append("".join(go(sub) for _ in range(rng.randint(lo, min(hi, lo + 2)))))
            elif op is sc.AT:
                if av in (sc.AT_BEGINNING, sc.AT_BEGINNING_STRING):
                    st["begin"] = True
                elif av in (sc.AT_END, sc.AT_END_STRING):
                    st["end"] = True
                else:
                    raise Unsupported(av)
            else:
                raise Unsupported(op)
        return "".join(out)

    return go(sp.parse(pattern)), st["begin"], st["end"]


def synth(patterns, rng, tries=200):
    """A short string in which every regexp of the chain is found (checked with re.search), or None."""
    rxs = [re.compile(p) for p in patterns]

    def ok(s):
        return all(r.search(s) for r in rxs)

    for _ in range(tries):
        try:
            pieces = [_gen_example(p, rng) for p in patterns]
        except Unsupported:
            return None
        beg = sorted((p for p in pieces if p[1]), key=lambda p: -len(p[0]))[:1]
        end = [p for p in pieces if p[2] and not p[1]][:1]
        mid = [p for p in pieces if not p[1] and not p[2]]
        parts = [p[0] for p in beg + mid + end]
        if not ok("".join(parts)):
            continue
        i = 0
        while i < len(parts):
            cand = parts[:i] + parts[i + 1:]
            if ok("".join(cand)):
                parts = cand
            else:
                i += 1
        return "".join(parts)
    return None


def chain_patterns(seq):
    R = real()
    return [R["prepared"][tuple(seq[:i])].pattern for i in range(1, len(seq) + 1)]


def chain_strings(seq, seed, nvar):
    """[shortest synthesised string] + up to nvar other distinct ones; deterministic from (seq, seed)."""
    rng = random.Random("%s|%d" % (".".join(seq), seed))
    pats = chain_patterns(seq)
    cands = []
    for _ in range(6 + 3 * nvar):
        s = synth(pats, rng)
        if s is not None and s not in cands:
            cands.append(s)
    cands.sort(key=lambda s: (len(s), s))
    return cands[:1 + nvar]


# ---------------------------------------------------------------------------------------------- shards / gen
def shards(tier, seed):
    out = []
    nseq = 168
    try:
        nseq = len(real()["seqs"])
    except Exception:  # noqa
        pass
    thorough = tier != "quick"
    step = 6 if thorough else 12
    for lo in range(0, nseq, step):
        out.append(dict(kind="chain", lo=lo, hi=min(nseq, lo + step), seed=seed, nvar=8 if thorough else 2,
                        nperm=6 if thorough else 2))
        out.append(dict(kind="rb", lo=lo, hi=min(nseq, lo + step), seed=seed, nvar=4 if thorough else 1))
    out.append(dict(kind="fixed", seed=seed))
    nsh = 48 if thorough else 16
    for i in range(nsh):
        out.append(dict(kind="mix", seed=seed * 1000 + i, n=150 if thorough else 25))
        out.append(dict(kind="db", seed=seed * 1000 + i, n=1500 if thorough else 250))
        out.append(dict(kind="leaf", seed=seed * 1000 + i, n=1500 if thorough else 250))
        out.append(dict(kind="prov", seed=seed * 1000 + i, n=60 if thorough else 12))
        out.append(dict(kind="hist", seed=seed * 1000 + i, n=25 if thorough else 6))
        out.append(dict(kind="reghist", seed=seed * 1000 + i, n=400 if thorough else 40))
        out.append(dict(kind="esc", seed=seed * 1000 + i, n=3000 if thorough else 300))
    out.append(dict(kind="escfiles"))
    return out


JUNK_EXPRS = ["Foo", "Huawei.Foo", "PC.SN", "SN", "", "hw", "hw.Huawei", "Huawei..CE", "hw.hw", "Cisco.Huawei",
              "CE.Huawei", "Nexus.N9x", "hw.PC.Whitebox.Mellanox", "Cisco.", ".Cisco", "Huawei.CE.CE6800.CE6870"]


def _exprs(rng):
    R = real()
    ex = list(R["refs"])
    ex += [".".join(rng.choice(R["all_seq"])) for _ in range(8)]
    ex += rng.sample(JUNK_EXPRS, 5)
    return ex


def _perm(rng, n, identity=False):
    p = list(range(n))
    if not identity:
        rng.shuffle(p)
    return p


def _hw_case(model, rng, domain, identity=False, nperm=2):
    R = real()
    return dict(kind="hw", model=model, exprs=_exprs(rng), perm=_perm(rng, len(R["vendors"]), identity),
                domain=domain, nperm=nperm)


ESC_LINES = ["%if hw.Huawei.CE:", "%else:", "%endif", "%elif hw.X:", "%for x in y:", "%endfor", "%logic=a.b", "%comment",
             "%", "%%", "%%x", "%ifcontext=block", "%format", "%iffy", "% if x:", "  %if hw.Quidway:", "  %else:",
             "# comment", "  # indented comment", "\t#tab", "#", "foo # inline", "foo %logic=common.x", "~ %global",
             "", " ", "   ", "\t", "bar", "  child *", "x\r", "\r", "#\r", "\x0c# ff", "\xa0# nbsp", "\u2003#em", "a#b",
             "%if", "%el", "%en", "%fo", "%endfo", "%elifx"]


def _rnd_rule_text(rng):
    n = rng.choice([0, 1, 1, 2, 3, 4, 6, 9])
    lines = [rng.choice(ESC_LINES) for _ in range(n)]
    if rng.random() < 0.15 and lines:
        i = rng.randrange(len(lines))
        lines[i] = "".join(rng.choice("%# \tifx\n") for _ in range(rng.randint(0, 6)))
    sep = "\n" if rng.random() < 0.9 else rng.choice(["\n\n", "\r\n"])
    return sep.join(lines) + (rng.choice(["", "\n", "\n\n"]))


NAMES = ["A", "B", "C", "D", "E"]
PATS = ["x", "y", "z", "^a", "b$", "[0-9]", "q?"]


def _rnd_db(rng):
    """random database: mostly prefix-closed, sometimes with a missing parent / shared regexp / repeats"""
    n = rng.choice([0, 1, 2, 3, 4, 5, 6, 7, 9])
    seqs = []
    for _ in range(n):
        if seqs and rng.random() < 0.6:
            parent = rng.choice(seqs)
            s = parent + [rng.choice(NAMES)]
        else:
            s = [rng.choice(NAMES)]
            if rng.random() < 0.08:
                s = [rng.choice(NAMES), rng.choice(NAMES)]      # parent possibly missing
        if len(s) <= 4 and s not in seqs:
            seqs.append(s)
    rng.shuffle(seqs) if rng.random() < 0.3 else None
    return [[s, rng.choice(PATS)] for s in seqs]


def _rnd_vendors(rng, universe):
    vs = []
    for i in range(rng.choice([0, 1, 2, 3, 3, 4])):
        items = []
        for _ in range(rng.choice([0, 1, 1, 2, 3])):
            r = rng.random()
            if r < 0.9 and universe:
                e = ".".join(rng.choice(universe))
            elif r < 0.93:
                e = rng.choice(["Nope", "A.Nope", "", "hw"])
            else:
                e = "hw." + ".".join(rng.choice(universe)) if universe else "hw"
            items.append(e)
        vs.append(["v%d" % i, items])
    return vs


def _variants(s):
    out = set()
    for left in range(len(s)):
        for right in range(1, len(s[left:]) + 1):
            out.add(tuple(s[left:-right]) + (s[-1],))
    return out


def gen(desc):
    R = real()
    k = desc["kind"]
    if k == "chain":
        rng = random.Random("chain|%d|%d" % (desc["lo"], desc["seed"]))
        for i in range(desc["lo"], desc["hi"]):
            seq = list(R["seqs"][i])
            strs = chain_strings(seq, desc["seed"], desc["nvar"])
            if not strs:
                yield dict(kind="nosynth", seq=seq)
                continue
            for j, m in enumerate(strs):
                yield dict(_hw_case(m, rng, "chain", identity=(j == 0), nperm=desc["nperm"]), seq=seq)
                yield dict(_hw_case(m, rng, "chain", nperm=desc["nperm"]), seq=seq)
    elif k == "fixed":
        rng = random.Random("fixed|%d" % desc["seed"])
        for name, cls, match, hwmodel in R["vendors"]:
            yield dict(_hw_case(hwmodel, rng, "vendor-hardware", identity=True), vendor=name)
            yield dict(kind="rb", model=hwmodel, softs=SOFTS[:2], domain="vendor-hardware")
        for m in REAL_MODELS:
            yield _hw_case(m, rng, "real-life", identity=True)
            yield _hw_case(m, rng, "real-life")
    elif k == "mix":
        rng = random.Random("mix|%d" % desc["seed"])
        for _ in range(desc["n"]):
            parts = []
            for _ in range(rng.choice([1, 2, 2, 3])):
                seq = list(rng.choice(R["seqs"]))
                s = synth(chain_patterns(seq), rng, tries=20)
                if s:
                    parts.append(s)
            if rng.random() < 0.3:
                parts.append(rng.choice([" 9000", "-EI", " S5700", " CE6850", " Nexus", " ASR", "XRv", " MX"]))
            rng.shuffle(parts) if rng.random() < 0.3 else None
            yield _hw_case(" ".join(parts) if rng.random() < 0.5 else "".join(parts), rng, "mix")
    elif k == "db":
        rng = random.Random("db|%d" % desc["seed"])
        for _ in range(desc["n"]):
            dbl = _rnd_db(rng)
            model = "".join(rng.choice(["x", "y", "z", "a", "b", "7", "q", " "]) for _ in range(rng.randint(0, 5)))
            cnt = {}
            for sq, _ in dbl:
                for v in _variants(sq):
                    cnt[v] = cnt.get(v, 0) + 1
            universe = sorted(v for v, c in cnt.items() if c <= 1 or rng.random() < 0.1)
            exprs = [".".join(rng.choice(universe)) for _ in range(4)] if universe else []
            exprs += rng.sample(["A", "A.B", "B.A", "Nope", "", "hw", "hw.A", "A.B.C", "C.C"], 3)
            yield dict(kind="db", db=dbl, model=model, exprs=exprs, vendors=_rnd_vendors(rng, universe))
    elif k == "leaf":
        rng = random.Random("leaf|%d" % desc["seed"])
        paths = [list(p) for n in (1, 2, 3) for p in itertools.product("ABC", repeat=n)]
        for _ in range(desc["n"]):
            if rng.random() < 0.25:
                # arbitrary sets (possibly overlapping, prefixes missing)
                t = rng.sample(paths, rng.randint(0, 6))
                f = rng.sample(paths, rng.randint(0, 6))
            else:
                # prefix-closed known set, each path true or false
                kn = set()
                for p in rng.sample(paths, rng.randint(1, 6)):
                    for i in range(1, len(p) + 1):
                        kn.add(tuple(p[:i]))
                if rng.random() < 0.15 and kn:
                    kn.discard(rng.choice(sorted(kn)))
                t = [list(p) for p in sorted(kn) if rng.random() < 0.6]
                f = [list(p) for p in sorted(kn) if list(p) not in t or rng.random() < 0.05]
            universe = t + f + rng.sample(paths, 2)
            exprs = [".".join(rng.choice(universe)) for _ in range(5)] + ["hw", ""]
            kn = set(tuple(p) for p in t + f)
            good = [p for p in sorted(kn) if all(p[:i] in kn for i in range(1, len(p)))]
            vu = good if good and rng.random() < 0.9 else [tuple(p) for p in universe]
            yield dict(kind="leaf", trueS=t, falseS=f, exprs=exprs, vendors=_rnd_vendors(rng, vu))
    elif k == "rb":
        for i in range(desc["lo"], desc["hi"]):
            seq = list(R["seqs"][i])
            for j, m in enumerate(chain_strings(seq, desc["seed"], desc["nvar"])):
                softs = SOFTS if desc["nvar"] > 1 else [SOFTS[0], SOFTS[1 + (i + j) % 3]]
                yield dict(kind="rb", model=m, softs=softs, domain="chain", seq=seq)
    elif k == "prov":
        rng = random.Random("prov|%d" % desc["seed"])
        for _ in range(desc["n"]):
            yield _prov_case(rng)
    elif k == "esc":
        rng = random.Random("esc|%d" % desc["seed"])
        for _ in range(desc["n"]):
            yield dict(kind="esc", text=_rnd_rule_text(rng))
    elif k == "escfiles":
        from harness import translate_c18
        for f in translate_c18.extract_rule_files():
            with open(os.path.join(translate_c18.texts_dir(), f), encoding="utf-8") as fh:
                yield dict(kind="esc", text=fh.read(), file=f)
    elif k == "reghist":
        # one long-lived Registry: vendors are registered one by one, lookups of a few models interleaved
        rng = random.Random("reghist|%d" % desc["seed"])
        nv = len(R["vendors"])
        for _ in range(desc["n"]):
            pool = []
            for _ in range(rng.randint(1, 3)):
                pool += chain_strings(list(rng.choice(R["seqs"])), desc["seed"], 0)
            pool += [rng.choice(REAL_MODELS)]
            order = list(range(nv))
            rng.shuffle(order)
            order = order[:rng.randint(2, nv)]
            ops = []
            k = 0
            while k < len(order):
                if rng.random() < 0.25 and k + 1 < len(order):
                    # another registry (a plugin's) is merged in: Registry.__add__
                    m = rng.randint(1, min(3, len(order) - k))
                    ops.append(["merge", order[k:k + m]])
                    k += m
                else:
                    ops.append(["reg", order[k]])
                    k += 1
                for _ in range(rng.choice([0, 1, 1, 2])):
                    ops.append(["match", rng.choice(pool)])
            ops.append(["match", rng.choice(pool)])
            yield dict(kind="reghist", ops=ops)
    elif k == "hist":
        # one long-lived provider over the shipped templates, serving several models (with repeats)
        rng = random.Random("hist|%d" % desc["seed"])
        for _ in range(desc["n"]):
            pool = []
            for _ in range(rng.randint(2, 4)):
                seq = list(rng.choice(R["seqs"]))
                pool += chain_strings(seq, desc["seed"], 0)
            pool += [rng.choice(REAL_MODELS)]
            if rng.random() < 0.5:
                # inventories spell one model in several ways: case variants are DIFFERENT model strings (the family
                # patterns of the hardware table are case sensitive), served by the same provider
                m = rng.choice(pool)
                pool += [f(m) for f in rng.sample([str.lower, str.upper, str.title, str.swapcase], 2)]
            hist = [[rng.choice(pool), rng.choice(SOFTS)] for _ in range(rng.randint(3, 8))]
            yield dict(kind="hist", history=hist)


# ---------------------------------------------------------------------------------------------- impl
def _err(e):
    return type(e).__name__


def _match_all(hw, exprs):
    out = []
    for e in exprs:
        try:
            out.append(bool(hw.match(e)))
        except AttributeError:
            out.append("AttributeError")
    return out


def _fresh_registry(vendor_classes):
    from annet.vendors.registry import Registry
    reg = Registry()
    for cls in vendor_classes:
        reg.register(cls)
    return reg


def _registry_match(reg, hw):
    try:
        v = reg.match(hw, None)
    except AttributeError:
        return "AttributeError"
    return None if v is None else {"vendor": v.NAME}


@functools.lru_cache(None)
def _synthetic_vendor(name, exprs):
    from annet.vendors.registry import GenericVendor
    return type("Synthetic_" + name, (GenericVendor,), dict(NAME=name, match=lambda self, e=exprs: list(e)))


def _leaf_view(true_s, false_s):
    """a HardwareView over explicit sets (what HardwareView.__init__ does, without the devdb)"""
    from annet.annlib.netdev.views.hardware import HardwareView, HardwareLeaf
    hw = HardwareView.__new__(HardwareView)
    HardwareLeaf.__init__(hw, (), true_s, false_s)
    hw.model = "synthetic"
    hw._soft = ""
    return hw


def _paths(x):
    return sorted(set(tuple(p) for p in x))


def _perm_of(case):
    """the registration order of a hw case: a list of vendor indices (None / stale indices = the tree's order)"""
    n = len(real()["vendors"])
    p = case.get("perm")
    if p is None:
        return list(range(n))
    return [i for i in p if i < n]


def impl(case):
    k = case["kind"]
    if k == "hw":
        from annet.annlib.netdev.devdb import parse_hw_model
        from annet.annlib.netdev.views.hardware import HardwareView
        R = real()
        t, f = parse_hw_model(case["model"])
        hw = HardwareView(case["model"], "")
        perm = _perm_of(case)
        classes = [R["vendors"][i][1] for i in perm]
        res = dict(true=_paths(t), nfalse=len(f), match=_match_all(hw, case["exprs"]),
                   vendor=_registry_match(_fresh_registry(classes), hw))
        if perm == sorted(perm):
            # registration order of the tree: the public entry point
            try:
                v = hw.vendor
                res["hw_vendor"] = None if v is None else {"vendor": v}
            except AttributeError:
                res["hw_vendor"] = "AttributeError"
        return res
    if k == "db":
        from annet.annlib.netdev import db
        prepared = {tuple(s): re.compile(p) for s, p in case["db"]}
        try:
            tree, all_seq = db.get_db(prepared)
        except (KeyError, TypeError) as e:
            return {"err": _err(e)}
        t = db.find_true_sequences(case["model"], tree)
        f = all_seq.difference(t)
        hw = _leaf_view(sorted(t), f)
        classes = [_synthetic_vendor(n, tuple(es)) for n, es in case["vendors"]]
        return {"true": _paths(t), "false": _paths(f), "nfalse": len(f), "match": _match_all(hw, case["exprs"]),
                "vendor": _registry_match(_fresh_registry(classes), hw)}
    if k == "leaf":
        hw = _leaf_view([tuple(p) for p in case["trueS"]], set(tuple(p) for p in case["falseS"]))
        classes = [_synthetic_vendor(n, tuple(es)) for n, es in case["vendors"]]
        return {"match": _match_all(hw, case["exprs"]), "vendor": _registry_match(_fresh_registry(classes), hw)}
    if k == "rb":
        return _impl_rb(case)
    if k == "prov":
        return _impl_prov(case)
    if k == "hist":
        return _impl_hist(case)
    if k == "reghist":
        from annet.annlib.netdev.views.hardware import HardwareView
        from annet.vendors.registry import Registry
        R = real()
        reg = Registry()
        served, fresh, done = [], [], []
        for op, x in case["ops"]:
            if op == "reg":
                reg.register(R["vendors"][x][1])
                done.append(x)
            elif op == "merge":
                reg.__add__(_fresh_registry([R["vendors"][i][1] for i in x]))
                done = list(x) + done          # dict(**other.vendors, **self.vendors)
            else:
                served.append(_registry_match(reg, HardwareView(x, "")))
                fresh.append(_registry_match(_fresh_registry([R["vendors"][i][1] for i in done]), HardwareView(x, "")))
        return {"vendors": served, "fresh": fresh}
    if k == "esc":
        from annet.rulebook import DefaultRulebookProvider
        return {"ok": DefaultRulebookProvider._escape_mako(case["text"])}
    if k == "nosynth":
        return {"nosynth": True}
    raise ValueError(k)


# ---------------------------------------------------------------------------------------------- rulebooks
def _clear_rule_caches():
    from annet.rulebook import patching, deploying
    from annet.annlib.rbparser import ordering
    from annet.rulebook.common import import_rulebook_function
    for f in (patching.compile_patching_text, deploying.compile_deploying_text, ordering.compile_ordering_text,
              import_rulebook_function, patching._make_reverse):
        if hasattr(f, "cache_clear"):
            f.cache_clear()


def canon_rb(x, acc):
    """structural, address-free form of a compiled rulebook; acc collects counts"""
    if isinstance(x, re.Pattern):
        acc["regexps"] += 1
        return ["re", x.pattern, x.flags]
    if isinstance(x, dict):
        return ["dict", [[canon_rb(k, acc), canon_rb(v, acc)] for k, v in x.items()]]
    if isinstance(x, tuple) and hasattr(x, "_fields"):
        return ["nt", type(x).__name__, [canon_rb(v, acc) for v in x]]
    if isinstance(x, (list, tuple)):
        return ["seq", [canon_rb(v, acc) for v in x]]
    if isinstance(x, (set, frozenset)):
        return ["set", sorted(json.dumps(canon_rb(v, acc), sort_keys=True) for v in x)]
    if isinstance(x, functools.partial):
        return ["partial", canon_rb(x.func, acc), canon_rb(x.args, acc), canon_rb(x.keywords, acc)]
    if callable(x):
        acc["functions"].add("%s.%s" % (getattr(x, "__module__", "?"), getattr(x, "__qualname__", repr(type(x)))))
        return ["fn", getattr(x, "__module__", "?"), getattr(x, "__qualname__", "?")]
    if x is None or isinstance(x, (bool, int, str)):
        return x
    if isinstance(x, float):
        return ["float", repr(x)]
    return ["obj", type(x).__name__]


def _digest(obj):
    return hashlib.blake2b(json.dumps(obj, sort_keys=True, ensure_ascii=True).encode(), digest_size=10).hexdigest()


def load_rulebook_digest(model, soft):
    """get_rulebook on a fresh provider with all compile/import caches cleared -> (digest, summary) or error"""
    from annet.annlib.netdev.views.hardware import HardwareView
    from annet.rulebook import DefaultRulebookProvider
    _clear_rule_caches()
    hw = HardwareView(model, soft)
    try:
        rb = DefaultRulebookProvider().get_rulebook(hw)
    except Exception as e:  # noqa  any failure to load is a result of the property
        return dict(err=_err(e), msg=str(e)[:160], vendor=_safe_vendor(hw))
    acc = dict(regexps=0, functions=set())
    c = canon_rb(rb, acc)
    return dict(digest=_digest(c), parts={k: _digest(c_) for k, c_ in zip(("patching", "ordering", "deploying"),
                                                                            [canon_rb(rb[p], dict(regexps=0, functions=set()))
                                                                             for p in ("patching", "ordering", "deploying")])},
                regexps=acc["regexps"], functions=len(acc["functions"]), vendor=_safe_vendor(hw),
                keys=sorted(rb))


def _safe_vendor(hw):
    try:
        return hw.vendor
    except Exception as e:  # noqa
        return "!" + _err(e)


def _impl_rb(case):
    """every software-version shape on a fresh provider with the compile/import caches cleared; the first shape
    on two of them"""
    loads = []
    for i, soft in enumerate(case["softs"]):
        a = load_rulebook_digest(case["model"], soft)
        b = load_rulebook_digest(case["model"], soft) if i == 0 else a
        loads.append([a, b])
    return dict(loads=loads)


def _impl_hist(case):
    from annet.annlib.netdev.views.hardware import HardwareView
    from annet.rulebook import DefaultRulebookProvider
    _clear_rule_caches()
    p = DefaultRulebookProvider()
    served = []
    for model, soft in case["history"]:
        try:
            rb = p.get_rulebook(HardwareView(model, soft))
            served.append(_digest(canon_rb(rb, dict(regexps=0, functions=set()))))
        except Exception as e:  # noqa
            served.append("err:" + _err(e))
    fresh = []
    for model, soft in case["history"]:
        r = load_rulebook_digest(model, soft)
        fresh.append(r.get("digest") or ("err:" + r["err"]))
    return dict(served=served, fresh=fresh)


# ---------------------------------------------------------------------------------------------- provider histories
PROV_MODELS = ["Huawei CE6870", "Huawei NE40E", "Cisco Nexus 9300", "Arista 7050", "H3C S12508", "Zyxel", "PC"]
PROV_SOFTS = ["", "V100", "V200R1", "V200R2"]
PROV_TEMPLATES = {
    # templates branching on hw.soft make the cache key (hw.model only) observable
    "soft-branch": "%if hw.soft.startswith('V200'):\nnew *\n%else:\nold *\n%endif\n",
    "hw-branch": "%if hw.Huawei.CE:\nce *\n%else:\nother *\n%endif\n",
    "plain": "plain *\n",
    "broken-mako": "%if hw.Nope:\nx\n%endif\n",
    "broken-rule": "a %logic=nope.nope\n",
}
PROV_VENDORS = ["huawei", "cisco", "nexus", "arista", "h3c", "pc"]


def _prov_case(rng):
    files = {}
    for v in PROV_VENDORS:
        for ext in ("rul", "order", "deploy"):
            if v == "h3c" and ext == "rul":
                continue
            r = rng.random()
            if ext == "rul":
                present = r < 0.92
            else:
                present = r < 0.6
            if present:
                choices = ["soft-branch", "hw-branch", "plain", "plain"] + (["broken-mako", "broken-rule"] if ext == "rul" and rng.random() < 0.15 else [])
                if ext == "deploy":
                    choices = ["plain", "plain", "soft-branch"]
                files["%s.%s" % (v, ext)] = rng.choice(choices)
    hist = [[rng.choice(PROV_MODELS), rng.choice(PROV_SOFTS)] for _ in range(rng.randint(1, 6))]
    return dict(kind="prov", files=files, history=hist)


def _prov_env(case):
    """temp root_dir with the case's rule files -> path"""
    import tempfile
    d = tempfile.mkdtemp(prefix="c18prov")
    os.makedirs(os.path.join(d, "texts"))
    for name, tpl in case["files"].items():
        with open(os.path.join(d, "texts", name), "w") as f:
            f.write(PROV_TEMPLATES[tpl])
    return d


def _rb_parts(rb):
    return [_digest(canon_rb(rb[p], dict(regexps=0, functions=set()))) for p in ("patching", "ordering", "deploying")]


def _impl_prov(case):
    import shutil
    from annet.annlib.netdev.views.hardware import HardwareView
    from annet.rulebook import DefaultRulebookProvider
    d = _prov_env(case)
    try:
        _clear_rule_caches()
        p = DefaultRulebookProvider(root_dir=d)
        out = []
        for model, soft in case["history"]:
            hw = HardwareView(model, soft)
            try:
                out.append(_rb_parts(p.get_rulebook(hw)))
            except AssertionError:
                out.append("unknownVendor")
            except FileNotFoundError:
                out.append("fileNotFound")
            except Exception as e:  # noqa
                out.append(_classify_prov_error(e))
        return dict(results=out)
    finally:
        shutil.rmtree(d, ignore_errors=True)


def _classify_prov_error(e):
    mod = type(e).__module__ or ""
    if isinstance(e, AttributeError) or mod.startswith("mako"):
        return "renderFailed"
    return "compileFailed"


def _prov_tables(case):
    """The parameters of the model's Env as finite tables, computed with the real functions (Mako, compilers)."""
    import shutil
    from annet.annlib.lib import mako_render
    from annet.annlib.netdev.views.hardware import HardwareView
    from annet.annlib.rbparser.platform import VENDOR_ALIASES
    from annet.annlib.rbparser.ordering import compile_ordering_text
    from annet.rulebook import DefaultRulebookProvider
    from annet.rulebook.deploying import compile_deploying_text
    from annet.rulebook.patching import compile_patching_text
    from annet.vendors import registry_connector
    reg = registry_connector.get()
    compilers = [compile_patching_text, compile_ordering_text, compile_deploying_text]
    models = sorted(set(m for m, _ in case["history"]))
    softs = sorted(set(s for _, s in case["history"]))
    vendor_of = {}
    for m in models:
        v = HardwareView(m, "").vendor
        vendor_of[m] = v
    vendors = sorted(set(v for v in vendor_of.values() if v is not None))
    esc = {name: DefaultRulebookProvider._escape_mako(PROV_TEMPLATES[tpl]) for name, tpl in case["files"].items()}
    render = []
    texts = set([""])
    for name, e in esc.items():
        for m in models:
            for s in softs:
                try:
                    t = mako_render(e, hw=HardwareView(m, s))
                except Exception:  # noqa
                    t = None
                render.append([e, m, s, t])
                if t is not None:
                    texts.add(t)
    comp = []
    _clear_rule_caches()
    for i, c in enumerate(compilers):
        for t in sorted(texts):
            for v in set(vendors) | set(VENDOR_ALIASES.get(v, v) for v in vendors):
                if v not in reg:
                    continue
                try:
                    r = _digest(canon_rb(c(t, v), dict(regexps=0, functions=set())))
                except Exception:  # noqa
                    r = None
                comp.append([i, t, v, r])
    return dict(vendor_of=[[m, v] for m, v in vendor_of.items()],
                registered=[v for v in vendors if v in reg],
                alias=[[v, VENDOR_ALIASES.get(v, v)] for v in vendors],
                escaped=[[n, e] for n, e in esc.items()], render=render, compile=comp)


# ---------------------------------------------------------------------------------------------- model side
def requests(case):
    k = case["kind"]
    R = None
    if k == "hw":
        R = real()
        truep = [p for (s, p) in R["db"] if R["prepared"][tuple(s)].search(case["model"])]
        vendors = [[R["vendors"][i][0], R["vendors"][i][2]] for i in _perm_of(case)]
        return [dict(op="c18.hw", db=R["db"], true=sorted(set(truep)), exprs=case["exprs"], vendors=vendors, full=False)]
    if k == "db":
        truep = sorted(set(p for s, p in case["db"] if re.search(p, case["model"])))
        return [dict(op="c18.hw", db=case["db"], true=truep, exprs=case["exprs"], vendors=case["vendors"], full=True)]
    if k == "leaf":
        return [dict(op="c18.leaf", trueS=case["trueS"], falseS=case["falseS"], exprs=case["exprs"],
                     vendors=case["vendors"])]
    if k == "esc":
        return [dict(op="c18.escape", text=case["text"])]
    if k == "reghist":
        R = real()
        rq, done = [], []
        for op, x in case["ops"]:
            if op == "reg":
                done.append(x)
            elif op == "merge":
                done = list(x) + done
            else:
                truep = [p for (s_, p) in R["db"] if R["prepared"][tuple(s_)].search(x)]
                rq.append(dict(op="c18.hw", db=R["db"], true=sorted(set(truep)), exprs=[],
                               vendors=[[R["vendors"][i][0], R["vendors"][i][2]] for i in done], full=False))
        return rq
    if k == "prov":
        try:
            return [dict(op="c18.provider", history=case["history"], **_prov_tables(case))]
        except Exception:  # noqa  e.g. hw.vendor itself raises on a broken tree: outside the model's parameters;
            return []      # the hw / rb cases report that defect
    return []


def model(case, resp):
    r = resp[0]
    k = case["kind"]
    if "fail" in r:
        return {"driver-fail": r["fail"]}
    if k == "reghist":
        for x in resp:
            if "fail" in x or "err" in x:
                return x
        vs = [x["vendor"] for x in resp]
        return {"vendors": vs, "fresh": vs}
    if k == "hw":
        if "err" in r:
            return r
        out = dict(true=_paths(r["true"]), nfalse=r["nfalse"], match=r["match"], vendor=r["vendor"])
        if _perm_of(case) == sorted(_perm_of(case)):
            out["hw_vendor"] = r["vendor"]
        return out
    if k == "db":
        if "err" in r:
            return r
        return dict(true=_paths(r["true"]), false=_paths(r["false"]), nfalse=len(_paths(r["false"])),
                    match=r["match"], vendor=r["vendor"])
    if k == "leaf":
        return dict(match=r["match"], vendor=r["vendor"])
    if k == "prov":
        return dict(results=r["results"])
    if k == "esc":
        return {"ok": r["ok"]}
    return r


# ---------------------------------------------------------------------------------------------- oracle
def _sib_distinct(dbl):
    seen = set()
    for s, p in dbl:
        key = (tuple(s[:-1]), p)
        if key in seen:
            return False
        seen.add(key)
    return True


def _hierarchy_violations(true_paths, known):
    """true p with a non-empty proper prefix q that is known but not true"""
    ts = set(tuple(p) for p in true_paths)
    bad = []
    for p in ts:
        for i in range(1, len(p)):
            q = p[:i]
            if q in known and q not in ts:
                bad.append((p, q))
    return bad


def _matched_items(hw, vendors):
    """[(vendor, expr, dots)] that hold of hw, or None if some expression raises"""
    out = []
    for name, exprs in vendors:
        for e in exprs:
            try:
                if hw.match(e):
                    out.append((name, e, e.count(".")))
            except AttributeError:
                return None
    return out


def _oracle_vendor(hw, vendors, classes, chosen, domain, nperm, seedstr):
    """vendors: [(name, exprs)] in the case's order; chosen: result under that order"""
    v = []
    matched = _matched_items(hw, vendors)
    if matched is None:
        if domain in ("chain", "vendor-hardware", "real-life", "mix"):
            v.append(dict(sig="vendor-match-raises", what="a registered vendor's match() expression raises AttributeError on %r" % hw.model))
        return v
    best = max((d for _, _, d in matched), default=None)
    best_vendors = sorted(set(n for n, _, d in matched if d == best))
    # most specific
    if chosen not in (None, "AttributeError"):
        if not any(n == chosen["vendor"] and d == best for n, _, d in matched):
            v.append(dict(sig="vendor-not-most-specific",
                          what="Registry.match chose %s although %s match with more dots" % (chosen["vendor"], best_vendors)))
    elif chosen is None and matched:
        v.append(dict(sig="vendor-none-despite-match", what="Registry.match returned the default although %s match" % best_vendors))
    unique = len(best_vendors) <= 1
    # order independence: in the property's domain it must hold outright; elsewhere only when the best is unique
    if domain in ("chain", "vendor-hardware") or unique:
        rng = random.Random(seedstr)
        n = len(classes)
        perms = [list(range(n))[i:] + list(range(n))[:i] for i in range(n)] + [list(reversed(range(n)))]
        for _ in range(nperm):
            p = list(range(n))
            rng.shuffle(p)
            perms.append(p)
        results = {}
        for p in perms:
            r = _registry_match(_fresh_registry([classes[i] for i in p]), hw)
            results.setdefault(json.dumps(r, sort_keys=True), p)
        if len(results) > 1:
            sig = "vendor-order-dependent" if domain in ("chain", "vendor-hardware") else "vendor-order-dependent-unique-best"
            v.append(dict(sig=sig, what="model %r: vendor depends on registration order: %s (tied best: %s)" % (
                hw.model, sorted(results), best_vendors)))
    if domain in ("chain", "vendor-hardware") and chosen is None:
        v.append(dict(sig="vendor-unresolved", what="model %r matches a devdb chain but no registered vendor" % hw.model))
    return v


def oracle(case, r):
    k = case["kind"]
    out = []
    if isinstance(r, dict) and str(r.get("err", "")).startswith("Unexpected"):
        return [dict(sig="impl-crash:" + r["err"], what="real code raised %s: %s" % (r["err"], r.get("msg")))]
    if k == "nosynth":
        return [dict(sig="no-model-string", what="could not synthesise a model string for %s" % ".".join(case["seq"]))]
    if k == "hw":
        from annet.annlib.netdev.views.hardware import HardwareView
        R = real()
        known = set(R["all_seq"])
        for p, q in _hierarchy_violations(r["true"], known)[:3]:
            out.append(dict(sig="hierarchy", what="model %r: hw.%s is true but hw.%s is false" % (
                case["model"], ".".join(p), ".".join(q))))
        # references used by templates / code never raise
        refs = set(R["refs"])
        for e, m in zip(case["exprs"], r["match"]):
            if e in refs and m == "AttributeError":
                out.append(dict(sig="ref-attribute-error:" + e, what="hw.%s raises AttributeError on %r" % (e, case["model"])))
        if "hw_vendor" in r and r["hw_vendor"] != r["vendor"]:
            out.append(dict(sig="hw-vendor-differs", what="hw.vendor %s != fresh registry in the same order %s" % (r["hw_vendor"], r["vendor"])))
        hw = HardwareView(case["model"], "")
        vendors = [(R["vendors"][i][0], R["vendors"][i][2]) for i in _perm_of(case)]
        classes = [R["vendors"][i][1] for i in _perm_of(case)]
        out += _oracle_vendor(hw, vendors, classes, r["vendor"], case["domain"], case.get("nperm", 2),
                              "perm|" + case["model"])
        return out
    if k == "db":
        if "err" in r:
            return []
        known = set(tuple(p) for p in r["true"]) | set(tuple(p) for p in r["false"])
        if _sib_distinct(case["db"]):
            for p, q in _hierarchy_violations(r["true"], known)[:2]:
                out.append(dict(sig="hierarchy-anydb", what="database with distinct sibling regexps: %s true, %s false" % (p, q)))
        hw = _leaf_view(sorted(tuple(p) for p in r["true"]), set(tuple(p) for p in r["false"]))
        hw.model = case["model"]
        classes = [_synthetic_vendor(n, tuple(es)) for n, es in case["vendors"]]
        out += _oracle_vendor(hw, [(n, es) for n, es in case["vendors"]], classes, r["vendor"], "synthetic", 2,
                              "perm|db|" + case["model"])
        return out
    if k == "leaf":
        hw = _leaf_view([tuple(p) for p in case["trueS"]], set(tuple(p) for p in case["falseS"]))
        classes = [_synthetic_vendor(n, tuple(es)) for n, es in case["vendors"]]
        return _oracle_vendor(hw, [(n, es) for n, es in case["vendors"]], classes, r["vendor"], "synthetic", 2, "perm|leaf")
    if k == "rb":
        in_domain = case.get("domain") in ("chain", "vendor-hardware")
        digests = set()
        for soft, (a, b) in zip(case["softs"], r["loads"]):
            if "err" in a:
                if in_domain:
                    out.append(dict(sig="rulebook-load:%s:%s" % (a["err"], a.get("vendor")),
                                    what="get_rulebook(%r, soft=%r) raised %s: %s" % (case["model"], soft, a["err"], a.get("msg"))))
                return out
            if a != b:
                out.append(dict(sig="rulebook-nondeterministic:%s" % a.get("vendor"),
                                what="two fresh providers gave different rulebooks for %r" % case["model"]))
            if a.get("keys") != ["deploying", "ordering", "patching"]:
                out.append(dict(sig="rulebook-shape", what="rulebook keys %s" % a.get("keys")))
            digests.add(a["digest"])
        if len(digests) > 1:
            out.append(dict(sig="rulebook-depends-on-soft:%s" % r["loads"][0][0].get("vendor"),
                            what="model %r: the rulebook differs between software versions %s although the provider "
                                 "caches by model only" % (case["model"], case["softs"])))
        return out
    if k == "prov":
        return []
    if k == "esc":
        # what the escaping is for: after it, a line that starts with a single '%' is a Mako control line
        for line in r["ok"].split("\n"):
            if line.startswith("%") and not line.startswith("%%") and not re.match(r"%(if|elif|else|endif|for|endfor)", line):
                out.append(dict(sig="escape-leaves-percent", what="_escape_mako left %r for Mako to interpret" % line[:40]))
                break
        return out
    if k == "reghist":
        if r["vendors"] != r["fresh"]:
            out.append(dict(sig="registry-history-dependent",
                            what="a registry that answered lookups while vendors were being registered answers %s; fresh "
                                 "registries with the same vendors answer %s (ops %s)" % (r["vendors"], r["fresh"], case["ops"])))
        return out
    if k == "hist":
        for (model, soft), a, b in zip(case["history"], r["served"], r["fresh"]):
            if a != b:
                out.append(dict(sig="provider-history-dependent",
                                what="a provider that served %s answers %s for (%r, %r); a fresh provider answers %s" % (
                                    case["history"], a, model, soft, b)))
                break
        return out
    return out


# ---------------------------------------------------------------------------------------------- bookkeeping
def nontrivial(case, r):
    k = case["kind"]
    if k in ("hw", "db"):
        return bool(r.get("true"))
    if k == "leaf":
        return any(m is True for m in r["match"])
    if k == "rb":
        return all("digest" in a for a, _ in r["loads"])
    if k in ("prov", "hist"):
        return len(case["history"]) >= 2
    if k == "reghist":
        return len(set(json.dumps(v) for v in r["vendors"])) >= 2
    if k == "esc":
        return r.get("ok") != case["text"]
    return False


def stats(case, r):
    k = case["kind"]
    lab = ["kind=" + k]
    if k == "hw":
        lab.append("domain=" + case["domain"])
        v = r["vendor"]
        lab.append("vendor=" + (v["vendor"] if isinstance(v, dict) else str(v)))
        lab.append("true=%d" % min(len(r["true"]), 40))
        lab.append("perm=" + ("identity" if _perm_of(case) == sorted(_perm_of(case)) else "shuffled"))
        if case["domain"] == "chain" and case["seq"] not in [list(p) for p in r["true"]]:
            lab.append("chain-seq-not-true")
        if case["domain"] == "vendor-hardware":
            lab.append("own-hardware-resolves-to-self=%s" % (isinstance(v, dict) and v["vendor"] == case["vendor"]))
        if case["domain"] in ("mix", "real-life"):
            # several unrelated chains in one string can tie two vendors: outside the property's quantifier
            from annet.annlib.netdev.views.hardware import HardwareView
            R = real()
            ms = _matched_items(HardwareView(case["model"], ""), [(n, ex) for n, _, ex, _ in R["vendors"]]) or []
            best = max((d for _, _, d in ms), default=None)
            if len(set(n for n, _, d in ms if d == best)) > 1:
                lab.append("multi-chain-tie(out-of-domain)")
        if "AttributeError" in r["match"]:
            lab.append("some-expr-raises")
    elif k == "db":
        lab.append("db-size=%d" % len(case["db"]))
        lab.append("result=" + (r.get("err") or "ok"))
        if "err" not in r:
            lab.append("sib-distinct=%s" % _sib_distinct(case["db"]))
            v = r["vendor"]
            lab.append("registry=" + ("vendor" if isinstance(v, dict) else str(v)))
    elif k == "leaf":
        v = r["vendor"]
        lab.append("registry=" + ("vendor" if isinstance(v, dict) else str(v)))
    elif k == "rb":
        a = r["loads"][0][0]
        lab.append("rb-vendor=%s" % a.get("vendor"))
        lab.append("rb=" + ("ok" if "digest" in a else "err:" + a.get("err", "?")))
        lab.append("rb-loads=%d" % (1 + len(r["loads"])))
    elif k == "prov":
        for x in r["results"]:
            lab.append("prov=" + (x if isinstance(x, str) else "ok"))
        lab.append("history=%d" % len(case["history"]))
    elif k == "esc":
        t = case["text"]
        lab.append("esc-lines=%d" % min(t.count("\n") + 1, 12))
        lab.append("esc-changed=%s" % (r.get("ok") != t))
        if "file" in case:
            lab.append("esc-shipped-file")
    elif k == "hist":
        lab.append("hist-calls=%d" % len(case["history"]))
        lab.append("hist-repeats=%s" % (len(set(m for m, _ in case["history"])) < len(case["history"])))
    return lab


def shrink_candidates(case):
    k = case["kind"]
    if k == "hw":
        if len(case["exprs"]) > 1:
            yield dict(case, exprs=case["exprs"][:len(case["exprs"]) // 2])
            yield dict(case, exprs=case["exprs"][len(case["exprs"]) // 2:])
        if case["exprs"]:
            yield dict(case, exprs=[])
        if case.get("perm") is not None:
            yield dict(case, perm=None)
        m = case["model"]
        if case["domain"] not in ("chain", "vendor-hardware"):
            for i in range(len(m)):
                yield dict(case, model=m[:i] + m[i + 1:])
    elif k in ("db", "leaf"):
        if case["exprs"]:
            yield dict(case, exprs=[])
        for i in range(len(case["vendors"])):
            yield dict(case, vendors=case["vendors"][:i] + case["vendors"][i + 1:])
        if k == "db":
            for i in range(len(case["db"])):
                yield dict(case, db=case["db"][:i] + case["db"][i + 1:])
    elif k == "esc":
        ls = case["text"].split("\n")
        for i in range(len(ls)):
            yield dict(kind="esc", text="\n".join(ls[:i] + ls[i + 1:]))
        for i, l in enumerate(ls):
            if len(l) > 1:
                yield dict(kind="esc", text="\n".join(ls[:i] + [l[:-1]] + ls[i + 1:]))
    elif k in ("prov", "hist"):
        h = case["history"]
        for i in range(len(h)):
            yield dict(case, history=h[:i] + h[i + 1:])


def search(case):
    """neighbours of a disagreeing case: same kind, other permutations / strings"""
    rng = random.Random(json.dumps(case, sort_keys=True))
    if case["kind"] == "hw":
        R = real()
        for _ in range(100):
            seq = list(rng.choice(R["seqs"]))
            for m in chain_strings(seq, rng.randint(0, 10 ** 6), 1):
                yield dict(_hw_case(m, rng, "chain"), seq=seq)


# ---------------------------------------------------------------------------------------------- extra: fresh interpreters
_SUB = r"""
import json, sys
sys.path.insert(0, %(repo)r)
sys.path.insert(1, %(verif)r)
from harness.props import c18
c18._PREGEN_DONE = True
c18.setup_worker()
out = {}
for model, soft in json.load(sys.stdin):
    r = c18.load_rulebook_digest(model, soft)
    from annet.annlib.netdev.devdb import parse_hw_model
    t, f = parse_hw_model(model)
    out[json.dumps([model, soft])] = [r.get("digest") or ("err:" + r.get("err", "?")), r.get("vendor"), [list(p) for p in t], len(f)]
json.dump(out, sys.stdout)
"""


def extra(tier, seed, ctx):
    """The same (model, soft) pairs loaded in two fresh interpreters with different PYTHONHASHSEED must give the
    same true sequences, vendor and rulebook (loading is a function of the model, not of process history)."""
    from harness.core.paths import REPO, VERIF
    R = real()
    pairs = []
    for i, seq in enumerate(R["seqs"]):
        if tier == "quick" and i % 3 != seed % 3:
            continue
        for m in chain_strings(list(seq), seed, 0):
            pairs.append([m, SOFTS[i % len(SOFTS)]])
    for _, _, _, hwmodel in R["vendors"]:
        pairs.append([hwmodel, ""])
    code = _SUB % dict(repo=REPO, verif=VERIF)
    procs = []
    for hs in ("1", "4242"):
        env = dict(os.environ, PYTHONHASHSEED=hs)
        procs.append(subprocess.Popen(["/venv/bin/python", "-W", "ignore", "-c", code], stdin=subprocess.PIPE,
                                      stdout=subprocess.PIPE, stderr=subprocess.PIPE, env=env, text=True))
    outs = []
    fails = []
    for p in procs:
        o, e = p.communicate(json.dumps(pairs), timeout=600)
        if p.returncode != 0:
            fails.append("fresh interpreter failed: " + e[-300:])
            outs.append({})
        else:
            outs.append(json.loads(o))
    viol = []
    if not fails:
        for key in outs[0]:
            if outs[0][key] != outs[1].get(key):
                model, soft = json.loads(key)
                viol.append(dict(case=dict(kind="rb", model=model, softs=[soft], domain="chain"),
                                 impl=dict(a=outs[0][key], b=outs[1].get(key)), sig="hashseed-dependent",
                                 what="model %r: true sequences / vendor / rulebook differ between interpreters with "
                                      "different PYTHONHASHSEED" % model))
    return dict(violations=viol[:5], tie_failures=fails, evaluations=2 * len(pairs),
                coverage=dict(fresh_interpreter_pairs=len(pairs), fresh_interpreter_hashseeds=[1, 4242]))
