"""C07 — rule patterns. impl: syntax.compile_row_regexp / rulebook.patching._make_reverse / acl._make_reverse /
ordering reverse_regexp; model: Annet.Pattern (parseRow, matchToks, makeReverse, format, negate);
oracle: ref_match / ref_reverse, a Python twin of the rule language's stated meaning."""
import itertools
import random
import re

ID = "C07"
RULE = ("(pattern,row) pairs: exhaustive over patterns of <=4 tokens {a,b,*,trailing ~} x {plain,(?i),...} and rows of "
        "<=4 (quick) / <=5 (thorough) words over {a,b,ab,A} with single/double blanks; every rule line of every shipped "
        "*.rul/*.order/*.deploy (rendered for 17 hardware models) with rows synthesised from it and near-miss mutations; "
        "reverse templates and negation for the same lines and all vendor prefixes; non-trivial = pattern has >=2 tokens "
        "and the row has >=2 words; distinct = distinct case")
TRUSTED_BASE = [
    "Lean 4.33 kernel; axioms per theorem listed (subset of propext, Classical.choice, Quot.sound)",
    "CPython re is NOT modelled: Model/Pattern.lean states what the regex built by compile_row_regexp means for grammar "
    "rows; the correspondence (real regex vs matchToks) is what ties them",
    "harness/props/c07.py (generator, ref_match twin, canonicalisation) and the compiled Lean driver",
]
ASSUMPTIONS = [
    "grammar = literal words without regex metacharacters, '*', trailing '~', trailing '...', '(?i)'; rows outside it "
    "(*/re/, ~/re/, <name>, metacharacters: 218 of 1540 shipped lines) are decided by CPython re and only counted/"
    "cross-checked by the sequential Python reference",
    "rows are stripped configuration lines without newlines",
]
EXHAUSTIVE = {"quick": True, "thorough": True}

HW_MODELS = ["Huawei", "Huawei CE6870", "Huawei NE40E", "Huawei S5300", "Huawei OptiXtrans DC908", "Cisco Catalyst",
             "Cisco Catalyst 2960", "Cisco Nexus", "Cisco ASR", "Cisco XR", "Juniper", "RouterOS", "Aruba", "Arista",
             "Nokia", "PC", "Ribbon", "B4com", "H3C"]
PREFIXES = ["undo", "no", "delete", "-", ""]
PREFIX_VENDOR = {"undo": "huawei", "no": "cisco", "delete": "juniper", "-": "pc"}
_SETUP = False


def setup_worker():
    global _SETUP
    if _SETUP:
        return
    from annet.hardware import hardware_connector, AnnetHardwareProvider
    from annet.rulebook import rulebook_provider_connector, DefaultRulebookProvider
    hardware_connector.set(AnnetHardwareProvider)
    rulebook_provider_connector.set(DefaultRulebookProvider)
    _SETUP = True


_LINES = None


def shipped_lines():
    """(kind, vendor, row) for every rule row of every shipped rule text, via the real renderer and parser."""
    global _LINES
    if _LINES is not None:
        return _LINES
    setup_worker()
    from annet.annlib.netdev.views.hardware import HardwareView
    from annet.annlib.rbparser import syntax
    from annet.rulebook import rulebook_provider_connector
    prov = rulebook_provider_connector.get()
    seen = {}
    for model in HW_MODELS:
        hw = HardwareView(model, "")
        vendor = hw.vendor
        if vendor is None:
            continue
        for ext in ("rul", "order", "deploy"):
            try:
                text = prov._render_rul("%s.%s" % (vendor, ext), hw)
            except FileNotFoundError:
                continue
            tree = syntax.parse_text(text, {})

            def walk(t):
                for attrs in t.values():
                    seen.setdefault((ext, vendor, attrs["row"]), None)
                    walk(attrs["children"])
            walk(tree)
    _LINES = sorted(seen)
    return _LINES


def shards(tier, seed):
    out = []
    for v in ("plain", "icase", "ell"):
        for first in ("a", "b", "*", "~"):
            out.append(dict(kind="exh", variant=v, first=first, maxw=4 if tier == "quick" else 5,
                            maxt=4 if tier == "quick" else 5))
    n = len(shipped_lines())
    step = 100
    for lo in range(0, n, step):
        out.append(dict(kind="ship", lo=lo, hi=min(n, lo + step), seed=seed, per=12 if tier == "quick" else 80))
    for i in range(8):
        out.append(dict(kind="rev", seed=seed * 100 + i, n=400 if tier == "quick" else 4000))
    return out


WORDS = ["a", "b", "ab", "A"]


def _rows(maxw):
    for n in range(0, maxw + 1):
        for ws in itertools.product(WORDS, repeat=n):
            if n == 0:
                yield ""
                continue
            yield " ".join(ws)
            if 2 <= n <= 3:
                yield "  ".join(ws)
                yield ws[0] + " \t" + " ".join(ws[1:])


def _patterns(first, maxt):
    if first == "~":
        yield ["~"]
        return
    for n in range(1, maxt + 1):
        for rest in itertools.product(["a", "b", "*"], repeat=n - 1):
            yield [first] + list(rest)
            if n < maxt:
                yield [first] + list(rest) + ["~"]


POOL = ["Eth1", "10", "foo", "GE1/0/1", "x.y", "ae0", "BAR", "1.1.1.1/32", "a-b"]


def _synth(row, rng):
    """a row that should match, built word by word from a rule row"""
    out = []
    ws = row.replace("(?i)", "").split(" ")
    for i, w in enumerate(ws):
        if w == "*":
            out.append(rng.choice(POOL))
        elif w == "~" and i == len(ws) - 1:
            out.extend(rng.choice(POOL) for _ in range(rng.randint(1, 3)))
        elif w.startswith("*/") or w.startswith("~/") or "<" in w:
            out.append(rng.choice(POOL))
        else:
            out.append(w[:-3] if w.endswith("...") else w)
    return out


def _mutate(ws, rng):
    ws = list(ws)
    if not ws:
        return ["x"]
    op = rng.randrange(8)
    i = rng.randrange(len(ws))
    if op == 0:
        del ws[i]
    elif op == 1 and len(ws) > 1:
        j = min(i, len(ws) - 2)
        ws[j:j + 2] = [ws[j] + ws[j + 1]]
    elif op == 2:
        w = ws[i]
        k = rng.randrange(len(w)) if w else 0
        ws[i] = w[:k] + rng.choice("xZ.-_1") + w[k + 1:]
    elif op == 3:
        ws[-1] = ws[-1] + rng.choice(["x", "1", "-"])
    elif op == 4:
        ws[i] = ws[i].swapcase()
    elif op == 5:
        ws.append(rng.choice(POOL))
    elif op == 6:
        ws.insert(i, rng.choice(POOL))
    else:
        ws[i] = rng.choice(POOL)
    return ws


def gen(desc):
    if desc["kind"] == "exh":
        rows = list(_rows(desc["maxw"]))
        for toks in _patterns(desc["first"], desc["maxt"]):
            p = " ".join(toks)
            if desc["variant"] == "icase":
                p = "(?i)" + p
            elif desc["variant"] == "ell":
                if toks[-1] == "~" or toks[-1] == "*":
                    continue
                p = p + "..."
            for r in rows:
                yield dict(kind="match", pattern=p, row=r)
    elif desc["kind"] == "ship":
        rng = random.Random("%s-%s" % (desc["seed"], desc["lo"]))
        lines = shipped_lines()[desc["lo"]:desc["hi"]]
        for (ext, vendor, row) in lines:
            for k in range(desc["per"]):
                ws = _synth(row, rng)
                if k % 3:
                    ws = _mutate(ws, rng)
                sepc = "  " if k % 7 == 6 else " "
                yield dict(kind="match", pattern=row, row=sepc.join(ws), src=ext + ":" + vendor)
            if ext == "rul":
                from annet.vendors import registry_connector
                pre = registry_connector.get()[vendor].reverse
                yield dict(kind="reverse", pattern=row, prefix=pre, key=[rng.choice(POOL) for _ in range(4)])
            yield dict(kind="negate", row=row, prefix=rng.choice(PREFIXES[:4]))
            if " " in row and "/" not in row and "<" not in row:
                yield dict(kind="text", row=row, noisy=_noisy_blanks(row, rng), prefix=rng.choice(PREFIXES[:4]),
                           psep=rng.choice([None, "  ", "\t", " \t", " ", "   "]))
    else:
        rng = random.Random(desc["seed"])
        for _ in range(desc["n"]):
            pre = rng.choice(PREFIXES[:4])
            n = rng.randint(1, 5)
            toks = [rng.choice(["a", "b", "*", "vlan", pre, "x-y"]) for _ in range(n)]
            if rng.random() < 0.3:
                toks.append("~")
            if rng.random() < 0.3:
                toks.insert(0, pre)
            row = " ".join(toks)
            if rng.random() < 0.5:
                yield dict(kind="reverse", pattern=row, prefix=pre,
                           key=[rng.choice(POOL + ["r s t"]) for _ in range(rng.randint(0, 5))])
            else:
                yield dict(kind="negate", row=row, prefix=pre)
            if " " in row and rng.random() < 0.5:
                yield dict(kind="text", row=row, noisy=_noisy_blanks(row, rng), prefix=pre,
                           psep=rng.choice([None, "  ", "\t", " \t", " ", "   "]))


def _noisy_blanks(row, rng):
    """the same rule line written with runs of blanks / tabs between its words"""
    ws = row.split(" ")
    out = ws[0]
    for w in ws[1:]:
        out += rng.choice([" ", "  ", "\t", "   ", " \t"]) + w
    if out == row:
        out = ws[0] + "  " + " ".join(ws[1:])
    return out


PARAM_BY_KIND = {"ordering": "%order_reverse=1", "acl": "%cant_delete=1 %prio=7", "patching": "%logic=common.permanent"}


def _compile_line(line, vendor, psep=None):
    """what the three real rule-text compilers make of one rule line (with `psep`: followed by a parameter of the
    compiler's own scheme after that separator): the observable parts of the compiled rule"""
    from annet.annlib.rbparser import acl, ordering
    from annet.rulebook import patching as rbp

    def text(kind):
        return line + ((psep + PARAM_BY_KIND[kind]) if psep is not None else "") + "\n"
    out = {}
    try:
        r = next(iter(ordering.compile_ordering_text(text("ordering"), vendor).values()))
        out["ordering"] = [r["attrs"]["direct_regexp"].pattern, r["attrs"]["reverse_regexp"].pattern,
                           bool(r["attrs"]["order_reverse"])]
    except Exception as e:  # noqa
        out["ordering"] = type(e).__name__
    try:
        rules = acl.compile_acl_text(text("acl"), vendor)
        r = next(iter(rules["local"].values()))
        a = r["attrs"]
        out["acl"] = [a["direct_regexp"].pattern, a["reverse_regexp"].pattern if a.get("reverse_regexp") is not None else None,
                      list(a["cant_delete"]), a["prio"]]
    except Exception as e:  # noqa
        out["acl"] = type(e).__name__
    try:
        rules = rbp.compile_patching_text(text("patching"), vendor)
        r = next(iter(rules["local"].values()))
        out["patching"] = [r["attrs"]["regexp"].pattern, r["attrs"]["reverse"], r["attrs"]["logic"].__name__]
    except Exception as e:  # noqa
        out["patching"] = type(e).__name__
    return out


def impl(case):
    from annet.annlib.rbparser import syntax, acl, ordering
    from annet.rulebook import patching as rbp
    k = case["kind"]
    if k == "text":
        setup_worker()
        vendor = PREFIX_VENDOR[case["prefix"]]
        return {"noisy": _compile_line(case["noisy"], vendor, case.get("psep")),
                "clean": _compile_line(case["row"], vendor, "  " if case.get("psep") is not None else None)}
    if k == "match":
        try:
            rx = syntax.compile_row_regexp(case["pattern"])
        except re.error:
            return {"err": "re.error"}
        m = rx.match(case["row"])
        if m is None:
            return {"match": None, "named": [], "source": rx.pattern}
        named = set(m.groupdict().values()) if m.groupdict() else set()
        return {"match": [g for g in m.groups()], "named": sorted(x for x in named if x is not None),
                "source": rx.pattern}
    if k == "reverse":
        tmpl = rbp._make_reverse(case["pattern"], case["prefix"])
        try:
            cmd = tmpl.format(*case["key"])
        except (IndexError, KeyError, ValueError):
            cmd = None
        return {"template": tmpl, "cmd": cmd}
    if k == "negate":
        a = acl._make_reverse(case["row"], case["prefix"])
        # the ordering compiler builds its reverse regexp inline (ordering.py:52-56): take it from the REAL compiled rule
        setup_worker()
        vendor = PREFIX_VENDOR[case["prefix"]]
        try:
            rules = ordering.compile_ordering_text(case["row"] + "\n", vendor)
            rule = next(iter(rules.values()))
            o = rule["attrs"]["reverse_regexp"].pattern
            d = rule["attrs"]["direct_regexp"].pattern
        except (StopIteration, re.error):
            o = d = None
        try:
            exp = syntax.compile_row_regexp(a).pattern
        except re.error:
            exp = None
        return {"acl": a, "ordering_reverse_pattern": o, "pattern_of_negated_row": exp, "ordering_direct_pattern": d}
    raise ValueError(k)


def requests(case):
    k = case["kind"]
    if k == "text":
        return []        # the clean line's regexps / templates are tied by the match / reverse / negate cases
    if k == "match":
        return [dict(op="c07.match", pattern=case["pattern"], row=case["row"])]
    if k == "reverse":
        return [dict(op="c07.reverse", pattern=case["pattern"], prefix=case["prefix"]),
                dict(op="c07.format", pattern=case["pattern"], prefix=case["prefix"], key=case["key"])]
    return [dict(op="c07.negate", row=case["row"], prefix=case["prefix"])]


def model(case, resp):
    k = case["kind"]
    if k == "match":
        r = resp[0]
        if not r.get("grammar"):
            return {"skip": True}
        return {"match": r["match"], "named": [], "source": r["source"]}
    if k == "reverse":
        if not resp[0].get("grammar"):
            return {"skip": True}
        return {"template": resp[0]["template"], "cmd": resp[1]["cmd"]}
    r = impl(case)
    return {"acl": resp[0]["ok"], "ordering_reverse_pattern": r["ordering_reverse_pattern"],
            "pattern_of_negated_row": r["pattern_of_negated_row"], "ordering_direct_pattern": r["ordering_direct_pattern"]}


# ------------------------------------------------------------------ reference semantics (oracle)
META = set("\\[](){}|+?^$.*<>/~")


def tokenize(pattern, keep_icase=False):
    """None = outside the grammar. Returns (tokens, icase, ellipsis); token = ('lit',w)|('star',)|('tilde',)"""
    ic = False
    if not keep_icase and "(?i)" in pattern:
        pattern = pattern.replace("(?i)", "")
        ic = True
    ell = pattern.endswith("...")
    if ell:
        pattern = pattern[:-3]
    if not pattern:
        return None
    ws = pattern.split(" ")
    toks = []
    for i, w in enumerate(ws):
        if w == "*":
            toks.append(("star",))
        elif w == "~":
            if i != len(ws) - 1:
                return None
            toks.append(("tilde",))
        elif not w or any(c in META for c in w):
            return None
        else:
            toks.append(("lit", w))
    return toks, ic, ell


def ref_match(pattern, row):
    """The rule language's stated meaning. Returns 'outside' | None | [groups]."""
    t = tokenize(pattern)
    if t is None:
        return "outside"
    toks, ic, ell = t
    pos = 0
    groups = []
    n = len(row)
    for i, tok in enumerate(toks):
        if i > 0:
            # word boundary: at least one whitespace
            j = pos
            while j < n and row[j].isspace():
                j += 1
            if j == pos:
                return None
            pos = j
        if tok[0] == "lit":
            w = tok[1]
            seg = row[pos:pos + len(w)]
            if (seg.lower() != w.lower()) if ic else (seg != w):
                return None
            pos += len(w)
        elif tok[0] == "star":
            j = pos
            while j < n and not row[j].isspace():
                j += 1
            if j == pos:
                return None
            groups.append(row[pos:j])
            pos = j
        else:
            if pos >= n:
                return None
            groups.append(row[pos:])
            return groups
    if not ell and pos < n and not row[pos].isspace():
        return None
    return groups


def ref_reverse_words(pattern, prefix):
    """word-level reading of the removal template that also covers `*/regex/` and `~/regex/` words (a regex word
    cannot contain a blank): each `*`/`*/…/` word and a trailing `~` is one `{}`, `~/…/` words vanish"""
    ws = pattern.split(" ")
    if ws[0] == prefix and len(ws) > 1:
        ws = ws[1:]
    else:
        ws = [prefix] + ws
    out = []
    for i, w in enumerate(ws):
        if w == "*" or (w.startswith("*/") and w.endswith("/") and len(w) > 3):
            out.append("{}")
        elif w == "~" and i == len(ws) - 1:
            out.append("{}")
        elif w.startswith("~/") and w.endswith("/") and len(w) > 3:
            continue
        elif "*" in w or "~" in w:
            return "outside"
        else:
            out.append(w)
    return " ".join(out)


def ref_reverse(pattern, prefix):
    t = tokenize(pattern, keep_icase=True)
    if t is None or t[2]:
        return ref_reverse_words(pattern, prefix) if not pattern.endswith("...") else "outside"
    toks = t[0]
    words = [tok[1] if tok[0] == "lit" else "{}" for tok in toks]
    if len(words) >= 2 and toks[0] == ("lit", prefix):
        return " ".join(words[1:])
    return " ".join([prefix] + words)


def oracle(case, r):
    k = case["kind"]
    if k == "text":
        out = []
        for which in ("ordering", "acl", "patching"):
            if r["noisy"][which] != r["clean"][which]:
                out.append(dict(sig="rule-line-blank-runs-matter:" + which,
                                what="the %s compiler reads the rule line %r as %r but the same line with single blanks %r "
                                     "as %r" % (which, case["noisy"], r["noisy"][which], case["row"], r["clean"][which])))
        return out
    if k == "match":
        if "err" in r:
            return []
        ref = ref_match(case["pattern"], case["row"])
        if ref == "outside":
            return []
        if r["match"] != ref:
            return [dict(sig="pattern-semantics",
                         what="compile_row_regexp(%r).match(%r) gives %r, the rule language says %r" % (
                             case["pattern"], case["row"], r["match"], ref))]
        return []
    if k == "reverse":
        ref = ref_reverse(case["pattern"], case["prefix"])
        if ref == "outside":
            return []
        out = []
        if r["template"] != ref:
            out.append(dict(sig="reverse-template", what="_make_reverse(%r,%r) = %r, expected %r" % (
                case["pattern"], case["prefix"], r["template"], ref)))
        else:
            holes = ref.count("{}")
            exp = None
            if len(case["key"]) >= holes:
                exp = ref
                for kx in case["key"][:holes]:
                    exp = exp.replace("{}", kx, 1)
            # keys containing braces are outside the domain
            if not any("{" in kx or "}" in kx for kx in case["key"]) and r["cmd"] != exp:
                out.append(dict(sig="reverse-format", what="removal command %r, expected %r" % (r["cmd"], exp)))
        return out
    # negate: both compilers agree, and negating twice gives back the row unless it starts with the prefix twice
    out = []
    if r["ordering_reverse_pattern"] is not None and r["pattern_of_negated_row"] is not None \
            and "%" not in case["row"] and r["ordering_reverse_pattern"] != r["pattern_of_negated_row"]:
        out.append(dict(sig="negate-kinds-differ", what="ordering rule %r: reverse regexp %r, but the negated row %r compiles to %r" % (
            case["row"], r["ordering_reverse_pattern"], r["acl"], r["pattern_of_negated_row"])))
    from annet.annlib.rbparser import acl
    row, pre = case["row"], case["prefix"]
    twice = acl._make_reverse(r["acl"], pre)
    guard = row.startswith(pre + " " + pre + " ")
    if not guard and twice != row:
        out.append(dict(sig="negate-not-involutive", what="negating %r twice gives %r" % (row, twice)))
    exp = row[len(pre) + 1:] if row.startswith(pre + " ") else pre + " " + row
    if r["acl"] != exp:
        out.append(dict(sig="negate-wrong", what="negation of %r is %r, expected %r" % (row, r["acl"], exp)))
    return out


def nontrivial(case, r):
    if case["kind"] == "match":
        return len(case["pattern"].split(" ")) >= 2 and len(case["row"].split()) >= 2
    return True


def stats(case, r):
    k = case["kind"]
    lab = ["kind=" + k]
    if k == "match":
        g = tokenize(case["pattern"]) is not None
        lab.append("grammar" if g else "outside-grammar")
        if "err" in r:
            lab.append("re.error")
        else:
            lab.append(("match" if r["match"] is not None else "nomatch") + ("" if g else "-outside"))
        if "src" in case:
            lab.append("shipped:" + case["src"].split(":")[0])
    elif k == "reverse":
        lab.append("cmd" if r["cmd"] is not None else "format-error")
    return lab


def shrink_candidates(case):
    if case["kind"] != "match":
        return
    ws = case["row"].split(" ")
    for i in range(len(ws)):
        yield dict(case, row=" ".join(ws[:i] + ws[i + 1:]))
    ps = case["pattern"].split(" ")
    for i in range(len(ps)):
        if len(ps) > 1:
            yield dict(case, pattern=" ".join(ps[:i] + ps[i + 1:]))


def extra(tier, seed, ctx):
    """Same compiler everywhere: every compiled rule of every shipped rulebook (patching, ordering, deploying) and of
    compiled ACL / implicit texts carries exactly the regexp compile_row_regexp builds for its row."""
    setup_worker()
    from annet.annlib.netdev.views.hardware import HardwareView
    from annet.annlib.rbparser import syntax, acl
    from annet import rulebook
    viol, n = [], 0
    for model in HW_MODELS:
        hw = HardwareView(model, "")
        if hw.vendor is None:
            continue
        rb = rulebook.get_rulebook(hw)

        def chk(raw_rule, rx, what, flags=0):
            nonlocal n
            n += 1
            row = syntax._parse_raw_rule(raw_rule, {})[0]
            if row.startswith("!"):
                row = row[1:].strip()
            exp = syntax.compile_row_regexp(row, flags=flags)
            if exp.pattern != rx.pattern or exp.flags != rx.flags:
                viol.append(dict(case=dict(kind="compiler", model=model, raw_rule=raw_rule, what=what),
                                 impl=dict(pattern=rx.pattern), sig="different-compiler",
                                 what="%s rule %r of %s is compiled to %r, compile_row_regexp gives %r" % (
                                     what, raw_rule, model, rx.pattern, exp.pattern)))

        def walk_p(rules):
            for scope in ("local", "global"):
                for raw, rule in rules[scope].items():
                    rx = rule["attrs"]["regexp"]
                    chk(raw, rx, "patching", flags=rx.flags & re.IGNORECASE if "(?i)" not in raw else 0)
                    if rule.get("children"):
                        walk_p(rule["children"])
        walk_p(rb["patching"])

        def walk_o(rules, key):
            for raw, rule in rules.items():
                chk(raw, rule["attrs"][key], "ordering" if key == "direct_regexp" else "deploying")
                walk_o(rule["children"], key)
        walk_o(rb["ordering"], "direct_regexp")
        walk_o(rb["deploying"], "regexp")
    return dict(violations=viol, evaluations=n, coverage=dict(compiled_rules_checked_same_compiler=n,
                                                              shipped_rule_rows=len(shipped_lines())))
