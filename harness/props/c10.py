"""C10 — generators are confined to their ACL, own lines exclusively, and merge by union.

impl  : annet.gen._old_new_per_device on synthetic PartialGenerator subclasses built from op lists (block(),
        block_if(), multiblock(), str / tuple / multi-line yields, acl_<vendor> texts), stub device + storage.
        Unit streams: annet.generators.base._split_and_strip and the vendors' Formatter.split.
model : Annet.Gen.oldNew / runGen / splitAndStrip / split (Model/Gen.lean) through ops c10.*.
oracle: yielded-path bookkeeping done independently from the op lists (reference semantics of block paths and of
        multi-line yields, own offside reference parser), coverage / ownership evaluated per generator, union built
        by path insertion; for ACLs without %global and negated rows a fully independent rule matcher is used, else
        navigation through the rule tree uses annet's match_row_to_acl (what C06 checks).

Case format: {"vendor": v, "gens": [{"name": class name, "acl": ACL text, "ops": [op, ...]}, ...]} with
  op = ["y", text]                         yield text                (str; "\\n" inside = multi-line yield)
     | ["t", [val, ...]]                   yield (val, ...)          (val = str | int | None | [val, ...] nested tuple)
     | ["b", [val, ...], indent|None, ops] with self.block(*vals, indent=indent): ops
     | ["bi", [val, ...], cond|None, ops]  with self.block_if(*vals, condition=cond): ops   (None = default condition)
     | ["mb", [block, ...], ops]           with self.multiblock(*blocks): ops               (block = str | [val, ...])

Reusable entry points (used by other property modules, e.g. C17):
  run_old_new(device_model, generators, config_text=None, add_implicit=False, acl=True, exclusive=True)
      -> OldNewResult of the real annet.gen._old_new_per_device for one stub CLI device
  make_generator(name, vendor, acl_text, ops) -> synthetic PartialGenerator subclass interpreting an op list
  StubDevice(hw_model), StubStorage()         the stubs run_old_new uses
"""
import os
import random
import re
import textwrap
import types
from collections import OrderedDict as odict

ID = "C10"
RULE = ("cases = 1..4 synthetic PartialGenerator classes on one device (vendors huawei/arista/optixtrans/nexus/b4com: "
        "Huawei, remove-spaces and common splitters); each generator = op list (str, tuple with ints / nested tuples / "
        "None, multi-line triple-quote style yields, block with indent=, block_if with default and explicit "
        "conditions, multiblock; depth <= 4) derived from a random intended config tree over a shared row pool, "
        "and an ACL text derived from the same tree (literal / * / ~ generalisation, %cant_delete, %global, %prio, "
        "dropped rules = uncovered lines, foreign rules, negated rows); noise profiles: leading / trailing blanks, "
        "double blanks, comments, empty yields, None tokens; exhaustive stream: every program of <= 3 (thorough <= 4) "
        "statements over 6 (8) statement shapes before and inside a block, for one and for two generators; unit "
        "streams for _split_and_strip (random texts over blanks, tabs, newlines, CR, FF) and Formatter.split; "
        "non-trivial = >=2 generators or >=1 block, and >=3 yielded lines; distinct = distinct case")
EXHAUSTIVE = {"quick": True, "thorough": True}
TRUSTED_BASE = [
    "Lean 4.33 kernel; axioms per theorem are listed in axioms_per_theorem (subset of propext, Classical.choice, Quot.sound)",
    "correspondence harness harness/props/c10.py + compiled Lean driver (Lean compiler) evaluating Model/Gen.lean, "
    "Model/Offside.lean, Model/Acl.lean, Model/Implicit.lean (merge)",
    "synthetic PartialGenerator subclasses interpreting op lists, a stub device (HardwareView of the vendor) and a stub "
    "storage (flush_perf only); OldNewDeviceContext built by hand with config='empty', ACLs on, exclusive on, "
    "no implicit rules, no filter ACL, no acl_safe, no annotations",
    "ACL texts are parsed by the real syntax.parse_text (valkit validation included); the model starts from the parsed "
    "rule trees; the %generator_names tagging of _combine_acl_text is modelled on the parsed trees and compared with "
    "the real parse of the real combined text on every successful case",
    "CPython re / textwrap are not modelled as such: rule rows are matched by Model/Pattern.lean (tied by C07), "
    "textwrap.dedent is modelled by Gen.dedentLines and compared on every multi-line yield and in the unit stream",
    "oracle: reference path semantics (spec_entries, ref_parse_lines, simple_match) in harness/props/c10.py",
]
ASSUMPTIONS = [
    "yielded values are str / int / None / nested tuples (JuniperList, ParamsList, GenStringable objects are not generated)",
    "no yielded row contains the word None (the assertion of PartialGenerator.__call__ is not modelled)",
    "ACL rule rows inside the rule grammar, no ignore ('!') rules, one %cant_delete flag per line; the first line of an "
    "ACL text carries the smallest indentation; generator class names are distinct",
    "RefGenerators, annotations, acl_safe, perf measurement, tracing, implicit rules and filter ACLs are off",
    "Cisco/ASR/Juniper/Nokia/RouterOS splitters are C04's subject and not used here",
]

# vendor -> (hardware model, negation word, splitter of the model)
VENDORS = {
    "huawei": ("Huawei", "undo", "huawei"),
    "arista": ("Arista", "no", "removeSpaces"),
    "optixtrans": ("Huawei OptiXtrans", "undo", "common"),
    "nexus": ("Cisco Nexus", "no", "removeSpaces"),
    "b4com": ("B4com", "no", "removeSpaces"),
}
NOUNS = ["interface", "vlan", "ip", "description", "mtu", "bgp", "peer", "address", "shutdown", "port", "acl", "rule"]
VALS = ["Eth1", "Eth2", "10", "20", "foo", "1.1.1.1", "x", "9000", "Vlanif10", "0", "0"]
POLICY_END = ("end-list", "endif", "end-filter")
_STATE = {}


# ----------------------------------------------------------------------------- set-up, real-code adapters
def setup_worker():
    if _STATE.get("ready"):
        return
    import logging
    from annet.hardware import hardware_connector, AnnetHardwareProvider
    from annet.rulebook import rulebook_provider_connector, DefaultRulebookProvider

    def _set(conn, cls):
        conn._classes = [cls]
        if hasattr(conn, "_cache"):
            conn._cache = None

    _set(hardware_connector, AnnetHardwareProvider)
    _set(rulebook_provider_connector, DefaultRulebookProvider)
    logging.disable(logging.CRITICAL)
    _STATE["ready"] = True


class _Storage:
    def flush_perf(self):
        return None


class _Device:
    def __init__(self, hw_model):
        from annet.annlib.netdev.views.hardware import HardwareView
        self.hw = HardwareView(hw_model, None)
        self.hostname = "dev1"
        self.fqdn = "dev1.net"
        self.breed = "x"
        self.storage = _Storage()

    def is_pc(self):
        return False

    def __hash__(self):
        return 1

    def __eq__(self, other):
        return self is other

    def __repr__(self):
        return "dev1"


def _val(v):
    return tuple(_val(x) for x in v) if isinstance(v, list) else v


def _interp(self, ops):
    """the body of run_<vendor>: a Python generator using the real block()/block_if()/multiblock() context managers"""
    for op in ops:
        kind = op[0]
        if kind == "y":
            yield op[1]
        elif kind == "t":
            yield tuple(_val(x) for x in op[1])
        elif kind == "b":
            kw = {} if op[2] is None else {"indent": op[2]}
            with self.block(*[_val(x) for x in op[1]], **kw):
                yield from _interp(self, op[3])
        elif kind == "bi":
            kw = {} if op[2] is None else {"condition": op[2]}
            with self.block_if(*[_val(x) for x in op[1]], **kw):
                yield from _interp(self, op[3])
        elif kind == "mb":
            with self.multiblock(*[_val(b) for b in op[1]]):
                yield from _interp(self, op[2])
        else:
            raise ValueError(kind)


def _make_gen(name, vendor, acl, ops, acl_safe=None):
    from annet.generators import PartialGenerator

    def run(self, device):
        yield from _interp(self, ops)

    def aclf(self, device):
        return acl
    members = {"run_" + vendor: run, "acl_" + vendor: aclf}
    if acl_safe is not None:
        members["acl_safe_" + vendor] = lambda self, device: acl_safe
    return type(str(name), (PartialGenerator,), members)


def _tree(d):
    return [[k, _tree(v)] for k, v in d.items()]


def _odict(t):
    return odict((k, _odict(c)) for k, c in t)


def _conv_raw(tree):
    return [dict(row=a["row"], ignore=a["type"] == "ignore", **{"global": bool(a["params"]["global"])},
                 cant_delete=[bool(x) for x in a["params"]["cant_delete"]], prio=int(a["params"]["prio"]),
                 generator_names=list(a["params"]["generator_names"]), children=_conv_raw(a["children"]))
            for a in tree.values()]


def raw_rules(text):
    """syntax.parse_text on an ACL text -> the model's RawRule list"""
    from annet.annlib.rbparser import acl, syntax
    return _conv_raw(syntax.parse_text(text, acl._PARAMS_SCHEME))


StubStorage = _Storage
StubDevice = _Device
make_generator = _make_gen      # make_generator(name, vendor, acl_text, ops) -> PartialGenerator subclass


def run_old_new(device_model, generators, config_text=None, add_implicit=False, acl=True, exclusive=True,
                hostname="dev1", tags=None, acl_safe=False, filter_spec=None, no_new=False):
    """Run the real `annet.gen._old_new_per_device` for one stub CLI device and return its `OldNewResult`
    (`.old`, `.new`, `.err`, `.acl_rules`, `.partial_results`, `.implicit_rules`, ...).

    device_model : hardware model string given to `HardwareView` (e.g. "Huawei", "Huawei CE6870", "Arista",
                   "Huawei OptiXtrans", "Cisco Nexus"); it decides `device.hw.vendor`, the formatter and the
                   implicit / ACL vendor.  `run_<vendor>` / `acl_<vendor>` of the generators are looked up by it.
    generators   : list of `PartialGenerator` subclasses (instantiated here with the stub storage) and/or instances
                   (their `.storage` is replaced by the stub storage if it has no `flush_perf`).  Synthetic classes
                   can be built with `make_generator(name, vendor, acl_text, ops)` (ops: see module docstring / `_interp`).
    config_text  : the device's current configuration text ("" or None = empty device: `old` is what
                   `run_partial_initial` yields, i.e. empty except on Huawei CE); it is fed through `config="-"` /
                   `stdin["config"]`, the code path of `ann gen --config -`.
    add_implicit : `ctx.add_implicit` — complete `old` and `new` with `implicit.config(...)` before the ACLs.
    acl          : False = `--no-acl` (no own-ACL check, no merged ACL, no exclusivity check).
    exclusive    : False = `--no-acl-exclusive`.

    no_new       : True = `--clear` (the generators are not run: the desired configuration is empty).
    filter_spec  : None = no filter option; dict(mode="stdin"|"file"|"ifaces"|"file+ifaces", text=..., ifaces=...):
                   `--filter-acl -` with the text on stdin, `--filter-acl <file>` (a temporary file holding the text),
                   `-i <pattern>` with a Filterer stub whose for_ifaces() returns `ifaces`, or both.

    Everything else is off: no acl_safe, no annotations, no profiling, no Entire / JSON_FRAGMENT
    generators, no RefGenerators.  Exceptions of the real code (`GeneratorError`, `AclNotExclusiveError`, ...)
    propagate to the caller.  `setup_worker()` (connectors, logging off) is called first.
    """
    setup_worker()
    from annet import gen as agen
    dev = _Device(device_model)
    dev.hostname = hostname
    dev.fqdn = hostname + ".net"
    dev.tags = list(tags or [])
    gens = []
    for g in generators:
        if isinstance(g, type):
            g = g(dev.storage)
        elif not hasattr(getattr(g, "storage", None), "flush_perf"):
            g.storage = dev.storage
        gens.append(g)
    args = types.SimpleNamespace(
        fail_on_empty_config=False, no_acl=not acl, acl_safe=bool(acl_safe), generators_context=None, profile=False,
        no_acl_exclusive=not exclusive, required_packages_check=False, filter_acl=None, filter_ifaces=None,
        filter_peers=None, filter_policies=None)
    dg = agen.DeviceGenerators(partial={dev: gens}, ref={dev: []})
    if config_text:
        config, stdin = "-", {"config": config_text, "filter_acl": None}
    else:
        config, stdin = "empty", {"config": None, "filter_acl": None}
    filterer = None
    tmp = None
    if filter_spec:
        mode = filter_spec["mode"]
        if mode == "stdin":
            args.filter_acl = "-"
            stdin["filter_acl"] = filter_spec["text"]
        if mode in ("file", "file+ifaces"):
            import tempfile
            fd, tmp = tempfile.mkstemp(prefix="c10filter_", suffix=".acl")
            with os.fdopen(fd, "w") as fh:
                fh.write(filter_spec["text"])
            args.filter_acl = tmp
        if mode in ("ifaces", "file+ifaces"):
            args.filter_ifaces = ["x"]
            filterer = types.SimpleNamespace(for_ifaces=lambda device, pats: filter_spec["ifaces"])
    ctx = agen.OldNewDeviceContext(
        config=config, args=args, downloaded_files={}, failed_files={}, running={}, failed_running={},
        no_new=bool(no_new), stdin=stdin, add_annotations=False, add_implicit=add_implicit, do_files_download=False,
        gens=dg, fetched_packages={}, failed_packages={}, device_count=1, do_print_perf=False)
    try:
        return agen._old_new_per_device(ctx, dev, filterer)
    finally:
        if tmp:
            os.unlink(tmp)


def run_real(case):
    from annet import patching
    from annet.generators import GeneratorError
    from annet.generators.result import _combine_acl_text
    from annet.annlib.netdev.views.hardware import HardwareView
    vendor = case["vendor"]
    model = VENDORS[vendor][0]
    if HardwareView(model, None).vendor != vendor:
        return {"err": "harness", "msg": "hardware stub resolves to %s" % HardwareView(model, None).vendor}
    full = case.get("kind") == "full"
    # a generator written for another vendor only (no run_<vendor> / acl_<vendor>) does not support this device
    gens = [_make_gen(g["name"], "routeros" if g.get("unsupported") else vendor, g["acl"], g["ops"]) for g in case["gens"]]
    try:
        if full:
            r = run_old_new(model, gens, config_text=render_config(case["old"]), acl=not case["no_acl"],
                            exclusive=case["exclusive"], filter_spec=case["filter"])
        else:
            r = run_old_new(model, gens)
    except GeneratorError as e:
        c = e.__cause__
        cause = type(c).__name__
        if cause == "AclError":
            return {"err": "GeneratorError", "cause": "AclError", "msg": str(c)}
        if cause == "ParserError":
            m = re.search(r"line (\d+):", str(c))
            return {"err": "GeneratorError", "cause": "ParserError", "line": int(m.group(1)) if m else -1}
        m = re.match(r"<(.*)> on dev1$", str(e))
        return {"err": "GeneratorError", "cause": "generator", "gen": m.group(1) if m else str(e),
                "exc": cause}
    except patching.AclNotExclusiveError as e:
        return {"err": "AclNotExclusiveError", "msg": str(e)}
    if r.err:
        return {"err": "result.err", "msg": repr(r.err)[:200]}
    if full:
        return {"old": _tree(r.old), "new": _tree(r.new)}
    combined = raw_rules(_combine_acl_text(r.partial_results, lambda gr: gr.acl))
    return {"ok": _tree(r.new), "outputs": {n: p.output for n, p in r.partial_results.items()}, "combined": combined}


def impl(case):
    setup_worker()
    kind = case.get("kind", "run")
    if kind == "splitstrip":
        from annet.generators.base import _split_and_strip
        return {"ok": _split_and_strip(case["text"])}
    if kind == "split":
        from annet.vendors import registry_connector
        fmtr = registry_connector.get()[case["vendor"]].make_formatter()
        return {"ok": list(fmtr.split("\n".join(case["rows"]) + "\n"))}
    return run_real(case)



# ----------------------------------------------------------------------------- kind=full: device config + filter ACL
def render_config(tree, depth=0):
    """the device's configuration text: one row per line, children one blank deeper"""
    out = []
    for row, ch in tree:
        out.append(" " * depth + row + "\n")
        out.append(render_config(ch, depth + 1))
    return "".join(out)


def filter_text(spec):
    """what `build_filter_text` (gen.py:593-616) must hand over for the options of the case — written from the options'
    meaning: the --filter-acl text, then (on a new line) what the Filterer returns for -i"""
    mode = spec["mode"]
    if mode in ("stdin", "file"):
        return spec["text"]
    if mode == "ifaces":
        return spec["ifaces"]
    return (spec["text"] + "\n" if spec["text"] else "") + spec["ifaces"]


def _is_subtree(a, b):
    """a is an order-preserving sub-tree of b"""
    j = 0
    for row, ch in a:
        while j < len(b) and b[j][0] != row:
            j += 1
        if j == len(b) or not _is_subtree(ch, b[j][1]):
            return False
        j += 1
    return True


def _has_rules(text):
    return any(l.strip() and not l.strip().startswith("#") for l in textwrap.dedent(text).split("\n"))


def oracle_full(case, r):
    """clauses that need no matcher: what leaves `_old_new_per_device` is a sub-tree of the device configuration / of
    the generated rows; an ACL without a single rule (no generator provides one) and a requested filter without a
    single rule pass nothing; plus, for simple filter rules, coverage by the independent matcher"""
    if "old" not in r:
        if r.get("err") in ("harness", "result.err") or str(r.get("err", "")).startswith("Unexpected"):
            return [dict(sig="unexpected-result", what=_short(r))]
        return []
    vs = []
    if not _is_subtree(r["old"], case["old"]):
        vs.append(dict(sig="full.old-not-subtree-of-device-config", what="old=%s device=%s" % (r["old"], case["old"])))
    live = [g for g in case["gens"] if not g.get("unsupported")]
    if not case["no_acl"] and not any(_has_rules(g["acl"]) for g in live) and (r["old"] or r["new"]):
        vs.append(dict(sig="full.empty-generator-acl-passes-lines",
                       what="no generator provides an ACL rule, yet old=%s new=%s are passed on" % (r["old"], r["new"])))
    f = case["filter"]
    if f is not None:
        ft = filter_text(f)
        if not _has_rules(ft) and (r["old"] or r["new"]):
            vs.append(dict(sig="full.empty-filter-passes-lines",
                           what="a filter was requested (%s) and has no rule, yet old=%s new=%s are passed on"
                                % (f["mode"], r["old"], r["new"])))
        elif _has_rules(ft):
            try:
                rules = simple_rules(raw_rules(textwrap.dedent(ft)), VENDORS[case["vendor"]][1])
            except Exception:
                rules = None
            if rules is not None:
                rev = VENDORS[case["vendor"]][1]
                for side in ("old", "new"):
                    for pth in paths_of(r[side]):
                        # rows in negated form are covered through the rule's reverse form: not judged by this matcher
                        if any(x.split(" ")[0] == rev for x in pth):
                            continue
                        if simple_walk(rules, pth)[0] is False:
                            vs.append(dict(sig="full.filter-passes-uncovered-line",
                                           what="%s keeps %s which the filter %r does not cover" % (side, pth, ft)))
                            break
    return vs


def gen_full(rng):
    c = gen_case(rng)
    c["kind"] = "full"
    reverse = VENDORS[c["vendor"]][1]
    pools = [[_gen_row(rng, []) for _ in range(3)] for _ in range(3)]
    pools[0] = ["interface " + rng.choice(VALS)] + pools[0][:2]
    trees = []
    for g in c["gens"]:
        try:
            trees.append(tree_of_paths(spec_paths(g["ops"], VENDORS[c["vendor"]][2])))
        except Exception:
            pass
    # the device: some of what the generators produce, plus lines of its own
    old = []
    seen = set()
    for row, ch in [n for t in trees for n in _as_list(t)] + _gen_tree(rng, pools) + _gen_tree(rng, pools):
        if row in seen or rng.random() < 0.3 or not _plain(row):
            continue
        seen.add(row)
        old.append([row, _dedup(rng, ch)])
    rng.shuffle(old)
    c["old"] = old
    c["no_acl"] = rng.random() < 0.2
    c["exclusive"] = rng.random() < 0.7
    r = rng.random()
    if r < 0.3:
        # no generator provides an ACL rule: unsupported vendor, or a generator that yields and owns nothing
        for g in c["gens"]:
            if rng.random() < 0.5:
                g["unsupported"] = True
            else:
                g["ops"] = []
                g["acl"] = rng.choice(["", "\n", "    \n", "\n        # nothing here\n    "])
    elif r < 0.4 and len(c["gens"]) > 1:
        c["gens"][0]["unsupported"] = True
    r = rng.random()
    if r < 0.4:
        c["filter"] = None
    else:
        src = old + [n for t in trees for n in _as_list(t)]
        opts = dict(drop=0.5, cd=0.1, prio=0.05, **{"global": 0.1})
        empty = rng.choice(["", "", "\n", "   \n", "# comment only\n", "\n    # x\n"])

        def some_text():
            if rng.random() < 0.3 or not src:
                return empty
            return _render_acl(rng, _acl_lines(rng, src, reverse, opts)) or empty
        mode = rng.choice(["stdin", "file", "file", "ifaces", "ifaces", "file+ifaces"])
        text, ifaces = some_text(), some_text()
        if mode == "stdin" and not text:
            mode = "file"       # `--filter-acl -` with nothing on stdin is not a filter text but a file name
        if mode == "file+ifaces" and text.strip() and ifaces.strip():
            # two texts joined by a newline must share a margin to be one ACL text
            text, ifaces = textwrap.dedent(text).strip("\n"), textwrap.dedent(ifaces).strip("\n")
        c["filter"] = dict(mode=mode, text=text, ifaces=ifaces)
    return c


def _as_list(t):
    return [[k, _as_list(v)] for k, v in t.items()] if isinstance(t, dict) else t


def _plain(row):
    return bool(re.fullmatch(r"[A-Za-z0-9./_-]+( [A-Za-z0-9./_-]+)*", row)) and not row.startswith(POLICY_END)


def _dedup(rng, nodes):
    out, seen = [], set()
    for row, ch in nodes:
        if row in seen or not _plain(row):
            continue
        seen.add(row)
        out.append([row, _dedup(rng, ch)])
    return out


# ----------------------------------------------------------------------------- model adapters
def _mval(v):
    if isinstance(v, list):
        return [_mval(x) for x in v]
    if v is None:
        return None
    return str(v)


def _mops(ops):
    out = []
    for op in ops:
        k = op[0]
        if k == "y":
            out.append(["y", op[1]])
        elif k == "t":
            out.append(["t", [_mval(x) for x in op[1]]])
        elif k == "b":
            out.append(["b", [_mval(x) for x in op[1]], op[2], _mops(op[3])])
        elif k == "bi":
            out.append(["bi", [_mval(x) for x in op[1]], op[2], _mops(op[3])])
        elif k == "mb":
            out.append(["mb", [[_mval(x) for x in (b if isinstance(b, list) else [b])] for b in op[1]], _mops(op[2])])
    return out


def requests(case):
    setup_worker()
    kind = case.get("kind", "run")
    if kind == "splitstrip":
        return [dict(op="c10.splitstrip", text=case["text"])]
    if kind == "split":
        return [dict(op="c10.split", splitter=VENDORS[case["vendor"]][2], rows=case["rows"])]
    gens = []
    try:
        for g in case["gens"]:
            if g.get("unsupported"):
                continue        # `supports_device` is false: the generator is not run and contributes no ACL
            gens.append(dict(name=g["name"], ops=_mops(g["ops"]), acl=raw_rules(textwrap.dedent(g["acl"]))))
        flt = None
        if kind == "full" and case["filter"] is not None:
            flt = raw_rules(textwrap.dedent(filter_text(case["filter"])))
    except Exception:
        return []
    v = VENDORS[case["vendor"]]
    if kind == "full":
        return [dict(op="c10.oldnewfull", vendor=dict(reverse=v[1], juniper=False), splitter=v[2], gens=gens,
                     no_acl=case["no_acl"], exclusive=case["exclusive"], filter=flt, old=case["old"])]
    return [dict(op="c10.oldnew", vendor=dict(reverse=v[1], juniper=False), splitter=v[2], gens=gens)]


def model(case, resp):
    r = resp[0]
    if case.get("kind", "run") not in ("run", "full"):
        return r
    if r.get("grammar") is False:
        return {"skip": True}
    if "old" in r:
        return {"old": r["old"], "new": r["new"]}
    if "ok" in r:
        return {"ok": r["ok"], "outputs": {e[0]: "\n".join(e[1]) + "\n" for e in r["rows"] if e},
                "combined": r["combined"]}
    if r["err"] == "AclNotExclusiveError":
        return {"err": "AclNotExclusiveError",
                "msg": "'%s', generators: '%s'" % ("/ ".join(r["path"]), ", ".join(r["names"]))}
    if r["cause"] == "AclError":
        return {"err": "GeneratorError", "cause": "AclError", "msg": " / ".join(r["path"])}
    if r["cause"] == "ParserError":
        return {"err": "GeneratorError", "cause": "ParserError", "line": r["line"]}
    return {"err": "GeneratorError", "cause": "generator", "gen": r["gen"], "exc": "InvalidValueFromGenerator"}


# ----------------------------------------------------------------------------- reference semantics (oracle)
class SpecGeneratorRaises(Exception):
    pass


class SpecOutOfDomain(Exception):
    pass


def _flat(vals):
    for v in vals:
        if isinstance(v, list):
            yield from _flat(v)
        else:
            yield v


def _join(vals):
    out = []
    for v in vals:
        if v is None or isinstance(v, list):
            raise SpecGeneratorRaises()
        out.append(str(v))
    return " ".join(out)


def _own_lines(text):
    """the lines a yield stands for, relative to the block it is yielded in: a single line is the line itself
    (surrounding blanks are not significant); a multi-line text keeps its relative indentation (dedent + strip)"""
    if "\n" in text:
        return textwrap.dedent(text).strip().split("\n")
    return [text.strip()]


def _header(vals):
    h = _join(vals)
    if "\n" in h:
        raise SpecOutOfDomain("multi-line block header")
    return h.strip()


def spec_entries(ops, path=()):
    """[(block path, own lines)] in program order"""
    out = []
    for op in ops:
        k = op[0]
        if k == "y":
            out.append((path, _own_lines(op[1])))
        elif k == "t":
            out.append((path, _own_lines(_join(list(_flat(op[1]))))))
        elif k == "b":
            h = _header(op[1])
            if op[2] is not None and (op[2] == "" or op[2].strip(" \t") != ""):
                raise SpecOutOfDomain("block indent that is not blanks")
            out.append((path, [h]))
            out.extend(spec_entries(op[3], path + (h,)))
        elif k == "bi":
            cond = op[2]
            if cond is None:
                cond = all(t is not None and t != "" for t in op[1])
            if cond:
                h = _header(op[1])
                out.append((path, [h]))
                out.extend(spec_entries(op[3], path + (h,)))
            else:
                out.extend(spec_entries(op[3], path))
        elif k == "mb":
            p = path
            for b in op[1]:
                h = _header(b if isinstance(b, list) else [b])
                out.append((p, [h]))
                p = p + (h,)
            out.extend(spec_entries(op[2], p))
    return out


def _is_comment(body):
    return body == "" or body.startswith(("!", "#"))


def ref_parse_lines(lines):
    """offside rule on the lines of one yield, column 0 = the block's column; returns own paths (tuples) or None when
    the indentation is inconsistent.  Independent of annet and of the Lean files (nearest preceding line with a
    smaller indent, iterated)."""
    prev = []
    out = []
    for line in lines:
        body = line.strip()
        if _is_comment(body):
            continue
        k = len(line) - len(line.lstrip(" \t"))
        if prev:
            k0 = prev[-1][0]
            if k < k0:
                cols, bound = [k0], k0
                for j in range(len(prev) - 2, -1, -1):
                    if prev[j][0] < bound:
                        bound = prev[j][0]
                        cols.append(bound)
                if k not in cols and k != 0:
                    return None
        anc, bound = [], k
        for j in range(len(prev) - 1, -1, -1):
            if prev[j][0] < bound:
                anc.append(prev[j][1])
                bound = prev[j][0]
        out.append(tuple(reversed(anc)) + (body,))
        prev.append((k, body))
    return out


def _norm_row(row, splitter):
    if splitter != "common":
        row = re.sub(r"(?<=\S) {2,}(?=\S)", " ", row)
    return row


def spec_paths(ops, splitter):
    """yielded paths of one generator in program order; raises SpecGeneratorRaises / SpecOutOfDomain;
    returns None if some yield's own indentation is inconsistent (ParserError expected)"""
    paths = []
    for path, lines in spec_entries(ops):
        sig = [l for l in lines if not _is_comment(l.strip())]
        if sig and lines[0].strip() != "" and _is_comment(lines[0].strip()) and sig[0][:1] in (" ", "\t"):
            raise SpecOutOfDomain("multi-line yield starting with a comment followed by an indented line")
        own = ref_parse_lines(lines)
        if own is None:
            return None
        for p in own:
            full = tuple(_norm_row(r, splitter) for r in path + p)
            if splitter == "huawei" and any(r.startswith(POLICY_END) for r in full):
                raise SpecOutOfDomain("huawei policy end marker")
            paths.append(full)
    for p in paths:
        if any(_is_comment(r) for r in p):
            raise SpecOutOfDomain("block header that is a comment")
    return paths


def tree_of_paths(paths, tree=None):
    tree = [] if tree is None else tree
    for p in paths:
        node = tree
        for key in p:
            for ent in node:
                if ent[0] == key:
                    node = ent[1]
                    break
            else:
                ent = [key, []]
                node.append(ent)
                node = ent[1]
    return tree


def paths_of(t, pre=()):
    out = []
    for k, c in t:
        out.append(pre + (k,))
        out.extend(paths_of(c, pre + (k,)))
    return out


# --- ACL semantics: annet's matcher for navigation (general), an independent matcher for simple ACLs
def _compile(text, vendor):
    from annet.annlib.rbparser import acl
    return acl.compile_acl_text(text, vendor)


def first_unmatched_real(tree, rules, path=()):
    from annet.annlib import patching
    for row, ch in tree:
        match, cr = patching.match_row_to_acl(row, rules)
        if not match:
            return path + (row,)
        if match["is_reverse"] and all(match["attrs"]["cant_delete"]):
            continue
        r = first_unmatched_real(ch, cr, path + (row,))
        if r:
            return r
    return None


def first_conflict_real(tree, rules, path=()):
    """document-order first row, among the rows the merged ACL lets through, that >=2 generators may delete"""
    from annet.annlib import patching
    for row, ch in tree:
        ms = patching._find_acl_matches(row, rules)
        if not ms:
            continue
        owners = set()
        for (rule, _), _other in ms:
            for name, flag in zip(rule["attrs"]["generator_names"], rule["attrs"]["cant_delete"]):
                if not flag:
                    owners.add(name)
        if len(owners) > 1:
            return path + (row,), sorted(owners)
        match, cr = patching._select_match(ms, rules)
        if match is None or (match["is_reverse"] and all(match["attrs"]["cant_delete"])):
            continue
        r = first_conflict_real(ch, cr, path + (row,))
        if r:
            return r
    return None


_SIMPLE_WORD = re.compile(r"^[A-Za-z0-9_/:-]+$")


def simple_rules(raw, reverse):
    """the rule tree as [(words, deletable, children)] if the ACL is 'simple': no %global, no %prio, every rule word a
    plain literal, * or a final ~, no row starting with the negation word; else None"""
    out = []
    for r in raw:
        ws = r["row"].split(" ")
        if r["global"] or r["ignore"] or r["prio"] != 0 or len(r["cant_delete"]) != 1 or ws[0] == reverse:
            return None
        for i, w in enumerate(ws):
            if w in ("*",) or (w == "~" and i == len(ws) - 1):
                continue
            if not _SIMPLE_WORD.match(w):
                return None
        ch = simple_rules(r["children"], reverse)
        if ch is None:
            return None
        out.append((ws, not r["cant_delete"][0], ch))
    return out


def simple_match(ws, row):
    """rule words against a config row: words are compared one by one, * is any one word, a final ~ is a non-empty
    rest; a rule without ~ matches every row it is a word-prefix of"""
    rw = row.split()
    if row != row.strip() or "  " in row or "\t" in row:
        rw = re.split(r"\s+", row.strip())
    n = len(ws)
    if ws[-1] == "~":
        if len(rw) < n:
            return False
        ws = ws[:-1]
    elif len(rw) < n:
        return False
    return all(w == "*" or w == r for w, r in zip(ws, rw))


def simple_rules_rev(raw, reverse):
    """like simple_rules, but rule rows may start with the negation word (used for ownership only)"""
    out = []
    for r in raw:
        ws = r["row"].split(" ")
        if r["global"] or r["ignore"] or r["prio"] != 0 or len(r["cant_delete"]) != 1 or ws == [reverse]:
            return None
        for i, w in enumerate(ws):
            if w in ("*",) or (w == "~" and i == len(ws) - 1):
                continue
            if not _SIMPLE_WORD.match(w):
                return None
        ch = simple_rules_rev(r["children"], reverse)
        if ch is None:
            return None
        out.append((ws, not r["cant_delete"][0], ch))
    return out


def owns_deletably(rules, path, reverse):
    """does a simple rule tree hold a deletable rule matching the last row of the path, as written or in the other
    (negated / un-negated) form?  Children rules are handed down by direct matches only."""
    level = rules
    for i, row in enumerate(path):
        direct = [r for r in level if simple_match(r[0], row)]
        if i == len(path) - 1:
            other = [r for r in level if simple_match(r[0][1:] if r[0][0] == reverse else [reverse] + r[0], row)]
            return any(r[1] for r in direct + other)
        if not direct:
            return False
        level = [c for r in direct for c in r[2]]
    return False


def simple_walk(rules, path):
    """(covered, deletable at the last row) walking a simple rule tree along a path"""
    level = rules
    deletable = False
    for row in path:
        ms = [r for r in level if simple_match(r[0], row)]
        if not ms:
            return False, False
        deletable = any(r[1] for r in ms)
        level = [c for r in ms for c in r[2]]
    return True, deletable


# ----------------------------------------------------------------------------- oracle
def _leading_blank_sites(ops):
    """single-line yields / block headers whose text starts with a blank: returns a copy with those blanks removed and
    the number of sites"""
    n = 0
    out = []

    def joined(vals):
        fl = list(_flat(vals))
        if any(v is None for v in fl):
            return None
        t = " ".join(str(v) for v in fl)
        if "\n" not in t and t[:1] in (" ", "\t") and t.strip() != "":
            return t.lstrip()
        return None

    def fix_header(vals):
        nonlocal n
        if any(isinstance(v, list) for v in vals):
            return vals
        t = joined(vals)
        if t is None:
            return vals
        n += 1
        return [t]

    for op in ops:
        k = op[0]
        if k == "y":
            t = joined([op[1]])
            if t is not None:
                n += 1
            out.append(["y", op[1] if t is None else t])
        elif k == "t":
            t = joined(op[1])
            if t is not None:
                n += 1
            out.append(op if t is None else ["y", t])
        elif k == "b":
            sub, m = _leading_blank_sites(op[3])
            n += m
            out.append(["b", fix_header(op[1]), op[2], sub])
        elif k == "bi":
            sub, m = _leading_blank_sites(op[3])
            n += m
            toks = op[1] if any(t is None or t == "" for t in op[1]) else fix_header(op[1])
            out.append(["bi", toks, op[2], sub])
        elif k == "mb":
            sub, m = _leading_blank_sites(op[2])
            n += m
            out.append(["mb", [fix_header(b if isinstance(b, list) else [b]) for b in op[1]], sub])
    return out, n


def expected(case):
    """what the property prescribes for the case: dict(kind=ok|GeneratorError|AclNotExclusiveError, …) or
    dict(kind='ood') when the case is outside the oracle's domain"""
    vendor = case["vendor"]
    _hw, reverse, splitter = VENDORS[vendor]
    union = []
    texts = []
    own_drop = None
    simple = []
    for g in case["gens"]:
        try:
            paths = spec_paths(g["ops"], splitter)
        except SpecGeneratorRaises:
            return dict(kind="GeneratorError", cause="generator", gen=g["name"])
        except SpecOutOfDomain as e:
            return dict(kind="ood", why=str(e))
        if paths is None:
            return dict(kind="GeneratorError", cause="ParserError")
        tree = tree_of_paths(paths)
        acl_text = textwrap.dedent(g["acl"])
        rules = _compile(acl_text, vendor)
        fu = first_unmatched_real(tree, rules)
        sr = simple_rules(raw_rules(acl_text), reverse)
        if sr is not None and any(r.split(" ")[0] == reverse for p in paths for r in p):
            sr = None
        simple.append(sr)
        if sr is not None:
            fus = next((p for p in paths_of(tree) if not simple_walk(sr, p)[0]), None)
            if fus != fu:
                return dict(kind="oracle-disagrees", what="coverage: independent matcher says first uncovered = %r, "
                            "walk with annet's matcher says %r (generator %s)" % (fus, fu, g["name"]))
        if fu is not None:
            return dict(kind="GeneratorError", cause="AclError", msg=" / ".join(fu), gen=g["name"])
        # lines the generator's own ACL drops silently (negated form of a cant_delete rule): they never reach the merge
        from annet.annlib import patching
        kept = set(paths_of(_tree(patching.apply_acl(_odict(tree), rules))))
        lost = [p for p in paths_of(tree) if p not in kept]
        if lost and own_drop is None:
            own_drop = (g["name"], lost[0], _own_drop_mechanism(lost[0], rules, reverse))
        tree_of_paths([p for p in paths if all(p[:i] in kept for i in range(1, len(p) + 1))], union)
        texts.append((g["name"], g["acl"]))
    # merged ACL as _combine_acl_text builds it
    merged_text = ""
    for name, t in texts:
        for line in textwrap.dedent(t).split("\n"):
            if line and not line.isspace():
                merged_text += line.rstrip() + "  %generator_names=" + name + "\n"
    merged = _compile(merged_text, vendor)
    conflict = first_conflict_real(union, merged)
    if all(s is not None for s in simple):
        sc = None
        for p in paths_of(union):
            owners = sorted(n for (n, _t), s in zip(texts, simple) if simple_walk(s, p) == (True, True))
            if len(owners) > 1:
                sc = (p, owners)
                break
        if sc != conflict:
            return dict(kind="oracle-disagrees", what="ownership: independent matcher says first conflict = %r, walk "
                        "with annet's matcher says %r" % (sc, conflict))
    # ownership with negated forms, by an independent matcher: two generators own a yielded row deletably, one of
    # them possibly only through the other form of the row
    srs = [simple_rules_rev(raw_rules(textwrap.dedent(t)), reverse) for _n, t in texts]
    if all(x is not None for x in srs) and conflict is None:
        from annet.annlib import patching as _pt
        try:
            reached = set(paths_of(_tree(_pt.apply_acl(_odict(union), merged))))     # rows the merged ACL does not drop
        except Exception:  # noqa
            reached = set()
        for p in paths_of(union):
            if p not in reached:
                continue
            owners = sorted(n for (n, _t), x in zip(texts, srs) if owns_deletably(x, p, reverse))
            if len(owners) > 1:
                return dict(kind="oracle-disagrees", what="ownership: generators %s each hold a deletable rule matching the "
                            "yielded row %r (as written or in its negated form), no conflict is reported" % (owners, p))
    if conflict:
        return dict(kind="AclNotExclusiveError", path=conflict[0], names=conflict[1], own_drop=own_drop)
    return dict(kind="ok", union=union, own_drop=own_drop, merged_text=merged_text,
                independent=all(s is not None for s in simple))


def _own_drop_mechanism(path, rules, reverse):
    """is the silently dropped line matched by the reverse (negated / un-negated) form of a rule whose generators all
    have cant_delete?"""
    from annet.annlib import patching
    for i, row in enumerate(path):
        match, cr = patching.match_row_to_acl(row, rules)
        if not match:
            return "unexplained"
        if match["is_reverse"] and all(match["attrs"]["cant_delete"]):
            return "negated-cant-delete" if i == len(path) - 1 else "unexplained"
        rules = cr
    return "unexplained"


def classify_merge_loss(lost, merged_text, vendor):
    """why does the merged ACL drop a path every owner's ACL passes?  (the three mechanisms recorded for C06, and the
    union of the %global parameter when two generators have the same rule row)"""
    from annet.annlib import patching
    rules = _compile(merged_text, vendor)
    shadowed = None
    sticky = None
    for row in lost:
        ms = patching._find_acl_matches(row, rules)
        if not ms:
            return shadowed or sticky or "unexplained"
        (f_rule, f_cr), f_other = ms[0]
        if f_other["is_reverse"] and all(f_rule["attrs"]["cant_delete"]):
            return "reverse-cant-delete-outranks"
        shadowed = None
        if not f_cr:
            shadowed = "reverse-match-shadows-children" if f_other["is_reverse"] else "global-shadows-local-children"
        elif any(rule["children"] is None and rule["type"] == "normal" and len(rule["attrs"]["generator_names"]) > 1
                 for (rule, _cr), _o in ms):
            # a rule row that is local (with children) in one generator and %global in another is compiled as one
            # %global rule without children (the `global` parameters are united by `or`)
            shadowed = sticky = "same-row-global-in-other-generator"
        match, rules = patching._select_match(ms, rules)
        if match is None:
            return "unexplained"
    return "unexplained"


def _cmp(case, r, exp):
    """violations of the property on result r given the expectation exp (no F10a classification here)"""
    out = []
    kind = exp["kind"]
    if kind == "oracle-disagrees":
        return [dict(sig="acl-semantics-differ", what=exp["what"])]
    if kind in ("ok", "AclNotExclusiveError") and exp.get("own_drop"):
        name, lostp, why = exp["own_drop"]
        out.append(dict(sig="silent-drop.own-acl-" + why,
                        what="%r yielded by %s is dropped silently by its own ACL (negated form of a rule whose "
                             "generators all have cant_delete): no generator error, not in the result" % (lostp, name)))
    if kind == "GeneratorError":
        if r.get("err") != "GeneratorError":
            if exp["cause"] == "AclError":
                return [dict(sig="uncovered-line-not-refused", what="generator %s yields %r outside its ACL; the run "
                             "did not fail with a generator error: %s" % (exp["gen"], exp["msg"], _short(r)))]
            return [dict(sig="generator-failure-not-reported", what="expected GeneratorError (%s), got %s"
                         % (exp["cause"], _short(r)))]
        if exp["cause"] == "AclError":
            if r.get("cause") != "AclError":
                return [dict(sig="wrong-generator-error", what="expected the ACL error for %r, got %s" % (exp["msg"], _short(r)))]
            if r.get("msg") != exp["msg"]:
                return [dict(sig="wrong-line-named", what="generator error names %r, the first uncovered line is %r"
                             % (r.get("msg"), exp["msg"]))]
        elif r.get("cause") != exp["cause"]:
            return [dict(sig="wrong-generator-error", what="expected cause %s, got %s" % (exp["cause"], _short(r)))]
        elif exp["cause"] == "generator" and r.get("gen") != exp["gen"]:
            return [dict(sig="wrong-generator-named", what="error names %r, expected %r" % (r.get("gen"), exp["gen"]))]
        return out
    if kind == "AclNotExclusiveError":
        if r.get("err") != "AclNotExclusiveError":
            return out + [dict(sig="conflict-not-reported", what="generators %s may all delete %r; no exclusivity error: %s"
                         % (exp["names"], exp["path"], _short(r)))]
        m = re.match(r"^'(.*)', generators: '(.*)'$", r["msg"], re.S)
        names = sorted(m.group(2).split(", ")) if m else None
        if not m or m.group(1) != "/ ".join(exp["path"]) or names != exp["names"]:
            out.append(dict(sig="wrong-conflict-reported", what="reported %r, expected path %r generators %r"
                            % (r["msg"], exp["path"], exp["names"])))
        return out
    # kind == ok
    if r.get("err") == "AclNotExclusiveError":
        return out + [dict(sig="conflict-without-two-owners", what="exclusivity error %r although no yielded line has two "
                     "generators with a deletable rule" % r["msg"])]
    if r.get("err") == "GeneratorError":
        return out + [dict(sig="refused-although-covered", what="every yielded line is covered by its generator's ACL, "
                     "yet the run failed: %s" % _short(r))]
    if "ok" not in r:
        return [dict(sig="unexpected-result", what=_short(r))]
    want = paths_of(exp["union"])
    got = paths_of(r["ok"])
    extra = [p for p in got if p not in set(want)]
    if extra:
        out.append(dict(sig="union-extra-line", what="%r is in the result but was not yielded there" % (extra[0],)))
    lost = [p for p in want if p not in set(got)]
    if lost:
        why = classify_merge_loss(lost[0], exp["merged_text"], case["vendor"])
        out.append(dict(sig="union-lost.merged-acl." + why,
                        what="%r is covered by its generator's ACL but dropped silently by the merged ACL"
                             % (lost[0],)))
    if not extra and not lost and got != want:
        out.append(dict(sig="union-order", what="result lines are not in first-yielded order"))
    return out


def _short(r):
    return str({k: v for k, v in r.items() if k not in ("outputs", "combined")})[:300]


def oracle(case, r):
    setup_worker()
    kind = case.get("kind", "run")
    if kind == "splitstrip":
        t = case["text"]
        # multi-line: dedent, strip, split; single line: the stripped line (fix e9aec0a)
        got = r.get("ok")
        good = got == (textwrap.dedent(t).strip().split("\n") if "\n" in t else [t.strip()])
        return [] if good else [dict(sig="split-and-strip", what="_split_and_strip(%r) = %r" % (t, r))]
    if kind == "split":
        return []
    if kind == "full":
        return oracle_full(case, r)
    # malformed ACL texts (only shrinking produces them) are outside the property's domain
    try:
        for g in case["gens"]:
            t = textwrap.dedent(g["acl"])
            _compile(t, case["vendor"])
            first = [l for l in t.split("\n") if l.strip()][:1]
            if first and first[0][:1] in (" ", "\t"):
                return []
    except Exception:
        return []
    if r.get("err") in ("harness", "result.err") or str(r.get("err", "")).startswith("Unexpected"):
        return [dict(sig="unexpected-result", what=_short(r))]
    exp = expected(case)
    _STATE["last"] = (id(case), exp)
    if exp["kind"] == "ood":
        return []
    vs = _cmp(case, r, exp)
    if not vs:
        return []
    # F10a (fixed in e9aec0a, regression signature): is the deviation explained by single-line yields that start
    # with a blank?
    n = 0
    gens2 = []
    for g in case["gens"]:
        ops2, m = _leading_blank_sites(g["ops"])
        n += m
        gens2.append(dict(g, ops=ops2))
    if n:
        case2 = dict(case, gens=gens2)
        r2 = run_real(case2)
        exp2 = expected(case2)
        if exp2["kind"] != "ood":
            remaining = {v["sig"] for v in _cmp(case2, r2, exp2)}
            vanished = [v for v in vs if v["sig"] not in remaining]
            if vanished:
                how = "re-parented under the previous line" if "ok" in r or r.get("cause") == "AclError" \
                    else "refused (%s)" % r.get("cause", r.get("err"))
                return [v for v in vs if v["sig"] in remaining] + [dict(
                    sig="single-line-yield-leading-blank",
                    what="a single-line yield starting with a blank is not placed under its block path: %s "
                         "(without the blank the property holds); first deviation: %s" % (how, vanished[0]["what"]))]
    return vs


# ----------------------------------------------------------------------------- generators of cases
def shards(tier, seed):
    if tier == "quick":
        out = [dict(kind="run", seed=seed * 1000 + i, n=1000) for i in range(48)]
        out += [dict(kind="unit", seed=seed * 1000 + 500 + i, n=4000) for i in range(8)]
        out += [dict(kind="exh", part=i, parts=8) for i in range(8)]
        out += [dict(kind="full", seed=seed * 1000 + 700 + i, n=250) for i in range(8)]
    else:
        out = [dict(kind="run", seed=seed * 1000 + i, n=5000) for i in range(96)]
        out += [dict(kind="unit", seed=seed * 1000 + 500 + i, n=40000) for i in range(16)]
        out += [dict(kind="exh", part=i, parts=16, deep=True) for i in range(16)]
        out += [dict(kind="full", seed=seed * 1000 + 700 + i, n=4000) for i in range(16)]
    return out


def _gen_row(rng, pool):
    if pool and rng.random() < 0.7:
        return rng.choice(pool)
    ws = [rng.choice(NOUNS)]
    for _ in range(rng.choice([0, 1, 1, 2])):
        ws.append(rng.choice(VALS + NOUNS))
    return " ".join(ws)


def _gen_tree(rng, pools, depth=0):
    t = []
    seen = set()
    for _ in range(rng.randint(1, 3 if depth else 2)):
        row = _gen_row(rng, pools[min(depth, len(pools) - 1)])
        if row in seen:
            continue
        seen.add(row)
        ch = _gen_tree(rng, pools, depth + 1) if depth < 3 and rng.random() < (0.6 if depth == 0 else 0.35) else []
        t.append([row, ch])
    return t


def _generalise(rng, row, reverse):
    ws = row.split(" ")
    out = [ws[0]]
    for w in ws[1:]:
        r = rng.random()
        if r < 0.45 or not _SIMPLE_WORD.match(w):
            out.append("*")
        else:
            out.append(w)
    r = rng.random()
    if r < 0.15 and len(out) > 1:
        out = out[:rng.randint(1, len(out) - 1)] + ["~"]
    elif r < 0.2:
        out = ["~"]
    elif r < 0.25 and len(out) > 1:
        out = out[:-1]        # prefix rule
    return " ".join(out)


def _acl_lines(rng, tree, reverse, opts, depth=0):
    rules = odict()
    rows_here = {r for r, _ in tree}
    for row, ch in tree:
        if rng.random() < opts["drop"]:
            continue
        if row.startswith(reverse + " ") and row[len(reverse) + 1:] in rows_here and not ch and rng.random() < 0.5:
            continue        # the negated line is owned through the reverse form of its positive sibling's rule
        rr = _generalise(rng, row, reverse)
        rules.setdefault(rr, []).extend(ch)
    out = []
    for rr, ch in rules.items():
        params = []
        is_global = rng.random() < opts["global"]
        if is_global:
            params.append("%global")
        r = rng.random()
        if r < opts["cd"]:
            params.append("%cant_delete=" + rng.choice(["0", "1"]))
        if rng.random() < opts["prio"]:
            params.append("%prio=" + str(rng.randint(0, 3)))
        out.append((depth, rr + ("  " + " ".join(params) if params else "")))
        if ch and not is_global:
            out.extend(_acl_lines(rng, ch, reverse, opts, depth + 1))
    if rng.random() < 0.15:
        out.append((depth, _generalise(rng, _gen_row(rng, []), reverse)))
    return out


def _render_acl(rng, lines):
    if not lines:
        return ""
    unit = rng.choice(["    ", "  ", "    ", "\t"])
    style = rng.random()
    body = "\n".join(unit * d + t for d, t in lines)
    if style < 0.5:
        margin = rng.choice(["        ", "    ", "            "])
        return "\n" + "\n".join(margin + l for l in body.split("\n")) + "\n" + margin[:-4]
    if style < 0.6:
        return body
    if style < 0.7:
        return body.replace("\n", "\n\n", 1) + "\n"
    return body + "\n"


def _toks(rng, row, noise):
    """a row as tuple tokens: ints for numbers, sometimes a nested tuple"""
    ws = row.split(" ")
    vals = [int(w) if w.isdigit() and (w == "0" or not w.startswith("0")) and rng.random() < 0.7 else w for w in ws]
    if len(vals) >= 2 and rng.random() < 0.2:
        i = rng.randint(1, len(vals) - 1)
        vals = vals[:i] + [vals[i:]]
    if len(vals) >= 3 and rng.random() < 0.1:
        vals = [vals[0], [vals[1], [vals[2]]]] + vals[3:]
    if rng.random() < noise["none"]:
        vals.insert(rng.randint(0, len(vals)), None)
    return vals


def _render_text(rng, nodes, unit, depth=0):
    out = []
    for row, ch in nodes:
        out.append(unit * depth + row)
        out.extend(_render_text(rng, ch, unit, depth + 1))
    return out


def _multiline(rng, nodes, noise):
    unit = rng.choice(["  ", "    ", " ", "\t", "   "])
    lines = _render_text(rng, nodes, unit)
    if rng.random() < noise["blankline"]:
        lines.insert(rng.randint(0, len(lines)), rng.choice(["", "   ", "! c", "  # c"]))
    style = rng.random()
    if style < 0.6:
        margin = " " * rng.choice([4, 8, 12, 16])
        return "\n" + "\n".join(margin + l for l in lines) + "\n" + margin[:-4]
    if style < 0.8:
        margin = " " * 8
        return lines[0] + "\n" + "\n".join(margin + l for l in lines[1:]) if len(lines) > 1 else lines[0] + "\n"
    if style < 0.9:
        return "\n".join(lines)
    margin = rng.choice(["\t", "\t\t", " \t"])
    return "\n" + "\n".join(margin + l for l in lines) + "\n"


def _noisy(rng, row, noise):
    r = rng.random()
    if r < noise["lead"]:
        return rng.choice([" ", "  ", "\t"]) + row
    if r < noise["lead"] + noise["trail"]:
        return row + rng.choice([" ", "  "])
    if r < noise["lead"] + noise["trail"] + noise["double"] and " " in row:
        return row.replace(" ", rng.choice(["  ", "   "]), 1)
    return row


def _ops_of(rng, nodes, noise, depth=0):
    ops = []
    i = 0
    while i < len(nodes):
        row, ch = nodes[i]
        r = rng.random()
        # a run of siblings as one multi-line yield
        if r < 0.18:
            k = rng.randint(1, min(3, len(nodes) - i))
            ops.append(["y", _multiline(rng, nodes[i:i + k], noise)])
            i += k
            continue
        i += 1
        if not ch:
            r = rng.random()
            if r < 0.5:
                ops.append(["y", _noisy(rng, row, noise)])
            elif r < 0.93:
                ops.append(["t", _toks(rng, _noisy(rng, row, noise) if rng.random() < 0.3 else row, noise)])
            else:
                # an empty block
                ops.append(["b", [row], None, []])
            continue
        body = _ops_of(rng, ch, noise, depth + 1)
        r = rng.random()
        if r < 0.45:
            toks = [row] if rng.random() < 0.4 else [int(w) if w.isdigit() and (w == "0" or not w.startswith("0")) else w
                                                     for w in row.split(" ")]
            if rng.random() < noise["lead"] * 0.5:
                toks = [" " + str(toks[0])] + toks[1:]
            ind = rng.choice([" ", "    ", "\t", "   "]) if rng.random() < 0.12 else None
            ops.append(["b", toks, ind, body])
        elif r < 0.7:
            # block_if tokens: strings and numbers (0 included: falsy, but neither None nor "")
            toks = [int(w) if w.isdigit() and (w == "0" or not w.startswith("0")) and rng.random() < 0.6 else w
                    for w in row.split(" ")]
            r2 = rng.random()
            if r2 < 0.7:
                cond = None
            else:
                cond = rng.random() < 0.7
            if rng.random() < 0.15 and cond is None:
                toks = toks + [rng.choice([None, ""])]
            ops.append(["bi", toks, cond, body])
        elif r < 0.85 and len(ch) == 1 and ch[0][1]:
            # chain -> multiblock
            blocks = [row.split(" ") if rng.random() < 0.6 else row]
            node = ch[0]
            blocks.append(node[0].split(" ") if rng.random() < 0.6 else node[0])
            ops.append(["mb", blocks, _ops_of(rng, node[1], noise, depth + 2)])
        elif r < 0.9:
            ops.append(["mb", [row], body])
        else:
            ops.append(["y", _multiline(rng, [[row, ch]], noise)])
    if rng.random() < noise["comment"]:
        ops.insert(rng.randint(0, len(ops)), ["y", rng.choice(["!", "! comment", "", "#", "# x", " ! y"])])
    return ops


def gen_case(rng):
    vendor = rng.choice(["huawei", "huawei", "arista", "optixtrans", "nexus", "b4com"])
    reverse = VENDORS[vendor][1]
    ngen = rng.choice([1, 2, 2, 3, 3, 4])
    profile = rng.random()
    # most cases are 'clean' (no noise that triggers recorded findings) so that every clause is exercised
    noise = dict(lead=0.03, trail=0.02, double=0.02, none=0.0, blankline=0.05, comment=0.03)
    opts = dict(drop=0.04, cd=0.35, prio=0.0, **{"global": 0.0})
    if profile < 0.12:
        noise["lead"] = 0.15
    elif profile < 0.2:
        noise["none"] = 0.04
    if 0.2 <= profile < 0.45:
        opts["global"] = 0.12
        opts["prio"] = 0.1
    if 0.45 <= profile < 0.6:
        opts["drop"] = 0.0
    pools = [[_gen_row(rng, []) for _ in range(3)] for _ in range(3)]
    pools[0] = [" ".join(["interface", rng.choice(VALS)]), "interface " + rng.choice(VALS)] + pools[0][:2]
    if 0.6 <= profile < 0.68:
        pools[1].append(reverse + " " + rng.choice(pools[1]))
        pools[0].append(reverse + " " + rng.choice(pools[0]))
    if 0.68 <= profile < 0.76:
        # commands whose first word merely BEGINS with the negation word (`notify`, `node`, `undoable`), and their
        # negated forms: `no notify …` is covered by the rule `notify …` through its reverse form
        near = reverse + rng.choice(["tify", "de", "able", "x"]) + " " + rng.choice(VALS)
        lvl = rng.choice([0, 1])
        pools[lvl].append(near)
        pools[lvl].append(reverse + " " + near)
    gens = []
    for gi in range(ngen):
        tree = _gen_tree(rng, pools)
        acl = _render_acl(rng, _acl_lines(rng, tree, reverse, opts))
        gens.append(dict(name="G%d" % gi, acl=acl, ops=_ops_of(rng, tree, noise)))
    return dict(vendor=vendor, gens=gens)


def gen_unit(rng):
    if rng.random() < 0.6:
        alphabet = ["a", "b c", " ", " ", "  ", "\t", "\n", "\n", "\n    ", "\n  ", "!", "x  y", "\r", "\x0c", "\n\t", " ", " "]
        text = "".join(rng.choice(alphabet) for _ in range(rng.randint(0, 12)))
        return dict(kind="splitstrip", text=text)
    vendor = rng.choice(list(VENDORS))
    words = ["a", "b", " ", "  ", "   ", "\t", "endif", "end-list x", "end-filter", "!", "#", "c  d", " ", "e", "xendif"]
    rows = ["".join(rng.choice(words) for _ in range(rng.randint(0, 6))) for _ in range(rng.randint(0, 5))]
    return dict(kind="split", vendor=vendor, rows=rows)


def gen_exhaustive(deep=False):
    """every program of <= 3 (thorough: <= 4) statements over a small statement alphabet, inside and before a block,
    for one generator and for two generators sharing the block"""
    import itertools
    stmts = [["y", "a"], ["y", " a"], ["y", "b x"], ["t", ["b", 1]], ["y", "a\n  c\nd"], ["y", "\n    c\n      d\n    "]]
    if deep:
        stmts += [["bi", ["c", None], None, [["y", "d"]]], ["mb", [["c"], "d"], [["y", "a"]]]]
    acl = "a\n    c\n        d\n            a\n    d\n    b *\n    a\nb *\nc\n    d\n        a\nd\n"
    limit = 4 if deep else 3
    progs = []
    for n in range(0, limit):
        for body in itertools.product(stmts, repeat=n):
            progs.append(list(body))
    for body in progs:
        for pre in progs:
            if len(pre) + len(body) > limit:
                continue
            ops = pre + [["b", ["a"], None, body]]
            yield dict(vendor="huawei", gens=[dict(name="G0", acl=acl, ops=ops)])
            yield dict(vendor="arista", gens=[dict(name="G0", acl=acl, ops=ops),
                                              dict(name="G1", acl="a %cant_delete=1\n  b *\nb ~\n", ops=body)])


def gen(desc):
    if desc["kind"] == "exh":
        for i, c in enumerate(gen_exhaustive(desc.get("deep", False))):
            if i % desc["parts"] == desc["part"]:
                yield c
        return
    rng = random.Random(desc["seed"])
    for _ in range(desc["n"]):
        yield gen_case(rng) if desc["kind"] == "run" else gen_full(rng) if desc["kind"] == "full" else gen_unit(rng)


# ----------------------------------------------------------------------------- evidence labels, shrinking
def _count_ops(ops):
    n = dict(y=0, t=0, b=0, bi=0, mb=0, ml=0, depth=0)
    for op in ops:
        n[op[0]] += 1
        if op[0] == "y" and "\n" in op[1]:
            n["ml"] += 1
        body = op[3] if op[0] in ("b", "bi") else op[2] if op[0] == "mb" else None
        if body is not None:
            m = _count_ops(body)
            for k in ("y", "t", "b", "bi", "mb", "ml"):
                n[k] += m[k]
            n["depth"] = max(n["depth"], 1 + m["depth"])
    return n


def nontrivial(case, r):
    if case.get("kind") == "full":
        return len(paths_of(case["old"])) >= 3 and (case["filter"] is not None or any(g.get("unsupported") for g in case["gens"]))
    if case.get("kind", "run") != "run":
        return len(case.get("text", "")) > 3 or len(case.get("rows", [])) > 1
    tot = [_count_ops(g["ops"]) for g in case["gens"]]
    lines = sum(t["y"] + t["t"] + t["b"] + t["bi"] + t["mb"] for t in tot)
    return lines >= 3 and (len(case["gens"]) >= 2 or any(t["b"] + t["bi"] + t["mb"] for t in tot))


def stats(case, r):
    kind = case.get("kind", "run")
    if kind == "full":
        f = case["filter"]
        live = [g for g in case["gens"] if not g.get("unsupported")]
        lab = ["full", "full:vendor=" + case["vendor"], "full:filter=" + (f["mode"] if f else "none"),
               "full:no_acl=%d" % case["no_acl"], "full:exclusive=%d" % case["exclusive"],
               "full:generators-with-acl-rules=%d" % sum(1 for g in live if _has_rules(g["acl"])),
               "full:unsupported-generators=%d" % (len(case["gens"]) - len(live))]
        if f:
            lab.append("full:filter-has-rules=%d" % _has_rules(filter_text(f)))
        if "old" in r:
            lab.append("full:result=ok")
            lab.append("full:old-kept=%s" % ("none" if not r["old"] else "all" if r["old"] == case["old"] else "part"))
            lab.append("full:new-lines=%d" % min(10, len(paths_of(r["new"]))))
        else:
            lab.append("full:result=%s%s" % (r.get("err"), "/" + r["cause"] if "cause" in r else ""))
        return lab
    if kind != "run":
        return ["unit=" + kind]
    lab = ["vendor=" + case["vendor"], "generators=%d" % len(case["gens"])]
    if "ok" in r:
        lab.append("result=ok")
        lab.append("result-lines=%d" % min(20, 5 * (len(paths_of(r["ok"])) // 5)))
    else:
        lab.append("result=%s%s" % (r.get("err"), "/" + r["cause"] if "cause" in r else ""))
    tot = dict(y=0, t=0, b=0, bi=0, mb=0, ml=0, depth=0)
    for g in case["gens"]:
        c = _count_ops(g["ops"])
        for k in tot:
            tot[k] = max(tot[k], c[k]) if k == "depth" else tot[k] + c[k]
    for k, name in (("t", "tuple-yield"), ("ml", "multi-line-yield"), ("b", "block"), ("bi", "block_if"), ("mb", "multiblock")):
        if tot[k]:
            lab.append("has-" + name)
    lab.append("depth=%d" % tot["depth"])
    acl = "\n".join(g["acl"] for g in case["gens"])
    for p in ("%global", "%cant_delete", "%prio"):
        if p in acl:
            lab.append("acl-" + p[1:])
    try:
        last = _STATE.get("last")
        exp = last[1] if last and last[0] == id(case) else expected(case)
        lab.append("expected=" + exp["kind"])
        if exp.get("independent"):
            lab.append("oracle-independent-matcher")
    except Exception:
        lab.append("expected-crash")
    return lab


def shrink_candidates(case):
    if case.get("kind") == "full":
        gens = case["gens"]
        for i in range(len(gens)):
            yield dict(case, gens=gens[:i] + gens[i + 1:])
        old = case["old"]
        for i in range(len(old)):
            yield dict(case, old=old[:i] + old[i + 1:])
            if old[i][1]:
                yield dict(case, old=old[:i] + [[old[i][0], []]] + old[i + 1:])
        if case["filter"] is not None:
            f = case["filter"]
            for k in ("text", "ifaces"):
                ls = [l for l in f[k].split("\n") if l.strip()]
                for i in range(len(ls)):
                    yield dict(case, filter=dict(f, **{k: "\n".join(ls[:i] + ls[i + 1:]) + ("\n" if len(ls) > 1 else "")}))
        for gi, g in enumerate(gens):
            if g["ops"]:
                yield dict(case, gens=gens[:gi] + [dict(g, ops=g["ops"][:-1])] + gens[gi + 1:])
        return
    if case.get("kind", "run") != "run":
        if "text" in case:
            t = case["text"]
            for i in range(len(t)):
                yield dict(case, text=t[:i] + t[i + 1:])
        else:
            rows = case["rows"]
            for i in range(len(rows)):
                yield dict(case, rows=rows[:i] + rows[i + 1:])
        return
    gens = case["gens"]
    for i in range(len(gens)):
        if len(gens) > 1:
            yield dict(case, gens=gens[:i] + gens[i + 1:])

    def drops(ops):
        for i in range(len(ops)):
            yield ops[:i] + ops[i + 1:]
            op = ops[i]
            bi = 3 if op[0] in ("b", "bi") else 2 if op[0] == "mb" else None
            if bi is not None:
                yield ops[:i] + op[bi] + ops[i + 1:]
                for sub in drops(op[bi]):
                    yield ops[:i] + [op[:bi] + [sub]] + ops[i + 1:]
    for gi, g in enumerate(gens):
        for ops in drops(g["ops"]):
            yield dict(case, gens=gens[:gi] + [dict(g, ops=ops)] + gens[gi + 1:])
        ls = [l for l in g["acl"].split("\n") if l.strip()]
        for i in range(len(ls)):
            nl = ls[:i] + ls[i + 1:]
            yield dict(case, gens=gens[:gi] + [dict(g, acl="\n".join(nl) + "\n")] + gens[gi + 1:])


def search(case):
    if case.get("kind", "run") != "run":
        return
    rng = random.Random(len(str(case)))
    for _ in range(200):
        c = gen_case(rng)
        c["vendor"] = case["vendor"]
        yield c
