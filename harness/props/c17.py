"""C17 — implicit defaults. impl: implicit.compile_rules/compile_tree, implicit.config, lib.merge_dicts;
model: Annet.Implicit.config/merge; oracle: keeps-explicit, idempotence, iff, no spurious command (shipped rulebooks)."""
import random
from collections import OrderedDict as odict

from harness import rbgen
from harness.props import c07

ID = "C17"
RULE = ("(implicit rule set, tree[, second tree]): rule sets = every hardware branch of implicit._implicit_tree (Huawei CE/NE/"
        "other, Arista, Nexus basic/N3x/N3432/N9316/N9364/N9500+spine1, Cisco Catalyst 2900/3500/3600/other, Cisco non-Catalyst) "
        "and random rule trees over the rule grammar; trees instantiate the rules' rows at the right parents plus near misses "
        "(extra word, other value) and unrelated rows; for shipped branches a second tree and the vendor's real rulebook give "
        "the patch clause; non-trivial = the completion adds >=1 default and the tree has >=2 rows; distinct = distinct case")
TRUSTED_BASE = [
    "Lean 4.33 kernel; axioms per theorem listed (subset of propext, Classical.choice, Quot.sound)",
    "rule rows matched by Model/Pattern.lean (tied to CPython re by C07); hardware branches whose rule rows are outside the "
    "grammar (regex rows) are checked by the oracle only",
    "harness/props/c17.py and the compiled Lean driver",
]
ASSUMPTIONS = ["rows are non-empty", "the patch clause uses the shipped rulebook of the hardware model (vendor logics executed, not modelled)"]

BRANCHES = [("Huawei CE6870", []), ("Huawei NE40E", []), ("Huawei S5300", []), ("Arista DCS-7280", []),
            ("Cisco Nexus 9336", []), ("Cisco Nexus 3132", []), ("Cisco Nexus 3432", []), ("Cisco Nexus 9316", []),
            ("Cisco Nexus 9364", []), ("Cisco Nexus 9508", ["spine1"]), ("Cisco Catalyst 2960", []),
            ("Cisco Catalyst 3560", []), ("Cisco Catalyst 3650", []), ("Cisco Catalyst 4500", []), ("Cisco 7600", [])]
VALS = ["0", "1", "Eth1", "Vlan10", "mgmt0", "Ethernet1/1", "Loopback0", "port-channel1", "65000", "10.0.0.1", "x"]


def setup_worker():
    rbgen.setup()


class Dev:
    def __init__(self, model, tags):
        from annet.annlib.netdev.views.hardware import HardwareView
        self.hw = HardwareView(model, "")
        self.tags = tags
        self.hostname = "dev"
        self.breed = "x"


def shards(tier, seed):
    n = 60 if tier == "quick" else 6000
    out = [dict(kind="hw", branch=i, seed=seed * 100 + i, n=n) for i in range(len(BRANCHES))]
    out += [dict(kind="gen", seed=seed * 1000 + i, n=150 if tier == "quick" else 20000) for i in range(8)]
    out += [dict(kind="e2e", branch=i, seed=seed * 100 + 50 + i, n=12 if tier == "quick" else 600) for i in range(len(BRANCHES))]
    return out


def dump_rules(rules):
    return [dict(row=row, ignore=r["type"] == "ignore", children=dump_rules(r["children"])) for row, r in rules.items()]


def inst(rng, row):
    ws = []
    for w in row.split(" "):
        if w == "*" or w.startswith("*/"):
            ws.append(rng.choice(VALS))
        elif w == "~":
            ws.extend(rng.choice(VALS) for _ in range(rng.randint(1, 2)))
        elif any(c in w for c in "*?[]"):
            ws.append(rng.choice(VALS))
        else:
            ws.append(w)
    return " ".join(ws)


def gen_tree(rng, rules, depth=0):
    t, seen = [], set()
    for r in rules:
        k = rng.random()
        if k < 0.45:
            continue
        row = inst(rng, r["row"])
        if k > 0.85:
            row = row + " " + rng.choice(["idle", "x", "2"])          # near miss / prefix match
        elif k > 0.8:
            ws = row.split(" ")
            ws[-1] = rng.choice(VALS)
            row = " ".join(ws)
        if row in seen:
            continue
        seen.add(row)
        t.append([row, gen_tree(rng, r["children"], depth + 1) if depth < 3 else []])
        if any(c in r["row"] for c in "*~") and rng.random() < 0.4:
            row2 = inst(rng, r["row"])
            if row2 not in seen:
                seen.add(row2)
                t.append([row2, gen_tree(rng, r["children"], depth + 1) if depth < 3 else []])
    if rng.random() < 0.5:
        t.insert(rng.randint(0, len(t)), ["sysname " + rng.choice(VALS), []])
    return t


def gen_rules_text(rng, depth=0):
    lines = []
    used = set()
    for _ in range(rng.randint(1, 4)):
        n = rng.randint(1, 3)
        ws = [rng.choice(rbgen.NOUNS)] + [rng.choice(rbgen.NOUNS + ["*", "3"]) for _ in range(n - 1)]
        if rng.random() < 0.15:
            ws.append("~")
        row = " ".join(ws)
        if row in used:
            continue
        used.add(row)
        ign = rng.random() < 0.4
        lines.append((depth, ("!" if ign else "") + row))
        if depth < 2 and rng.random() < (0.7 if ign else 0.2):
            lines.extend(gen_rules_text(rng, depth + 1))
    return lines


def gen(desc):
    from annet import implicit
    rng = random.Random(desc["seed"])
    if desc["kind"] == "hw":
        model, tags = BRANCHES[desc["branch"]]
        rules = dump_rules(implicit.compile_rules(Dev(model, tags)))
        for _ in range(desc["n"]):
            yield dict(kind="hw", model=model, tags=tags, tree=gen_tree(rng, rules), tree2=gen_tree(rng, rules))
    elif desc["kind"] == "e2e":
        # the whole `ann gen/diff/patch` path for one device: device text (tree) and a generator whose ACL owns the
        # sections of the defaults but whose output (tree2) does not necessarily print them
        model, tags = BRANCHES[desc["branch"]]
        rules = dump_rules(implicit.compile_rules(Dev(model, tags)))
        for k in range(desc["n"]):
            dev_tree = [] if k % 3 == 0 else gen_tree(rng, rules)
            yield dict(kind="e2e", model=model, tags=tags, tree=dev_tree, tree2=gen_tree(rng, rules),
                       drop_acl=rng.random() < 0.15)
    else:
        for _ in range(desc["n"]):
            text = rbgen.render(gen_rules_text(rng))
            rules = dump_rules(implicit.compile_tree(implicit.parse_text(text)))
            yield dict(kind="gen", text=text, tree=gen_tree(rng, rules))


def rules_of(case):
    from annet import implicit
    if case["kind"] in ("hw", "e2e"):
        return implicit.compile_rules(Dev(case["model"], case["tags"]))
    return implicit.compile_tree(implicit.parse_text(case["text"]))


def complete(tree, rules):
    from annet import implicit
    from annet.annlib.lib import merge_dicts
    imp = implicit.config(tree, rules)
    return imp, merge_dicts(tree, imp)


def _history_result():
    import json
    import os
    import subprocess
    import sys
    from harness.core import paths
    env = dict(os.environ)
    env["PYTHONWARNINGS"] = "ignore"
    p = subprocess.run([sys.executable, "-W", "ignore", "-c", _HIST_CODE % (paths.VERIF, paths.REPO)],
                       stdout=subprocess.PIPE, stderr=subprocess.PIPE, cwd=paths.VERIF, env=env, timeout=600)
    if p.returncode != 0:
        raise RuntimeError("history process failed: " + p.stderr.decode()[-2000:])
    return json.loads(p.stdout.decode())


def impl(case):
    if case["kind"] == "rules-history":
        res = _history_result()
        i = [list(v) for v in res["variants"]].index([case["model"], case["tags"]])
        return {"differs": res[case["order"]][i] != res["fresh"][i]}
    rules = rules_of(case)
    imp, m = complete(rbgen.to_odict(case["tree"]), rules)
    return {"implicit": rbgen.to_list(imp), "merged": rbgen.to_list(m)}


def requests(case):
    if case["kind"] == "rules-history":
        return []
    return [dict(op="c17.complete", rules=dump_rules(rules_of(case)), tree=case["tree"])]


def model(case, resp):
    r = resp[0]
    if r.get("grammar") is False:
        return {"skip": True}
    return r


# ------------------------------------------------------------------ oracle
def ordered_sub(sub, t):
    i = 0
    for k, c in sub:
        while i < len(t) and t[i][0] != k:
            i += 1
        if i == len(t) or not ordered_sub(c, t[i][1]):
            return False
        i += 1
    return True


def cross_match(rules):
    """a default row that another rule of the same level also matches (then a second completion may add below it)"""
    for row, r in rules.items():
        if r["type"] != "ignore":
            for row2, r2 in rules.items():
                if row2 != row and r2["regexp"].match(row) and r2["children"]:
                    return True
        if cross_match(r["children"]):
            return True
    return False


def iff_check(t, m, rules, path, out):
    for row, r in rules.items():
        matched = [l for l in t if r["regexp"].match(l)]
        # implicit.config keeps, per line, only the result of the LAST rule matching it; the shipped rule sets have
        # pairwise disjoint sibling patterns, generated ones may not: lines matched by several rules are skipped
        matched_all = matched
        matched = [l for l in matched if sum(1 for r2 in rules.values() if r2["regexp"].match(l)) == 1]
        if r["type"] != "ignore":
            want = (not matched_all) or row in t
            if (row in m) != want:
                out.append(dict(sig="default-presence", what="default %r at %r: present=%s although the tree has %s row of that kind"
                                % (row, path, row in m, "no" if not matched else "a")))
        for l in matched:
            iff_check(t[l], m[l], r["children"], path + (l,), out)


def cmd_rows(pt, path=()):
    for it in pt.itms:
        yield path + (str(it.row),)
        if it.child is not None:
            yield from cmd_rows(it.child, path + (str(it.row),))


def default_paths(t, rules, path=()):
    """(path of a default row, does the tree have a row matching the rule's pattern at that parent)"""
    for row, r in rules.items():
        matched = [l for l in t if r["regexp"].match(l)]
        if r["type"] != "ignore":
            yield path + (row,), bool(matched)
        for l in matched:
            yield from default_paths(t[l], r["children"], path + (l,))


def patch_clause(case, rules, out):
    from annet import api
    t, u = rbgen.to_odict(case["tree"]), rbgen.to_odict(case["tree2"])
    _, mt = complete(t, rules)
    _, mu = complete(u, rules)
    dev = Dev(case["model"], case["tags"])
    try:
        diff, pt = api._diff_and_patch(dev, mt, mu, None, None, False)
    except Exception:
        return

    def entries(d, path=()):
        for (op, row, ch, _m) in d:
            if op in ("added", "removed"):
                yield path + (row,)
            yield from entries(ch, path + (row,))
    changed = set(entries(diff))
    dt = dict(default_paths(t, rules))
    du = dict(default_paths(u, rules))

    def has(tree, path):
        for k in path:
            if k not in tree:
                return False
            tree = tree[k]
        return True
    for p in set(dt) | set(du):
        # the default is absent from both t and u, yet the diff reports it added or removed (=> a command)
        if has(t, p) or has(u, p) or p not in changed:
            continue
        kind_present = dt.get(p, False) or du.get(p, False)
        one_sided_parent = has(t, p[:-1]) != has(u, p[:-1])
        out.append(dict(sig="default-toggles-with-matching-row" if kind_present else
                        "default-under-one-sided-parent" if one_sided_parent else "spurious-default-command",
                        what="diff entry (and command) for %r although that default is in neither config" % (p,)))
        return


def _ops(tree):
    return [["b", [row], None, _ops(ch)] if ch else ["y", row] for row, ch in tree]


def _text(tree, depth=0):
    return "".join(" " * depth + row + "\n" + _text(ch, depth + 1) for row, ch in tree)


def _acl_text(case, rules):
    """an ACL that owns every section a default, a device row or a generated row lives in (first word + ~, children ~)"""
    heads = []
    for row in list(rules) + [r for r, _ in case["tree"]] + [r for r, _ in case["tree2"]]:
        h = row.split(" ")[0]
        if h == "no" and len(row.split(" ")) > 1:
            h = "no " + row.split(" ")[1]
        if h not in heads:
            heads.append(h)
    if case.get("drop_acl") and len(heads) > 1:
        heads = heads[1:]
    return "".join("%s ~\n    ~\n        ~\n" % h if h.split(" ")[-1] != "~" else h + "\n" for h in heads)


def e2e_safe_clause(case, rules, out):
    """the --acl-safe view of the same pipeline: two generators, the first one 'safe' (its acl_safe is its ACL), the second
    one not (no safe ACL); the safe desired configuration must be the safe generators' output completed with the defaults
    of THAT output (and filtered by the safe ACL), not of the whole output"""
    from annet import implicit
    from annet.annlib import patching
    from annet.annlib.lib import merge_dicts
    from annet.generators import compile_acl_text
    from harness.props import c10
    dev = Dev(case["model"], case["tags"])
    vendor = dev.hw.vendor
    half = max(1, len(case["tree2"]) // 2)
    safe_part, other_part = case["tree2"][:half], case["tree2"][half:]
    acl1 = _acl_text(dict(case, tree2=safe_part, tree=[]), rules)
    acl2 = _acl_text(dict(case, tree2=other_part, tree=[], drop_acl=False), {})
    g1 = c10.make_generator("G0", vendor, acl1, _ops(safe_part), acl_safe=acl1)
    g2 = c10.make_generator("G1", vendor, acl2 or "zzz-none ~\n", _ops(other_part))
    try:
        res = c10.run_old_new(case["model"], [g1, g2], _text(case["tree"]) or None, add_implicit=True, tags=case["tags"],
                              acl_safe=True, exclusive=False)
        if res.err:
            return
        safe_rules = compile_acl_text("".join(l + "  %generator_names=G0\n" if False else l + "\n" for l in acl1.split("\n") if l.strip()), vendor)
        s_tree = rbgen.to_odict(safe_part)
        want = patching.apply_acl(merge_dicts(s_tree, implicit.config(s_tree, rules)), safe_rules)
    except Exception:
        return
    got = rbgen.to_list(res.safe_new)
    if got != rbgen.to_list(want):
        out.append(dict(sig="safe-new-not-completion-of-safe-output",
                        what="with --acl-safe the safe desired configuration is %r; the safe generator's output completed with its "
                             "own defaults and filtered by the safe ACL is %r" % (got[:4], rbgen.to_list(want)[:4])))


def e2e_clause(case, rules, out):
    """gen._old_new_per_device (add_implicit) + api._diff_and_patch on a stub device: a default that is neither in the
    device text nor in the generator output must not appear in the diff (hence in no command)"""
    from annet import api
    from harness.props import c10
    vendor = Dev(case["model"], case["tags"]).hw.vendor
    gen_cls = c10.make_generator("G0", vendor, _acl_text(case, rules), _ops(case["tree2"]))
    try:
        res = c10.run_old_new(case["model"], [gen_cls], _text(case["tree"]) or None, add_implicit=True,
                              tags=case["tags"])
        if res.err:
            return
        dev = Dev(case["model"], case["tags"])
        diff, _pt = api._diff_and_patch(dev, res.old, res.new, res.acl_rules, None, False)
    except Exception:
        return
    _spurious(rbgen.to_odict(case["tree"]) if case["tree"] else res_explicit_old(case, res),
              rbgen.to_odict(case["tree2"]), diff, rules, out, " (whole pipeline gen._old_new_per_device + api._diff_and_patch)")
    # the same with `--clear` (no_new: the generators are not run, the desired configuration is empty): old and new are
    # still completed the same way, so a default the device does not spell out is in no diff entry
    try:
        res = c10.run_old_new(case["model"], [gen_cls], _text(case["tree"]) or None, add_implicit=True,
                              tags=case["tags"], no_new=True)
        if res.err:
            return
        diff, _pt = api._diff_and_patch(dev, res.old, res.new, res.acl_rules, None, False)
    except Exception:
        return
    _spurious(rbgen.to_odict(case["tree"]) if case["tree"] else res_explicit_old(case, res),
              rbgen.to_odict([]), diff, rules, out, " (whole pipeline with --clear)")


def res_explicit_old(case, res):
    # empty device text: what the device "says" is what run_partial_initial yields (empty except on Huawei CE)
    from annet import generators
    from harness.props import c10
    dev = c10.StubDevice(case["model"])
    dev.tags = list(case["tags"])
    return generators.run_partial_initial(dev).config_tree()


def _entries(d, path=()):
    for (op, row, ch, _m) in d:
        if op in ("added", "removed"):
            yield path + (row,)
        yield from _entries(ch, path + (row,))


def _has(tree, path):
    for k in path:
        if k not in tree:
            return False
        tree = tree[k]
    return True


def _spurious(t, u, diff, rules, out, where=""):
    changed = set(_entries(diff))
    dt = dict(default_paths(t, rules))
    du = dict(default_paths(u, rules))
    for p in sorted(set(dt) | set(du)):
        if _has(t, p) or _has(u, p) or p not in changed:
            continue
        kind_present = dt.get(p, False) or du.get(p, False)
        one_sided_parent = _has(t, p[:-1]) != _has(u, p[:-1])
        out.append(dict(sig="default-toggles-with-matching-row" if kind_present else
                        "default-under-one-sided-parent" if one_sided_parent else "spurious-default-command",
                        what="diff entry (and command) for %r although that default is in neither config%s" % (p, where)))
        return


def oracle(case, r):
    if case["kind"] == "rules-history":
        return [dict(sig="implicit-rules-depend-on-history", what="implicit.compile_rules for (%r, tags %r) after other "
                     "devices in the same process differs from a fresh process" % (case["model"], case["tags"]))] if r.get("differs") else []
    out = []
    rules = rules_of(case)
    t = rbgen.to_odict(case["tree"])
    m = rbgen.to_odict(r["merged"])
    if not ordered_sub(case["tree"], r["merged"]):
        out.append(dict(sig="explicit-line-lost", what="the completed config does not contain the explicit config in order"))
    iff_check(t, m, rules, (), out)
    if case["kind"] in ("hw", "e2e") or not cross_match(rules):
        _, m2 = complete(m, rules)
        if rbgen.to_list(m2) != r["merged"]:
            out.append(dict(sig="completion-not-idempotent", what="completing a completed config adds something"))
    if case["kind"] == "hw":
        patch_clause(case, rules, out)
    if case["kind"] == "e2e":
        e2e_clause(case, rules, out)
        e2e_safe_clause(case, rules, out)
    seen, uniq = set(), []
    for v in out:
        if v["sig"] not in seen:
            seen.add(v["sig"])
            uniq.append(v)
    return uniq


def count(t):
    return sum(1 + count(c) for _, c in t)


def nontrivial(case, r):
    return count(case["tree"]) >= 2 and count(r["merged"]) > count(case["tree"])


def stats(case, r):
    lab = ["kind=" + case["kind"]]
    if case["kind"] in ("hw", "e2e"):
        lab.append("hw=" + case["model"])
    if case["kind"] == "e2e":
        lab.append("e2e-device-text=" + ("empty" if not case["tree"] else "non-empty"))
    lab.append("added=%d" % min(5, count(r["merged"]) - count(case["tree"])))
    return lab


def shrink_candidates(case):
    for key in ("tree", "tree2"):
        if key not in case:
            continue
        t = case[key]

        def drops(tree):
            for i in range(len(tree)):
                yield tree[:i] + tree[i + 1:]
                for sub in drops(tree[i][1]):
                    yield tree[:i] + [[tree[i][0], sub]] + tree[i + 1:]
        for nt in drops(t):
            yield dict(case, **{key: nt})


# ------------------------------------------------------------------ history: the rules of a device depend on (model, tags) only
TAG_VARIANTS = [[], ["spine1"]]
_HIST_CODE = ("import sys; sys.setrecursionlimit(10000); sys.path.insert(0, %r); sys.path.insert(0, %r); "
              "import harness.props.c17 as m; m.history_main()")


def _rules_dump(model, tags):
    from annet import implicit
    return dump_rules(implicit.compile_rules(Dev(model, tags)))


def history_main():
    """run in a python process of its own.  First every (model, tags) variant in a forked child of the still pristine
    parent (no variant ever sees another), then all variants one after the other in the parent, forwards and backwards
    (a long-lived process serving many devices).  stdout: {"fresh": [...], "seq": [...]}"""
    import json
    import os
    import sys
    rbgen.setup()
    import annet.implicit  # noqa
    variants = [(m, t) for m, _ in BRANCHES for t in TAG_VARIANTS]

    def forked(v):
        r, w = os.pipe()
        pid = os.fork()
        if pid == 0:
            try:
                os.close(r)
                with os.fdopen(w, "w") as f:
                    f.write(json.dumps(_rules_dump(*v)))
            finally:
                os._exit(0)
        os.close(w)
        with os.fdopen(r) as f:
            data = f.read()
        os.waitpid(pid, 0)
        return json.loads(data) if data else None
    fresh = [forked(v) for v in variants]
    seq = [_rules_dump(*v) for v in variants]
    back = [_rules_dump(*v) for v in reversed(variants)][::-1]
    sys.stdout.write(json.dumps({"variants": variants, "fresh": fresh, "seq": seq, "back": back}))


def extra(tier, seed, ctx):
    res = _history_result()
    viol = []
    for i, (model, tags) in enumerate(res["variants"]):
        for name in ("seq", "back"):
            if res[name][i] != res["fresh"][i]:
                viol.append(dict(case=dict(kind="rules-history", model=model, tags=tags, order=name), impl={"differs": True},
                                 sig="implicit-rules-depend-on-history",
                                 what="implicit.compile_rules for (%r, tags %r) after other devices in the same process differs "
                                      "from a fresh process" % (model, tags)))
                break
        if viol:
            break
    return dict(violations=viol, evaluations=3 * len(res["variants"]),
                coverage=dict(rule_sets_compared_with_fresh_process=2 * len(res["variants"])))
