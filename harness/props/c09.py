"""C09 — the command stream sent at deploy is exactly the patch that was shown.

impl: formatter.patch / formatter.cmd_paths (annet/annlib/tabparser.py) of the vendor's real formatter objects,
annet.deploy.apply_deploy_rulebook (with rulebook.deploying.match_deploy_rule, annlib.rulebook.common.apply);
model: Annet.Format.patchText / cmdPaths, Annet.Deploy.applyDeployRulebook over the regenerated table
Gen/ApplyTab.lean (pregen); oracle: line-by-line comparison of the three real outputs, wrapper lists of the real
apply-logic functions, no commit command when committing is disabled, rule parameters against a reference chain
search.  Set-style vendors (juniper, ribbon, nokia, routeros): formatter side by the oracle only, deploy side tied."""
import glob
import itertools
import os
import random
import re

from harness import rbgen
from harness.core.paths import LEAN, REPO

ID = "C09"
RULE = ("(hardware model, PatchTree, indent, deploy rulebook text | shipped, do_commit, do_finalize): PatchTrees = real "
        "make_patch over random rulebooks (rbgen, plus %force_commit), the 71+ shipped patch samples through the shipped "
        "rulebooks, synthetic trees depth<=4 over vendor vocabularies (xpl/if-then/else, address-family, prefix-set, "
        "route-policy, peer-public-key, exit words as config rows, empty child blocks, contexts) with distinct or repeated "
        "sibling rows, and exhaustive small trees; deploy rulebooks derived from the patch's own paths (generalised words, "
        "skipped ancestors, overlapping or disjoint siblings, %timeout, dialogs, %ifcontext, %apply_logic, malformed "
        "ifcontext, send_nl=0) or the shipped *.deploy; all 4 flag pairs; plus every shipped sample through the production "
        "caller CliDeployerJob.parse_result (dont_commit in {0,1}); non-trivial = >=3 shown lines and >=1 block; "
        "distinct = distinct case")
TRUSTED_BASE = [
    "Lean 4.33 kernel; axioms per theorem listed (subset of propext, Classical.choice, Quot.sound)",
    "rule rows of deploy rulebooks matched by Model/Pattern.lean (tied to CPython re by C07); rows outside the rule grammar "
    "are decided by CPython re (rx_extra) ",
    "Gen/ApplyTab.lean is produced by pregen() from the real apply-logic functions (translator in this file)",
    "harness/props/c09.py (generators, canonicalisers, oracle) and the compiled Lean driver",
    "Python generators of tabparser are modelled by the lists they yield; the in-place mutated FormatterContext by its value "
    "at the moment block_exit is called (validated by the tie on every case)",
]
ASSUMPTIONS = [
    "rows are non-empty, stripped, without newline (PatchTree rows are config rows / logic output)",
    "PatchItem.context is a dict of strings",
    "%apply_logic functions depend on (hw, do_commit, do_finalize) only (table Gen/ApplyTab.lean; ETCKEEPER_CHECK unset)",
    "set-style formatters (Juniper, Ribbon, Nokia, RouterOS): patch() is by construction the join of cmd_paths(); oracle only",
    "CliDeployerJob.parse_result reaches the driver through a connector; the harness installs a driver delegating to "
    "annet.deploy.apply_deploy_rulebook",
]

# hardware model -> (vendor, formatter class); one per branch of common.apply plus the formatter classes
HW = [
    ("Huawei CE6870", "huawei", "HuaweiFormatter"),
    ("Huawei NE40E", "huawei", "HuaweiFormatter"),
    ("Huawei S6720", "huawei", "HuaweiFormatter"),
    ("Huawei OptiXtrans DC908", "optixtrans", "OptixtransFormatter"),
    ("H3C S6800", "h3c", "HuaweiFormatter"),
    ("Arista DCS-7368", "arista", "AristaFormatter"),
    ("Cisco ASR9000", "iosxr", "AsrFormatter"),
    ("Cisco XRv 9000", "iosxr", "AsrFormatter"),
    ("Cisco 8201", "iosxr", "AsrFormatter"),
    ("Cisco Catalyst 2960", "cisco", "CiscoFormatter"),
    ("Cisco Nexus 3172", "nexus", "NexusFormatter"),
    ("Aruba AP-335", "aruba", "ArubaFormatter"),
    ("B4com B4T-CS2148P", "b4com", "B4comFormatter"),
    ("B4com 4100", "b4com", "B4comFormatter"),
    ("PC", "pc", "CommonFormatter"),
    ("Juniper MX480", "juniper", "JuniperFormatter"),
    ("Ribbon", "ribbon", "RibbonFormatter"),
    ("Nokia 7750", "nokia", "NokiaFormatter"),
    ("RouterOS", "routeros", "RosFormatter"),
]
HW_INFO = {m: (v, c) for m, v, c in HW}
TABLE_ONLY_HW = ["Unknown Foo"]   # the `else: raise` branch of common.apply
BLOCK_CLASSES = {"CommonFormatter", "OptixtransFormatter", "HuaweiFormatter", "CiscoFormatter", "AsrFormatter",
                 "NexusFormatter", "B4comFormatter", "ArubaFormatter", "AristaFormatter"}
BLOCK_HW = [m for m, _, c in HW if c in BLOCK_CLASSES]
SET_HW = [m for m, _, c in HW if c not in BLOCK_CLASSES]
VENDOR_HW = {}
for _m, _v, _c in HW:
    VENDOR_HW.setdefault(_v, []).append(_m)
SAMPLE_HW = {"cisco": "Cisco Catalyst", "nexus": "Cisco Nexus", "asr": "Cisco ASR", "iosxr": "Cisco XR", "huawei": "Huawei",
             "huawei ce": "Huawei CE0000", "juniper": "Juniper", "routeros": "RouterOS", "aruba": "Aruba", "arista": "Arista",
             "nokia": "Nokia", "pc": "PC", "ribbon": "Ribbon", "optixtrans": "Huawei DC", "b4com": "B4com", "h3c": "H3C"}
SAMPLE_HW_MODELS = sorted(set(SAMPLE_HW.values()))
INDENTS = ["  ", "  ", "  ", " ", "    "]
GEN_FILE = os.path.join(LEAN, "AnnetModel", "Gen", "ApplyTab.lean")

_CUR = {"deploy": "@shipped"}
_PROVIDER = None


# ------------------------------------------------------------------ real-code plumbing
def _provider_cls():
    global _PROVIDER
    if _PROVIDER is None:
        from annet.rulebook import DefaultRulebookProvider
        from annet.rulebook.deploying import compile_deploying_text

        class Provider(DefaultRulebookProvider):
            """shipped rulebooks, or the deploy rulebook text of the current case"""
            def get_rulebook(self, hw):
                if _CUR["deploy"] == "@shipped":
                    return super().get_rulebook(hw)
                return {"patching": None, "ordering": None, "deploying": compile_deploying_text(_CUR["deploy"], hw.vendor)}
        _PROVIDER = Provider
    return _PROVIDER


def setup_worker():
    os.environ.pop("ETCKEEPER_CHECK", None)
    rbgen.setup(_provider_cls())


def _hw(model):
    from annet.annlib.netdev.views.hardware import HardwareView
    return HardwareView(model, None)


def logic_names():
    names = {"common.apply"}
    for f in sorted(glob.glob(os.path.join(REPO, "annet", "rulebook", "texts", "*.deploy"))):
        names.update(re.findall(r"%apply_logic=(\S+)", open(f, encoding="utf-8").read()))
    return sorted(names)


_LOGIC_BY_ID = {}


def logic_name(fn):
    if not _LOGIC_BY_ID:
        from annet.rulebook.common import import_rulebook_function
        for n in logic_names():
            _LOGIC_BY_ID[id(import_rulebook_function(n))] = n
    return _LOGIC_BY_ID.get(id(fn), "?" + getattr(fn, "__module__", "") + "." + getattr(fn, "__name__", ""))


def ms(t):
    v = round(float(t) * 1000)
    if abs(float(t) * 1000 - v) > 1e-6 or v < 0:
        raise ValueError("timeout not representable: %r" % (t,))
    return int(v)


# ------------------------------------------------------------------ translator: apply-logic table -> Lean
def _lean_str(s):
    out = ['"']
    for ch in s:
        if ch == "\\":
            out.append("\\\\")
        elif ch == '"':
            out.append('\\"')
        elif ch == "\n":
            out.append("\\n")
        elif ch == "\t":
            out.append("\\t")
        elif 32 <= ord(ch) < 127:
            out.append(ch)
        else:
            out.append("\\u{%x}" % ord(ch))
    out.append('"')
    return "".join(out)


def apply_table():
    """[(logic, hw model, do_commit, do_finalize, (before, after) | None)] from the real functions"""
    from annet.rulebook.common import import_rulebook_function
    rows = []
    for name in logic_names():
        fn = import_rulebook_function(name)
        for model in [m for m, _, _ in HW] + SAMPLE_HW_MODELS + TABLE_ONLY_HW:
            for dc in (False, True):
                for df in (False, True):
                    try:
                        b, a = fn(_hw(model), do_commit=dc, do_finalize=df, path=None)
                        res = ([(c.cmd, c.timeout) for c in b], [(c.cmd, c.timeout) for c in a])
                    except Exception:
                        res = None
                    rows.append((name, model, dc, df, res))
    seen = set()
    out = []
    for r in rows:
        if r[:4] not in seen:
            seen.add(r[:4])
            out.append(r)
    return out


def _lean_cmds(cs):
    def one(c, t):
        return "{ cmd := %s%s }" % (_lean_str(c), "" if t is None else ", timeout := some %d" % ms(t))
    return "[" + ", ".join(one(c, t) for c, t in cs) + "]"


def render_table(rows):
    L = ["-- GENERATED by harness/props/c09.py:pregen from the real %apply_logic functions of annet",
         "-- (annet/annlib/rulebook/common.py:apply and those named in annet/rulebook/texts/*.deploy). Do not edit.",
         "import AnnetModel.Model.Deploy", "", "namespace Annet.Gen", "open Annet.Deploy", "",
         "/-- `(logic, hardware model, do_commit, do_finalize) ↦ (before, after)`; `none` = the function raised -/",
         "def applyTab : ApplyTab := ["]
    body = []
    for name, model, dc, df, res in rows:
        r = "none" if res is None else "some (%s, %s)" % (_lean_cmds(res[0]), _lean_cmds(res[1]))
        body.append("  { logic := %s, hw := %s, doCommit := %s, doFinalize := %s, result := %s }" % (
            _lean_str(name), _lean_str(model), "true" if dc else "false", "true" if df else "false", r))
    L.append(",\n".join(body))
    L += ["]", "", "end Annet.Gen", ""]
    return "\n".join(L)


def pregen():
    setup_worker()
    text = render_table(apply_table())
    os.makedirs(os.path.dirname(GEN_FILE), exist_ok=True)
    if not os.path.exists(GEN_FILE) or open(GEN_FILE, encoding="utf-8").read() != text:
        with open(GEN_FILE, "w", encoding="utf-8") as f:
            f.write(text)
        return "ApplyTab.lean rewritten"
    return "ApplyTab.lean unchanged"


# ------------------------------------------------------------------ PatchTrees
def to_patchtree(items):
    from annet.annlib.patching import PatchTree, PatchItem
    t = PatchTree()
    for row, child, ctx in items:
        t.itms.append(PatchItem(row, to_patchtree(child) if child is not None else None, dict(ctx), ()))
    return t


def dump_pt(pt):
    return [[str(i.row), dump_pt(i.child) if i.child is not None else None, dict(i.context or {})] for i in pt.itms]


VOCAB = {
    "generic": ["interface Eth1", "interface Eth2", "vlan 10", "description foo", "mtu 9000", "shutdown", "ip address 10.0.0.1 24",
                "bgp 65000", "peer 1.1.1.1 as-number 1", "peer 1.1.1.1 enable", "acl 3000", "rule 5 permit", "a", "b", "c",
                "ntp server 1.2.3.4", "user admin privilege level 3", "port link-type trunk", "stp enable", "save"],
    "HuaweiFormatter": ["xpl route-filter RF", "xpl prefix-list PL", "xpl community-list CL", "if destination in PL then",
                        "elseif med eq 10 then", "else", "apply cost 1", "refuse", "rsa peer-public-key k1", "dsa peer-public-key k2",
                        "public-key-code begin", "undo bgp", "undo peer 1.1.1.1", "quit", "endif", "end-filter", "end-list",
                        "undo shutdown", "undo vlan 10", "if x then"],
    "CiscoFormatter": ["address-family ipv4", "address-family ipv6 unicast", "exit-address-family", "router bgp 1", "exit",
                       "neighbor 1.1.1.1 activate", "no shutdown", "no vlan 10", "crypto key generate rsa",
                       "no ipv6 nd suppress-ra"],
    "AsrFormatter": ["prefix-set PS", "as-path-set AS", "community-set CS", "route-policy RP", "if destination in PS then",
                     "if x then", "end-set", "endif", "end-policy", "exit", "pass", "drop", "no route-policy RP", "router bgp 1"],
    "exit": ["exit", "no shutdown", "no vlan 10", "router bgp 1", "no ipv6 nd suppress-ra", "end", "address-family ipv4",
             "ap-env", "syslog-level warn", "write memory"],
    "common": ["quit", "exit", "undo shutdown", "commit-less"],
}
CTXS = [{}, {}, {}, {}, {"block": "ap-env"}, {"block": "x"}, {"a": "1", "block": "ap-env"}, {"block": "ap-env"}]


def vocab(cls):
    if cls in ("HuaweiFormatter", "CiscoFormatter", "AsrFormatter"):
        return VOCAB["generic"] + VOCAB[cls] * 2
    if cls in ("CommonFormatter", "OptixtransFormatter"):
        return VOCAB["generic"] + VOCAB["common"]
    return VOCAB["generic"] + VOCAB["exit"] * 2


def gen_tree(rng, words, dup, ctxmode, depth=0, maxdepth=4, parent_special=None):
    n = rng.choice([1, 1, 2, 2, 3, 4, 5]) if depth == 0 else rng.choice([0, 1, 1, 2, 2, 3])
    pool = list(words)
    if parent_special:
        pool = pool + parent_special * 4
    rows = [rng.choice(pool) for _ in range(n)] if dup else rng.sample(sorted(set(pool)), min(n, len(set(pool))))
    if not dup:
        rng.shuffle(rows)
    out = []
    for row in rows:
        ctx = dict(rng.choice(CTXS)) if ctxmode else {}
        r = rng.random()
        special = None
        if row.startswith("xpl route-filter"):
            special = ["if destination in PL then", "elseif med eq 10 then", "else", "if x then"]
            r *= 0.5
        elif row.startswith(("xpl", "address-family", "prefix-set", "route-policy", "if ", "else", "rsa", "router", "interface")):
            r *= 0.6
        if depth < maxdepth and r < 0.42:
            child = gen_tree(rng, words, dup, ctxmode, depth + 1, maxdepth, special)
        elif depth < maxdepth and r < 0.47:
            child = []
        else:
            child = None
        out.append([row, child, ctx])
    return out


def tree_rows(items, pre=()):
    for row, child, ctx in items:
        yield pre + (row,), ctx
        if child is not None:
            yield from tree_rows(child, pre + (row,))


# ------------------------------------------------------------------ deploy rulebook texts
QUESTIONS = ["Are you sure? [Y/N]:", "Warning: Continue? [Y/N]", "/.*Continue\\?/", "/Do you want to remove .*\\? \\[Y/N\\]:/",
             "Destination filename [startup-config]?", "/", "//", "/x", "x/"]
WRAPPER_CMDS = ["save", "commit", "q", "exit", "write memory", "conf t", "system-view", "end", "copy running-config startup-config"]


WORD_OK = re.compile(r"^[A-Za-z0-9_.:/=-]+$")     # words that are valid regex source inside a rule row


def generalise(rng, row, overlap):
    ws = row.split(" ")
    r = rng.random()
    if r < 0.35 or len(ws) == 1:
        out = list(ws)
    elif r < 0.7:
        out = [w if i == 0 or rng.random() < 0.5 else "*" for i, w in enumerate(ws)]
    else:
        k = rng.randint(1, len(ws) - 1)
        out = ws[:k] + ["~"]
    if overlap and rng.random() < 0.15:
        out = ["~"]
    return " ".join(out)


def rule_params(rng):
    ps = []
    if rng.random() < 0.45:
        ps.append("%timeout=" + rng.choice(["1", "5", "60", "120", "2.5", "40"]))
    if rng.random() < 0.15:
        ps.append("%ifcontext=" + rng.choice(["block:ap-env", "block:x", "block:ap-env,a:1", "a:2", "bad", "x:y:z"]))
    if rng.random() < 0.08:
        ps.append("%apply_logic=aruba.ap_env.apply")
    return ps


def gen_deploy(rng, patch, overlap):
    """rule lines [(depth, text)] built from the patch's own command paths"""
    paths = [p for p, _ in tree_rows(patch) if all(WORD_OK.match(w) for r in p for w in r.split(" "))]
    exits = ["quit", "exit", "exit-address-family", "endif", "end-set", "end-policy", "end-filter", "end-list"]
    lines = []
    top_used = set()

    def emit_rule(depth, row):
        ps = rule_params(rng)
        lines.append((depth, row + ("  " + " ".join(ps) if ps else "")))
        for _ in range(rng.choice([0, 0, 1, 1, 2])):
            q = rng.choice(QUESTIONS)
            a = rng.choice(["Y", "yes", "startup-config", "N"])
            nl = "  %send_nl=0" if rng.random() < 0.03 else ""
            lines.append((depth + 1, "dialog: %s ::: %s%s" % (q, a, nl)))
        if rng.random() < 0.1:
            lines.append((depth + 1, "ignore: some message"))

    def emit_chain(path, depth):
        d = depth
        for i, row in enumerate(path):
            last = i == len(path) - 1
            if not last and rng.random() < 0.25:
                continue          # unmatched ancestor: skipped by match_deploy_rule
            rr = generalise(rng, row, overlap)
            if d == 0:
                if rr in top_used and not overlap:
                    return
                top_used.add(rr)
            emit_rule(d, rr)
            if overlap and rng.random() < 0.3:
                emit_rule(d, generalise(rng, row, overlap))
            if not last and rng.random() < 0.3:
                # a sibling subtree first, so that the chain is not always the last child
                emit_rule(d + 1, rng.choice(exits + ["zzz *"]))
            d += 1
        if rng.random() < 0.4:
            emit_rule(d, rng.choice(exits))

    for _ in range(rng.choice([0, 1, 1, 2, 3])):
        if paths:
            emit_chain(list(rng.choice(paths)), 0)
    for _ in range(rng.choice([0, 0, 1, 2])):
        w = rng.choice(WRAPPER_CMDS + exits)
        if w not in top_used:
            top_used.add(w)
            emit_rule(0, w)
    if not overlap:
        lines = disjointify(lines)
    return "\n".join("    " * d + t for d, t in lines) + ("\n" if lines else "")


def disjointify(lines):
    """drop rule lines whose row could overlap an earlier sibling (same first word or a wildcard first word)"""
    out = []
    seen = {}       # depth -> set of first words among current siblings
    skip_depth = None
    for d, t in lines:
        if skip_depth is not None:
            if d > skip_depth:
                continue
            skip_depth = None
        if t.startswith(("dialog:", "ignore:")):
            out.append((d, t))
            continue
        for k in [k for k in seen if k > d]:
            del seen[k]
        first = t.split(" ")[0]
        sib = seen.setdefault(d, set())
        if first in ("~", "*") or "~" in sib or "*" in sib or first in sib:
            skip_depth = d
            continue
        sib.add(first)
        out.append((d, t))
    return out


DEPLOY_SCHEME = None


def parse_deploy(text):
    """rows per raw rule, by the real rulebook parser (the compiled rules keep only the regexp)"""
    global DEPLOY_SCHEME
    from annet.annlib.rbparser import syntax
    if DEPLOY_SCHEME is None:
        from valkit.common import valid_bool, valid_number, valid_string_list
        from valkit.python import valid_object_path
        DEPLOY_SCHEME = {
            "timeout": {"validator": lambda arg: valid_number(arg, min=1, type=float), "default": 30},
            "send_nl": {"validator": valid_bool, "default": True},
            "apply_logic": {"validator": valid_object_path, "default": "common.apply"},
            "ifcontext": {"validator": valid_string_list, "default": []},
        }
    return syntax.parse_text(text, DEPLOY_SCHEME)


def dump_rules(compiled, parsed):
    out = []
    for rid, r in compiled.items():
        a = r["attrs"]
        out.append(dict(row=parsed[rid]["row"], timeout=ms(a["timeout"]), apply_logic=logic_name(a["apply_logic"]),
                        dialogs=[[m._text, ans.text, bool(ans.send_nl)] for m, ans in a["dialogs"].items()],
                        ifcontext=list(a["ifcontext"]), children=dump_rules(r["children"], parsed[rid]["children"])))
    return out


def all_rules(compiled):
    for r in compiled.values():
        yield r
        yield from all_rules(r["children"])


def deploy_rules(case):
    """(compiled deploying rulebook of the real code, its parse tree)"""
    from annet.rulebook import get_rulebook, rulebook_provider_connector
    hw = _hw(case["hw"])
    _CUR["deploy"] = case["deploy"]
    compiled = get_rulebook(hw)["deploying"]
    if case["deploy"] == "@shipped":
        prov = rulebook_provider_connector.get()
        try:
            text = prov._render_rul(hw.vendor + ".deploy", hw)
        except FileNotFoundError:
            text = ""
    else:
        text = case["deploy"]
    return compiled, parse_deploy(text)


# ------------------------------------------------------------------ cases
def make_case(hw, patch, indent="  ", deploy="", do_commit=True, do_finalize=True, src="synthetic"):
    return dict(hw=hw, cls=HW_INFO.get(hw, (None, None))[1] or SAMPLE_CLS.get(hw), patch=patch, indent=indent, deploy=deploy,
                do_commit=bool(do_commit), do_finalize=bool(do_finalize), src=src)


SAMPLE_CLS = {"Cisco Catalyst": "CiscoFormatter", "Cisco Nexus": "NexusFormatter", "Cisco ASR": "AsrFormatter",
              "Cisco XR": "CiscoFormatter", "Huawei": "HuaweiFormatter", "Huawei CE0000": "HuaweiFormatter",
              "Juniper": "JuniperFormatter", "Aruba": "ArubaFormatter", "Arista": "AristaFormatter", "Nokia": "NokiaFormatter",
              "Ribbon": "RibbonFormatter", "Huawei DC": "HuaweiFormatter", "B4com": "B4comFormatter", "H3C": "HuaweiFormatter"}


def shards(tier, seed):
    q = tier == "quick"
    out = []
    for i in range(32 if q else 96):
        out.append(dict(kind="syn", seed=seed * 100000 + i, n=500 if q else 1500))
    for i in range(16 if q else 48):
        out.append(dict(kind="mp", seed=seed * 100000 + 5000 + i, n=250 if q else 800))
    for i in range(8 if q else 16):
        out.append(dict(kind="set", seed=seed * 100000 + 7000 + i, n=60 if q else 400))
    nshard = 4 if q else 16
    for i in range(nshard):
        out.append(dict(kind="samples", part=i, of=nshard, seed=seed * 100000 + 8000 + i, flags=q))
    for i in range(4):
        out.append(dict(kind="e2e", part=i, of=4, seed=0))
    for ci, cls in enumerate(sorted(EXH_ALPHA)):
        for first in range(len(EXH_ALPHA[cls])):
            out.append(dict(kind="exh", cls=cls, first=first, nodes=3 if q else 4))
    return out


EXH_ALPHA = {
    "HuaweiFormatter": ["a", "quit", "xpl route-filter R", "if x then", "else", "endif", "rsa peer-public-key k"],
    "CiscoFormatter": ["a", "exit", "address-family ipv4", "exit-address-family"],
    "AsrFormatter": ["a", "exit", "prefix-set P", "if x then", "route-policy R", "endif"],
    "ArubaFormatter": ["a", "b", "exit"],
    "CommonFormatter": ["a", "b", "quit"],
}
EXH_HW = {"HuaweiFormatter": "Huawei CE6870", "CiscoFormatter": "Cisco Catalyst 2960", "AsrFormatter": "Cisco ASR9000",
          "ArubaFormatter": "Aruba AP-335", "CommonFormatter": "PC"}


def enum_forests(alpha, nodes, depth=0, maxdepth=3):
    """all forests with exactly <= nodes rows (ordered, labelled, child None / block)"""
    if nodes == 0:
        yield []
        return
    yield []
    for row in alpha:
        # first item takes k nodes in its subtree (incl. itself), rest go to the siblings
        for k in range(1, nodes + 1):
            kids = [None]
            if depth < maxdepth:
                kids = itertools.chain([None], enum_forests_exact(alpha, k - 1, depth + 1, maxdepth))
            for child in kids:
                if child is None and k != 1:
                    continue
                for rest in enum_forests(alpha, nodes - k, depth, maxdepth):
                    yield [[row, child, {}]] + rest


def enum_forests_exact(alpha, nodes, depth, maxdepth):
    def count(f):
        return sum(1 + (count(c) if c is not None else 0) for _, c, _ in f)
    for f in enum_forests(alpha, nodes, depth, maxdepth):
        if count(f) == nodes:
            yield f


def gen(desc):
    kind = desc["kind"]
    if kind == "exh":
        alpha = EXH_ALPHA[desc["cls"]]
        hw = EXH_HW[desc["cls"]]
        first = alpha[desc["first"]]
        for f in enum_forests(alpha, desc["nodes"]):
            if not f or f[0][0] != first:
                continue
            yield make_case(hw, f, deploy="", src="exh")
        return
    rng = random.Random(desc["seed"])
    if kind == "syn" or kind == "set":
        for _ in range(desc["n"]):
            hw = rng.choice(BLOCK_HW if kind == "syn" else SET_HW)
            cls = HW_INFO[hw][1]
            dup = rng.random() < 0.15
            patch = gen_tree(rng, vocab(cls) if kind == "syn" else VOCAB["generic"] + SET_ROWS, dup, rng.random() < 0.4)
            yield finish_case(rng, hw, patch, "syn-dup" if dup else "syn")
        return
    if kind == "mp":
        for _ in range(desc["n"]):
            c = rbgen.gen_case(rng, overlap=rng.random() < 0.5)
            dc = rng.random() < 0.6
            patch = real_patch(rng, c, dc)
            if patch is None:
                continue
            hw = rng.choice(VENDOR_HW[c["vendor"]])
            yield finish_case(rng, hw, patch, "make_patch", do_commit=dc)
        return
    if kind == "e2e":
        setup_worker()
        for i, name in enumerate(sorted(samples())):
            if i % desc["of"] == desc["part"]:
                for dont_commit in (False, True):
                    yield dict(e2e=True, sample=name, dont_commit=dont_commit)
        return
    if kind == "samples":
        for i, (name, model, patch) in enumerate(sample_patches()):
            if i % desc["of"] != desc["part"]:
                continue
            flagsets = [(True, True)] if desc.get("flags") else [(a, b) for a in (True, False) for b in (True, False)]
            for dc, df in flagsets:
                yield make_case(model, patch, deploy="@shipped", do_commit=dc, do_finalize=df, src="sample:" + name)
        return
    raise ValueError(kind)


SET_ROWS = ["delete interfaces ge-0/0/0", "interfaces", "ge-0/0/0 unit 0", "family inet", "address 10.0.0.1/24",
            "apply-groups [ a b c ]", "deactivate protocols bgp", "activate protocols bgp", "remove numbers=1", "add address=1.1.1.1",
            "ip", "address", "delete router bgp", "router Base", "port 1/1/1"]


def finish_case(rng, hw, patch, src, do_commit=None):
    r = rng.random()
    if r < 0.2:
        deploy = "@shipped"
    elif r < 0.3:
        deploy = ""
    else:
        deploy = gen_deploy(rng, patch, overlap=rng.random() < 0.4)
    dc = rng.random() < 0.5 if do_commit is None else do_commit
    return make_case(hw, patch, indent=rng.choice(INDENTS), deploy=deploy, do_commit=dc, do_finalize=rng.random() < 0.5, src=src)


def real_patch(rng, c, do_commit):
    """PatchTree of the real make_patch for an rbgen case (some rules get %force_commit)"""
    from annet.annlib import patching
    from annet.api import patch_from_pre
    lines = c["ptext"].split("\n")
    for i, l in enumerate(lines):
        if l.strip() and not l.strip().startswith("!") and rng.random() < 0.08:
            lines[i] = l + "  %force_commit"
    ptext = "\n".join(lines)
    try:
        rb = rbgen.compile_rb(ptext, c["otext"], c["vendor"])
        d = patching.make_diff(rbgen.to_odict(c["old"]), rbgen.to_odict(c["new"]), rb, [])
        pt = patch_from_pre(patching.make_pre(d), rbgen.Hw(c["vendor"]), rb, False, do_commit=do_commit)
    except AssertionError:
        return None
    return dump_pt(pt)


_SAMPLES = None


def samples():
    """{name: (hardware model, old, new)} of the shipped patch samples (implicit defaults merged, as tests/annet/test_patch.py)"""
    global _SAMPLES
    if _SAMPLES is not None:
        return _SAMPLES
    from unittest import mock
    from annet import implicit, lib
    from tests.annet import patch_data
    out = {}
    for name, sample in patch_data.get_samples(dirname="annet/test_patch"):
        try:
            vendor = sample.get("vendor", "huawei").lower()
            model = SAMPLE_HW[vendor]
            hw = _hw(model)
            old, new, _expected = patch_data.get_configs(hw, sample)
            rules = implicit.compile_rules(mock.Mock(hw=hw))
            old = lib.merge_dicts(old, implicit.config(old, rules))
            new = lib.merge_dicts(new, implicit.config(new, rules))
            out[name] = (model, old, new)
        except Exception:
            continue
    _SAMPLES = out
    return out


def sample_patches():
    """(name, hardware model, PatchTree) through the shipped rulebooks"""
    from annet import patching, rulebook
    saved = _CUR["deploy"]
    _CUR["deploy"] = "@shipped"
    try:
        for name, (model, old, new) in samples().items():
            try:
                hw = _hw(model)
                rb = rulebook.get_rulebook(hw)
                pre = patching.make_pre(patching.make_diff(old, new, rb, []))
                pt = patching.make_patch(pre=pre, rb=rb, hw=hw, add_comments=False)
                yield name, model, dump_pt(pt)
            except Exception:
                continue
    finally:
        _CUR["deploy"] = saved


# ------------------------------------------------------------------ the production caller (CliDeployerJob.parse_result)
class _Dev:
    def __init__(self, model):
        self.hw = _hw(model)
        self.hostname = "dev1"
        self.fqdn = "dev1.example.com"
        self.id = 1


class _Res:
    def __init__(self, device, old, new):
        self.device, self._old, self._new = device, old, new
        self.err = None
        self.filter_acl_rules = None

    def get_old(self, _safe):
        return self._old

    def get_new(self, _safe):
        return self._new

    def get_acl_rules(self, _safe):
        return None


class _Args:
    def __init__(self, dont_commit):
        self.acl_safe = False
        self.dont_commit = dont_commit


class _Driver:
    """what production deploy adapters do: delegate to annet.deploy.apply_deploy_rulebook"""
    def apply_deploy_rulebook(self, hw, cmd_paths, do_finalize=True, do_commit=True):
        import annet.deploy
        return annet.deploy.apply_deploy_rulebook(hw, cmd_paths, do_finalize=do_finalize, do_commit=do_commit)

    def build_exit_cmdlist(self, hw):
        return []


def impl_e2e(case):
    """`annet patch` text vs the commands CliDeployerJob.parse_result stores for the driver, for one shipped sample"""
    import annet.deploy
    from annet import api
    model, old, new = samples()[case["sample"]]
    dev = _Dev(model)
    _CUR["deploy"] = "@shipped"
    dc = not case["dont_commit"]
    _diff, pt = api._diff_and_patch(dev, old, new, None, None, False, do_commit=dc)
    text = api._format_patch_blocks(pt, dev.hw, "  ")
    saved = annet.deploy.get_deployer
    annet.deploy.get_deployer = lambda: _Driver()
    try:
        job = api.CliDeployerJob(dev, _Args(case["dont_commit"]))
        job.parse_result(_Res(dev, old, new))
    finally:
        annet.deploy.get_deployer = saved
    f_show, f_send = formatters(dict(hw=model, indent="  "))
    paths = dump_paths(f_send.cmd_paths(pt))
    cmds = dump_cmds(job.deploy_cmds[dev]) if dev in job.deploy_cmds else []
    return {"cls": type(f_show).__name__, "unit": f_show._indent, "text": text, "show_paths": dump_paths(f_show.cmd_paths(pt)),
            "paths": paths, "cmds": cmds, "cmd_lines": list(job.cmd_lines), "patch_tree": dump_pt(pt)}


# ------------------------------------------------------------------ impl
def cv(v):
    """context values are strings in annet's rulebooks; anything else (juniper comment flags) gets a form no %ifcontext can equal"""
    return v if isinstance(v, str) else "\x00" + repr(v)


def canon_ctx(c):
    return {str(k): cv(v) for k, v in (c or {}).items()}


def canon_patch(items):
    return [[row, canon_patch(child) if child is not None else None, canon_ctx(ctx)] for row, child, ctx in items]


def dump_paths(paths):
    return [[list(p), canon_ctx(c)] for p, c in paths.items()]


def dump_cmds(cmds):
    out = []
    for c in cmds:
        qs = None if c.questions is None else [[q.question, q.answer, bool(q.is_regexp)] for q in c.questions]
        out.append([c.cmd, getattr(c, "level", None), None if c.timeout is None else ms(c.timeout), qs])
    return out


def err_name(e):
    s = str(e)
    if isinstance(e, ValueError):
        return "ValueError"
    if "send_nl" in s:
        return "SendNlFalse"
    if s.startswith("unknown hw"):
        return "UnknownHw"
    if isinstance(e, IndexError):
        return "IndexError"
    return "Other:" + type(e).__name__


def formatters(case):
    from annet.vendors import registry_connector
    v = registry_connector.get().match(_hw(case["hw"]))
    return v.make_formatter(indent=case["indent"]), v.make_formatter(indent="")


def impl(case):
    import annet.deploy
    if case.get("e2e"):
        return impl_e2e(case)
    hw = _hw(case["hw"])
    f_show, f_send = formatters(case)
    res = {"cls": type(f_show).__name__, "unit": f_show._indent}
    res["text"] = f_show.patch(to_patchtree(case["patch"]))
    try:
        res["show_paths"] = dump_paths(f_show.cmd_paths(to_patchtree(case["patch"])))
    except IndexError:
        res["show_paths"] = {"err": "IndexError"}
    try:
        paths = f_send.cmd_paths(to_patchtree(case["patch"]))
        res["paths"] = dump_paths(paths)
    except IndexError:
        res["paths"] = res["cmds"] = {"err": "IndexError"}
        return res
    _CUR["deploy"] = case["deploy"]
    try:
        res["cmds"] = dump_cmds(annet.deploy.apply_deploy_rulebook(hw, paths, do_finalize=case["do_finalize"],
                                                                   do_commit=case["do_commit"]))
    except Exception as e:  # noqa
        res["cmds"] = {"err": err_name(e)}
    return res


# ------------------------------------------------------------------ model
def _rx_extra(case, compiled, rows):
    out = []
    seen = set()
    parsed_rows = {}

    def walk(comp, parsed):
        for rid, r in comp.items():
            parsed_rows[id(r)] = parsed[rid]["row"]
            walk(r["children"], parsed[rid]["children"])
    walk(*compiled)
    for r in all_rules(compiled[0]):
        rr = parsed_rows[id(r)]
        for row in rows:
            if (rr, row) not in seen and r["attrs"]["regexp"].match(row):
                seen.add((rr, row))
                out.append([rr, row])
    return out


def wrapper_cmds(case):
    from annet.rulebook.common import import_rulebook_function
    out = set()
    for n in logic_names():
        try:
            b, a = import_rulebook_function(n)(_hw(case["hw"]), do_commit=case["do_commit"], do_finalize=case["do_finalize"], path=None)
            out.update(c.cmd for c in list(b) + list(a))
        except Exception:
            pass
    return out


def requests(case):
    if case.get("e2e"):
        return []       # the pieces are tied by the other shards; this one observes the production caller
    compiled, parsed = deploy_rules(case)
    block = case["cls"] in BLOCK_CLASSES
    if block:
        rows = {r for p, _ in tree_rows(case["patch"]) for r in p}
        rows.update(["quit", "exit", "exit-address-family", "endif", "end-set", "end-policy", "end-filter", "end-list"])
        real_paths = None
    else:
        _f_show, f_send = formatters(case)
        real_paths = dump_paths(f_send.cmd_paths(to_patchtree(case["patch"])))
        rows = {r for p, _ in real_paths for r in p}
    rows.update(wrapper_cmds(case))
    base = dict(hw=case["hw"], rules=dump_rules(compiled, parsed), rx_extra=_rx_extra(case, (compiled, parsed), sorted(rows)),
                do_commit=case["do_commit"], do_finalize=case["do_finalize"])
    if block:
        base.update(op="c09.run", show=dict(cls=case["cls"], indent=case["indent"]), send=dict(cls=case["cls"], indent=""),
                    patch=canon_patch(case["patch"]))
    else:
        base.update(op="c09.deploy", paths=real_paths)
    return [base]


def model(case, resp):
    r = resp[0]
    if "fail" in r:
        return {"model-fail": r["fail"]}
    if case["cls"] in BLOCK_CLASSES:
        return {"cls": case["cls"], "unit": r["unit"], "text": r["text"], "show_paths": r["show_paths"], "paths": r["paths"],
                "cmds": r["cmds"]}
    # set-style vendors: formatter side not modelled (oracle only); the deploy side is
    f_show, f_send = formatters(case)
    return {"cls": case["cls"], "unit": f_show._indent, "text": f_show.patch(to_patchtree(case["patch"])),
            "show_paths": dump_paths(f_show.cmd_paths(to_patchtree(case["patch"]))),
            "paths": dump_paths(f_send.cmd_paths(to_patchtree(case["patch"]))), "cmds": r["cmds"]}


# ------------------------------------------------------------------ oracle (real code only)
def shown_lines(text, unit):
    """[(depth, command)] read off the displayed patch text"""
    out = []
    for line in (text.split("\n") if text else []):
        body = line.lstrip(" ") if set(unit) <= {" "} else line
        lead = len(line) - len(body)
        if unit and lead % len(unit) == 0:
            out.append((lead // len(unit), body))
        else:
            out.append((None, line))
    return out


def paths_of_lines(lines):
    """reconstruct the block path of every shown line from the depths"""
    stack = []
    out = []
    for d, row in lines:
        if d is None or d > len(stack):
            return None
        stack = stack[:d] + [row]
        out.append(tuple(stack))
    return out


def config_paths(patch):
    return {p for p, _ in tree_rows(patch)}


def ref_chain(compiled, path, ctx):
    """reference semantics of the property: the unique rule chain matching the block path (an ancestor no rule matches is
    skipped); returns (rule | None, ambiguous)"""
    from annet.annlib.rbparser import syntax
    rules = compiled
    for depth, row in enumerate(path):
        ms_ = [r for r in rules.values() if r["attrs"]["regexp"].match(row)]
        if len(ms_) > 1:
            return None, True
        if not ms_:
            continue
        r = ms_[0]
        try:
            if not syntax.match_context(r["attrs"]["ifcontext"], ctx):
                continue
        except ValueError:      # malformed %ifcontext (planted by the generator): the property says nothing
            return None, True
        if depth == len(path) - 1:
            return r, False
        rules = r["children"]
    return None, False


def expected_params(rule):
    if rule is None:
        return 30000, []
    qs = []
    for m, a in rule["attrs"]["dialogs"].items():
        t = m._text
        if t.startswith("/") and t.endswith("/"):
            qs.append([t[1:-1], a.text, True])
        else:
            qs.append([t, a.text, False])
    return ms(rule["attrs"]["timeout"]), qs


COMMIT_RE = re.compile(r"^commit(\s|$)")


def oracle(case, r):
    if "err" in r and "text" not in r:
        return [dict(sig="impl-crash", what="real code raised %s" % r)]
    out = []
    if case.get("e2e"):
        # same checks, on what parse_result stored; do_finalize is the default (True) there
        model = samples()[case["sample"]][0]
        lines = r["cmd_lines"]
        if r["paths"] and lines[2:-1] != [p[-1] for p, _ in r["paths"]]:
            out.append(dict(sig="e2e-cmd-lines-differ", what="CliDeployerJob.cmd_lines are not the commands of cmd_paths"))
        case = dict(hw=model, cls=r["cls"], patch=r["patch_tree"], indent="  ", deploy="@shipped", do_commit=not case["dont_commit"],
                    do_finalize=True, src="make_patch")
    cls = r.get("cls")
    block = cls in BLOCK_CLASSES
    paths = r.get("paths")
    if isinstance(paths, dict) or isinstance(r.get("show_paths"), dict):
        return [dict(sig="cmd-paths-raises", what="cmd_paths raised IndexError")]
    sent = [(len(p) - 1, p[-1]) for p, _ in paths]
    # ---- 1. shown text == command paths (same commands, order, depth, exits)
    if r["show_paths"] != paths:
        out.append(dict(sig="indent-changes-cmd-paths", what="cmd_paths of the display formatter and of make_formatter(indent='') differ"))
    if block:
        shown = shown_lines(r["text"], r["unit"])
        if shown != sent:
            out.extend(classify_mismatch(case, shown, paths))
    else:
        shown = [(0, l) for l in (r["text"].split("\n") if r["text"] else [])]
        if shown != [(0, " ".join(p)) for p, _ in paths] or any(len(p) != 1 for p, _ in paths):
            out.append(dict(sig="set-style-text-vs-paths", what="set-style patch text is not the list of its commands"))
    cmds = r["cmds"]
    if isinstance(cmds, dict):
        # errors are raised only for malformed deploy rulebooks (ifcontext without ':', send_nl=0) that the generator plants
        if case["deploy"] in ("", "@shipped"):
            out.append(dict(sig="deploy-raises:" + cmds["err"], what="apply_deploy_rulebook raised %s on a well-formed rulebook" % cmds["err"]))
        return out
    # ---- 2. body between the wrappers
    _CUR["deploy"] = case["deploy"]
    compiled, _parsed = deploy_rules(case)
    logics = {logic_name(x["attrs"]["apply_logic"]) for x in all_rules(compiled)} | {"common.apply"}
    from annet.rulebook.common import import_rulebook_function
    hw = _hw(case["hw"])
    body = [(c[0], c[1]) for c in cmds]
    want_body = [(row, d) for d, row in sent]
    if not paths:
        if cmds:
            out.append(dict(sig="commands-without-patch", what="empty patch but %d commands are sent" % len(cmds)))
        return out
    if logics == {"common.apply"}:
        b, a = import_rulebook_function("common.apply")(hw, do_commit=case["do_commit"], do_finalize=case["do_finalize"], path=None)
        before = [(c.cmd, 0) for c in b]
        after = [(c.cmd, 0) for c in a]
        if body != before + want_body + after:
            out.append(classify_body(body, before, want_body, after))
        wrappers = cmds[:len(before)] + cmds[len(before) + len(want_body):]
        body_cmds = cmds[len(before):len(before) + len(want_body)]
    else:
        # several apply logics: the body must be a subsequence, everything else must come from some wrapper list
        allowed = wrapper_cmds(case)
        it = iter(range(len(body)))
        pos = []
        for wb in want_body:
            for i in it:
                if body[i] == wb:
                    pos.append(i)
                    break
            else:
                out.append(dict(sig="body-not-subsequence", what="the patch commands are not a subsequence of the command list"))
                return out
        posset = set(pos)
        wrappers = [c for i, c in enumerate(cmds) if i not in posset]
        body_cmds = [cmds[i] for i in pos]
        if any(c[0] not in allowed or c[1] != 0 for c in wrappers):
            out.append(dict(sig="extra-command-not-wrapper", what="a command outside the patch and outside every session wrapper is sent"))
        if any((w, 0) in want_body for w in allowed):
            body_cmds = []      # a patch row equal to a wrapper command at level 0: positions are ambiguous, skip the parameter check
    # ---- 3. no commit when committing is disabled
    if not case["do_commit"]:
        if any(COMMIT_RE.match(c[0]) for c in wrappers):
            out.append(dict(sig="commit-sent-when-disabled", what="do_commit=False but the wrapper contains a commit command"))
        if case["src"] == "make_patch" and any(p[-1] == "commit" for p, _ in paths):
            out.append(dict(sig="force-commit-row-when-disabled", what="do_commit=False but make_patch injected a commit row"))
    # ---- 4. timeout / dialog answers of the matching rule chain, defaults otherwise
    if len(body_cmds) == len(paths):
        for (p, ctx), c in zip(paths, body_cmds):
            rule, ambiguous = ref_chain(compiled, p, ctx)
            if ambiguous:
                continue
            try:
                t, qs = expected_params(rule)
            except Exception:
                continue
            if c[2] != t or c[3] != qs:
                out.append(dict(sig="wrong-rule-params", what="command %r of path %r carries timeout/questions %r, the matching rule chain gives %r"
                                % (c[0], p, (c[2], c[3]), (t, qs))))
                break
    return out


def classify_body(body, before, want, after):
    if body[:len(before)] != before:
        return dict(sig="wrong-before-wrapper", what="command list does not start with the session wrapper %r" % (before,))
    if after and body[-len(after):] != after or (not after and len(body) > len(before) + len(want)):
        return dict(sig="wrong-after-wrapper", what="command list does not end with the session wrapper %r" % (after,))
    return dict(sig="body-differs-from-paths", what="commands between the wrappers differ from the command paths (cmd, level)")


def rows_at(tree, path):
    """rows of the block at `path` of a dumped PatchTree ([[row, children|None, ...], ...])"""
    cur = tree
    for k in path:
        nxt = None
        for it in cur or []:
            if it[0] == k and it[1] is not None:
                nxt = it[1]
                break
        if nxt is None:
            return []
        cur = nxt
    return [it[0] for it in cur or []]


def classify_mismatch(case, shown, paths):
    """why the shown lines differ from the command paths: one violation per kind of repeated block path"""
    keys = [tuple(p) for p, _ in paths]
    sp = paths_of_lines(shown)
    if sp is not None:
        dedup = list(dict.fromkeys(sp))
        if len(dedup) < len(sp) and dedup == keys:
            cnt = {}
            for p in sp:
                cnt[p] = cnt.get(p, 0) + 1
            kinds = {}
            for p, n in cnt.items():
                # a repeated path below a repeated block is a consequence of that block's repetition
                if n > 1 and cnt.get(p[:-1], 1) == 1:
                    # how many of the n occurrences are rows of the PatchTree (the others are formatter exit statements)
                    rows_n = count_rows(case["patch"], p)
                    kind = "row-twice" if rows_n >= n else ("exit-twice" if rows_n == 0 else "row-equals-exit")
                    if kind == "exit-twice":
                        # the recorded shape: the exit statement follows an `else` block and the LAST block of its parent;
                        # an exit statement after any other block is something else
                        sibs = rows_at(case["patch"], p[:-1])
                        for i, q in enumerate(sp):
                            if q != p:
                                continue
                            prev = next((x for x in reversed(sp[:i]) if len(x) == len(p) and x[:-1] == p[:-1] and x != p), None)
                            if prev is not None and prev[-1] != "else" and (not sibs or prev[-1] != sibs[-1]):
                                kind = "exit-twice:after-non-final-block"
                    kinds.setdefault(kind, []).append(" / ".join(p))
            return [dict(sig="repeated-path-sent-once:" + kind,
                         what="the patch shows %d lines, %d commands are sent: block path(s) %s shown more than once (%s) are one "
                              "key of cmd_paths' dict" % (len(sp), len(keys), sorted(ps)[:3], kind))
                    for kind, ps in sorted(kinds.items())]
    return [dict(sig="text-differs-from-paths", what="shown lines %r != command paths %r" % (shown[:6], [(len(k) - 1, k[-1]) for k in keys][:6]))]


def count_rows(items, path):
    """number of PatchTree rows whose block path is `path` (siblings may repeat)"""
    n = 0
    for row, child, _ in items:
        if row == path[0]:
            if len(path) == 1:
                n += 1
            elif child is not None:
                n += count_rows(child, path[1:])
    return n


# ------------------------------------------------------------------ bookkeeping
def _depth(items):
    return max([1 + (_depth(c) if c is not None else 0) for _, c, _ in items], default=0)


def nontrivial(case, r):
    if case.get("e2e"):
        return isinstance(r.get("text"), str) and r["text"].count("\n") >= 2
    return isinstance(r.get("text"), str) and r["text"].count("\n") >= 2 and any(c is not None for _, c, _ in case["patch"])


def stats(case, r):
    if case.get("e2e"):
        return ["src=e2e-parse_result", "cls=" + str(r.get("cls")), "dont_commit=%d" % case["dont_commit"]]
    lab = ["src=" + case["src"].split(":")[0], "cls=" + str(r.get("cls")), "depth=%d" % _depth(case["patch"]),
           "flags=%d%d" % (case["do_commit"], case["do_finalize"]),
           "deploy=" + ("shipped" if case["deploy"] == "@shipped" else ("none" if not case["deploy"] else "generated"))]
    if isinstance(r.get("cmds"), dict):
        lab.append("deploy-err=" + r["cmds"]["err"])
    elif isinstance(r.get("cmds"), list):
        if any(c[2] != 30000 or c[3] for c in r["cmds"]):
            lab.append("some-rule-params-applied")
        lab.append("cmds<=%d" % (10 * ((len(r["cmds"]) + 9) // 10)))
    if isinstance(r.get("text"), str):
        n = r["text"].count("\n") + 1 if r["text"] else 0
        if isinstance(r.get("paths"), list) and n != len(r["paths"]):
            lab.append("lines>paths")
    return lab


def _tree_shrinks(items):
    for i in range(len(items)):
        yield items[:i] + items[i + 1:]
    for i, (row, child, ctx) in enumerate(items):
        if child is not None:
            yield items[:i] + [[row, None, ctx]] + items[i + 1:]
            yield items[:i] + child + items[i + 1:]
            for c2 in _tree_shrinks(child):
                yield items[:i] + [[row, c2, ctx]] + items[i + 1:]
        if ctx:
            yield items[:i] + [[row, child, {}]] + items[i + 1:]


def shrink_candidates(case):
    if case.get("e2e"):
        return
    if case["deploy"] not in ("", "@shipped"):
        yield dict(case, deploy="")
        ls = case["deploy"].split("\n")
        for i in range(len(ls)):
            yield dict(case, deploy="\n".join(ls[:i] + ls[i + 1:]))
    elif case["deploy"] == "@shipped":
        yield dict(case, deploy="")
    for p in _tree_shrinks(case["patch"]):
        yield dict(case, patch=p, src=case["src"].split(":")[0] if case["src"].startswith("sample") else case["src"])
    if case["indent"] != "  ":
        yield dict(case, indent="  ")


def search(case):
    rng = random.Random(len(repr(case)))
    for _ in range(300):
        c = dict(case)
        r = rng.random()
        if r < 0.3:
            c["do_commit"] = not c["do_commit"]
        elif r < 0.5:
            c["do_finalize"] = not c["do_finalize"]
        elif r < 0.7:
            c["deploy"] = gen_deploy(rng, c["patch"], overlap=rng.random() < 0.5)
        else:
            c["patch"] = gen_tree(rng, vocab(c["cls"]), rng.random() < 0.2, True)
        yield c
