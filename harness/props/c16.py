"""C16 — file mode vs device mode. impl: annet.api._read_old_new_diff_patch and annet.api._diff_and_patch (the real
front ends, for generated rulebooks through a RulebookProvider, and for the shipped rulebooks on the test corpus);
model: Annet.Api.fileMode / deviceMode; oracle: equal diff entries and equal command paths."""
import itertools
import random

from harness import rbgen

ID = "C16"
RULE = ("kind=gen: random rulebooks over the rule grammar + config pairs (as C03/C08), served to the real front ends by a "
        "RulebookProvider; kind=corpus: every (before, after) sample of tests/annet/test_patch with the shipped rulebook "
        "of its vendor, plus per-vendor cross products of corpus configs (a's before vs b's after) and sub-trees;"
        + rbgen.SMALL_RULE % ("", "") + " non-trivial = the patch has >=2 commands; distinct = distinct case")
TRUSTED_BASE = [
    "Lean 4.33 kernel; axioms per theorem listed (subset of propext, Classical.choice, Quot.sound)",
    "vendor %logic functions are parameters of the model (theorems quantify over every logic table); on the shipped corpus the "
    "comparison is implementation-vs-implementation (oracle), the Lean model is compared on generated rulebooks over the "
    "common logics",
    "harness/rbgen.py + harness/props/c16.py and the compiled Lean driver",
]
ASSUMPTIONS = ["no ACL, implicit defaults off, add_comments=False (as the property states)"]


def _make_provider():
    from annet.rulebook import DefaultRulebookProvider

    class Provider(DefaultRulebookProvider):
        """serves generated rulebooks to annet.rulebook.get_rulebook (the connector API annet offers for this) and the
        shipped ones for real hardware views"""
        table = {}

        def get_rulebook(self, hw):
            if isinstance(hw, rbgen.Hw):
                return Provider.table[hw.vendor + "|" + hw.tag]
            return super().get_rulebook(hw)

        def get_root_modules(self):
            # test-only logic functions (harness/logicmods/verif.py) become available as %logic=verif.<name>
            return ("annet.rulebook", "harness.logicmods")
    return Provider


_PROV = None


def setup_worker():
    global _PROV
    if _PROV is None:
        _PROV = _make_provider()
        rbgen.setup(_PROV)


_CORPUS = None


def corpus():
    global _CORPUS
    if _CORPUS is None:
        from tests.annet import patch_data
        from tests import make_hw_stub
        out = []
        for name, sample in patch_data.get_samples(dirname="annet/test_patch"):
            vendor = sample.get("vendor", "huawei").lower()
            try:
                hw = make_hw_stub(vendor)
                old, new, _ = patch_data.get_configs(hw, sample)
            except Exception:
                continue
            out.append((name, vendor, rbgen.to_list(old), rbgen.to_list(new)))
        _CORPUS = out
    return _CORPUS


# model strings by corpus vendor: the file front end is given the hardware as a STRING (`--hw "Huawei CE6870"`), the device
# front end gets the HardwareView of the same string; model-level strings decide Mako branches of the shipped rulebooks
FILE_MODELS = {
    "huawei": ["Huawei CE6870", "Huawei NE40E", "Huawei Quidway S5300", "Huawei"],
    "huawei ce": ["Huawei CE6870", "Huawei CE8850"],
    "cisco": ["Cisco Catalyst 2960", "Cisco Catalyst", "Cisco 2911"],
    "nexus": ["Cisco Nexus 3172", "Cisco Nexus 9508", "Cisco Nexus"],
    "arista": ["Arista DCS-7280", "Arista"],
    "asr": ["Cisco ASR 9000", "Cisco ASR"],
    "aruba": ["Aruba AP-335", "Aruba"],
    "b4com": ["B4com B4T-CS2148P", "B4com"],
}


def shards(tier, seed):
    out = [dict(kind="files", seed=seed * 1000 + 900 + i, n=25 if tier == "quick" else 1500) for i in range(4)]
    out += [dict(kind="gen", seed=seed * 1000 + i, n=120 if tier == "quick" else 15000) for i in range(12)]
    out += [dict(kind="sens", seed=seed * 1000 + 500 + i, n=150 if tier == "quick" else 15000) for i in range(8)]
    out.append(dict(kind="corpus"))
    n = 40 if tier == "quick" else 4000
    out += [dict(kind="cross", seed=seed * 1000 + i, n=n) for i in range(4)]
    if tier == "quick":
        out += [dict(kind="small", part=(seed * 2 + i) % 512, parts=512) for i in range(2)]
    else:
        out += [dict(kind="small", part=i, parts=32) for i in range(32)]
    return out


def gen(desc):
    if desc["kind"] == "small":
        for c in rbgen.small_cases(desc["part"], desc["parts"]):
            c["kind"] = "gen"
            yield c
        return
    if desc["kind"] == "gen":
        rng = random.Random(desc["seed"])
        for _ in range(desc["n"]):
            c = rbgen.gen_case(rng)
            c["kind"] = "gen"
            yield c
    elif desc["kind"] == "sens":
        # rulebooks whose rules use logics that look at the UNCHANGED bucket, several rows per (rule, key),
        # identical pairs included: what makes "strip before or after" and "empty diff => empty patch" observable
        rng = random.Random(desc["seed"])
        for _ in range(desc["n"]):
            c = rbgen.gen_case(rng, one_per_key=False, special=False)
            lines = []
            for l in c["ptext"].split("\n"):
                if l.strip() and "%" not in l and not l.strip().startswith("!") and rng.random() < 0.6:
                    l = l + "  %logic=verif." + rng.choice(["sensitive", "sensitive", "always"])
                lines.append(l)
            c["ptext"] = "\n".join(lines)
            if rng.random() < 0.15:
                c["new"] = [list(x) for x in c["old"]]
            c["kind"] = "gen"
            c["sens"] = True
            yield c
    elif desc["kind"] == "files":
        rng = random.Random(desc["seed"])
        cs = [c for c in corpus() if c[1] in FILE_MODELS]
        for _ in range(desc["n"]):
            a = rng.choice(cs)
            b = rng.choice([c for c in cs if c[1] == a[1]]) if rng.random() < 0.4 else a
            old, new = a[2], b[3]
            if rng.random() < 0.3:
                new = [x for x in new if rng.random() < 0.85]
            yield dict(kind="files", name="files:%s|%s" % (a[0], b[0]), vendor=a[1], model=rng.choice(FILE_MODELS[a[1]]),
                       old=old, new=new)
    elif desc["kind"] == "corpus":
        for name, vendor, old, new in corpus():
            yield dict(kind="corpus", name=name, vendor=vendor, old=old, new=new)
    else:
        rng = random.Random(desc["seed"])
        cs = corpus()
        byv = {}
        for c in cs:
            byv.setdefault(c[1], []).append(c)
        for _ in range(desc["n"]):
            v = rng.choice(sorted(byv))
            a, b = rng.choice(byv[v]), rng.choice(byv[v])
            old = a[rng.choice([2, 3])]
            new = b[rng.choice([2, 3])]
            if rng.random() < 0.4:
                # sub-trees: drop random top-level rows on one side
                new = [x for x in new if rng.random() < 0.8]
            yield dict(kind="corpus", name="cross:%s|%s" % (a[0], b[0]), vendor=v, old=old, new=new)


class _Dev:
    def __init__(self, hw):
        self.hw = hw
        self.hostname = "dev"
        self.breed = "x"


def files_modes(case):
    """the file front end as the CLI drives it - two files on disk and the hardware as a string (`_read_old_new_hw`,
    `file_patch_worker`) - against the device front end on the HardwareView of the same string"""
    import os
    import shutil
    import tempfile
    import types
    from annet import api
    from annet.annlib import tabparser
    from annet.annlib.netdev.views.hardware import HardwareView
    from annet.vendors import registry_connector
    setup_worker()
    hw_d = HardwareView(case["model"], "")
    try:
        fmt = registry_connector.get().match(hw_d).make_formatter(indent="  ")
        texts = [fmt.join(rbgen.to_odict(case[k])) for k in ("old", "new")]
    except Exception as e:  # noqa
        return {"skip": type(e).__name__}
    tmp = tempfile.mkdtemp(prefix="c16files")
    res = {}
    try:
        paths = []
        for nm, t in zip(("old.cfg", "new.cfg"), texts):
            pth = os.path.join(tmp, nm)
            with open(pth, "w") as f:
                f.write(t)
            paths.append(pth)
        args = types.SimpleNamespace(hw=case["model"], add_comments=False, indent="  ", show_rules=False, no_color=True)
        try:
            _dest, _o, _n, hw_f = api._read_old_new_hw(paths[0], paths[1], args)
            res["file_hw"] = [str(getattr(hw_f, "model", None)), hw_f.vendor, hw_f == hw_d]
            res["file"] = {"text": "".join(t for _l, t, _b in api.file_patch_worker((paths[0], paths[1]), args))}
        except AssertionError:
            res["file"] = {"err": "AssertionError"}
        except Exception as e:  # noqa
            res["file"] = {"err": type(e).__name__}
        try:
            old = tabparser.parse_to_tree(texts[0], fmt.split)
            new = tabparser.parse_to_tree(texts[1], fmt.split)
            _diff, pt = api._diff_and_patch(_Dev(hw_d), old, new, None, None, False)
            res["device"] = {"text": api._format_patch_blocks(pt, hw_d, "  ") if pt else ""}
            res["device_hw"] = [str(hw_d.model), hw_d.vendor, True]
        except AssertionError:
            res["device"] = {"err": "AssertionError"}
        except Exception as e:  # noqa
            res["device"] = {"err": type(e).__name__}
    finally:
        shutil.rmtree(tmp, ignore_errors=True)
    return res


def both_modes(case):
    from annet import api
    setup_worker()
    if case["kind"] == "files":
        return files_modes(case)
    if case["kind"] == "gen":
        hw = rbgen.Hw(case["vendor"])
        hw.tag = str(hash(case["ptext"] + "|" + case["otext"]))
        _PROV.table[hw.vendor + "|" + hw.tag] = rbgen.compile_rb(case["ptext"], case["otext"], case["vendor"])
    else:
        from tests import make_hw_stub
        hw = make_hw_stub(case["vendor"])
    res = {}
    for mode in ("device", "file"):
        old, new = rbgen.to_odict(case["old"]), rbgen.to_odict(case["new"])
        try:
            if mode == "device":
                diff, pt = api._diff_and_patch(_Dev(hw), old, new, None, None, False)
            else:
                _, diff, _, pt = api._read_old_new_diff_patch(old, new, hw, False)
        except AssertionError:
            res[mode] = {"err": "AssertionError"}
            continue
        except Exception as e:  # noqa  vendor logic may refuse a config pair; both modes must refuse alike
            res[mode] = {"err": type(e).__name__}
            continue
        res[mode] = {"stripped": rbgen.dump_diff(diff), "patch": rbgen.dump_patch(pt)}
    if case["kind"] == "gen":
        _PROV.table.pop(hw.vendor + "|" + hw.tag, None)
    return res


def impl(case):
    return both_modes(case)


def requests(case):
    if case["kind"] != "gen":
        return []
    rbgen.setup()
    return [rbgen.job_request("rb.patch", case, do_commit=True, mode="device"),
            rbgen.job_request("rb.patch", case, do_commit=True, mode="file")]


def model(case, resp):
    out = {}
    for mode, r in zip(("device", "file"), resp):
        if r.get("grammar") is False:
            return {"skip": True}
        out[mode] = {"err": r["err"]} if "err" in r else {"stripped": r["stripped"], "patch": r["patch"]}
    return out


def cmd_paths(pt, pre=()):
    out = []
    for row, ch, _ in pt:
        out.append(pre + (row,))
        if ch:
            out.extend(cmd_paths(ch, pre + (row,)))
    return out


def oracle(case, r):
    if case["kind"] == "files":
        if "skip" in r:
            return []
        out = []
        d, f = r.get("device", {}), r.get("file", {})
        if "file_hw" in r and "device_hw" in r and (r["file_hw"][:2] != r["device_hw"][:2] or not r["file_hw"][2]):
            out.append(dict(sig="file-front-end-works-on-another-hardware",
                            what="--hw %r: the file front end computes for hardware %r, the device front end for %r" % (
                                case["model"], r["file_hw"], r["device_hw"])))
        if ("err" in d or "err" in f) and d != f:
            out.append(dict(sig="modes-differ-error", what="device mode: %s, file mode: %s" % (d.get("err"), f.get("err"))))
        elif "text" in d and "text" in f and d["text"].rstrip("\n") != f["text"].rstrip("\n"):
            out.append(dict(sig="patch-differs:files", what="--hw %r: file mode prints %r, device mode %r" % (
                case["model"], f["text"][:200], d["text"][:200])))
        return out
    if "device" not in r:
        return [dict(sig="unexpected-exception", what="front end raised: %s" % (r,))]
    d, f = r["device"], r["file"]
    if "err" in d or "err" in f:
        if d != f:
            return [dict(sig="modes-differ-error", what="device mode: %s, file mode: %s" % (d.get("err"), f.get("err")))]
        return []
    out = []
    if d["stripped"] != f["stripped"]:
        out.append(dict(sig="diff-differs", what="file mode and device mode report different diff entries"))
    if cmd_paths(d["patch"]) != cmd_paths(f["patch"]):
        out.append(dict(sig="patch-differs", what="file mode sends %r, device mode sends %r" % (
            cmd_paths(f["patch"])[:6], cmd_paths(d["patch"])[:6])))
    return out


def nontrivial(case, r):
    if case["kind"] == "files":
        return "text" in r.get("device", {}) and r["device"]["text"].count("\n") >= 2
    return "device" in r and "patch" in r["device"] and len(cmd_paths(r["device"]["patch"])) >= 2


def stats(case, r):
    lab = ["kind=" + ("cross" if case.get("name", "").startswith("cross:") else "sens" if case.get("sens") else case["kind"]),
           "vendor=" + case["vendor"]]
    if case["kind"] == "files":
        lab = ["kind=files", "files:model=" + case["model"]]
        d = r.get("device", {})
        lab.append("files:result=" + ("skip" if "skip" in r else d.get("err", "ok")))
        return lab
    d = r.get("device", {"err": "Unexpected"})
    if "err" in d:
        lab.append("result=" + d["err"])
    else:
        n = len(cmd_paths(d["patch"]))
        lab.append("patch-cmds=%s" % ("0" if n == 0 else "1-3" if n <= 3 else "4-9" if n <= 9 else "10+"))
    return lab


def shrink_candidates(case):
    for side in ("old", "new"):
        t = case[side]

        def drops(tree):
            for i in range(len(tree)):
                yield tree[:i] + tree[i + 1:]
                for sub in drops(tree[i][1]):
                    yield tree[:i] + [[tree[i][0], sub]] + tree[i + 1:]
        for nt in drops(t):
            yield dict(case, **{side: nt})
