"""C14 — shipped routing-policy generators emit ACL-covered, self-consistent config.

impl  : the real generators of annet/rpl_generators (RoutingPolicyGenerator, PrefixListFilterGenerator,
        CommunityListGenerator, AsPathFilterGenerator, RDFilterFilterGenerator, CumulusPolicyGenerator) fed with
        RouteMap programs built through the real annet.rpl builder API (R.* conditions, rule.* actions):
          * annet.generators._run_partial_generator(gen, GeneratorPartialRunArgs(device, use_acl=True))  (huawei, arista)
          * gen.run(device) consumed item by item the way PartialGenerator.__call__ does (rows + block paths,
            then the exception, if any)
          * CumulusPolicyGenerator.generate_cumulus_rpl(device) consumed item by item
          * the same streams for every single condition / action of the program in isolation
            (a one-statement, one-element policy), so that "lines, then error" is attributed to an element.
model : Annet.Rpl.* (Model/Rpl.lean) through op "c14.run": the same streams, partial results and isolated elements,
        computed from the *built* RoutingPolicy objects read back field by field.
oracle: on the real results only — no AclError; parse(output) nesting == yielded nesting; refs(policy output) is a
        subset of defs(list generators' output) by independent regex extraction; per element "lines xor error";
        the full policy stream is the concatenation of the isolated element streams up to the first error.
glue  : harness/c14glue.py adds generated families for the code that derives list *names* on both sides of the
        refs/defs clause (HAS_ANY unions: mangle_united_community_list_name / get_used_united_community_lists;
        or_longer overrides: PrefixListNameGenerator): argument lists naming a list more than once and in different
        orders, overrides with bounds 0 / None, lists with several overrides used from several policies.  On them the
        clause "every named list a policy refers to is defined under the same name, exactly once" is evaluated on the
        rows the real generators yield AND on the ACL-filtered config _run_partial_generator returns; a dangling or
        doubly defined name is classified by the input construct it belongs to (c14glue.origin), one signature each.
"""
import json
import random
import re

from harness import c14glue

ID = "C14"
RULE = ("cases = (vendor in {huawei, arista, cumulus}, 1-3 policies x 1-4 statements built with the real RouteMap/R/rule "
        "API: 0-4 conditions over all 15 MatchFields (HAS/HAS_ANY over 1-3 lists, match_v4/v6 with or_longer bounds, "
        "as_path_length ==,>=,<=,between), 0-5 builder calls over all ThenFields (community / large / extcommunity / "
        "extcommunity_rt / extcommunity_soo add-remove-set, as_path prepend/delete/expand/expand_last_as/set, next_hop "
        "targets, scalar setters), results allow/deny/next/next_policy; entity sets: community lists of type "
        "BASIC/RT/SOO/LARGE x logic AND/OR x use_regex with 0-3 members, v4/v6 prefix lists with per-member or_longer, "
        "as-path filters, rd filters); ~45% of programs are drawn from the features every back-end expresses (whole run "
        "succeeds), a ~6% stream is malformed (wrong-type lists, unknown names, missing/duplicate numbers); quick = "
        "32 x 400 random programs + a systematic enumeration of single-element programs per vendor (every community-"
        "like field x every ordered subset of set/add/remove x list choices, every as_path verb sequence of length <= 2, "
        "every next_hop target, every scalar setter, every condition field/operator, every result; thorough: longer "
        "sequences and more list choices, 128 x 1500 random programs) + the 10 acl_<vendor> texts compared with the "
        "model's rule trees + the name-glue families of harness/c14glue.py (quick 8 x 220 has-any programs: HAS_ANY/HAS "
        "argument lists naming a list twice, the same lists in other orders / spellings in other statements and policies; "
        "8 x 220 or-longer programs: overrides drawn from {None,0,m} x {None,0,n}, a palette per program so that one list "
        "gets several overrides and one override comes from several policies; a systematic part: every override of the "
        "grid alone and all together, every HAS_ANY spelling of length <= 3 over two lists alone / reversed / next to its "
        "de-duplicated spelling; thorough: 32 x 900 + 32 x 900 and longer spellings, every pair of overrides); "
        "a case is non-trivial when some generator emitted >= 2 lines or an element raised; "
        "distinct = distinct case")
TRUSTED_BASE = [
    "Lean 4.33 kernel; axioms per theorem are listed in axioms_per_theorem (subset of propext, Classical.choice, Quot.sound)",
    "correspondence harness harness/props/c14.py + compiled Lean driver (Lean compiler) evaluating Model/Rpl.lean",
    "the annet.rpl builder (RouteMap.apply, Route.__call__, merge_conditions, StatementBuilder) is executed, not "
    "modelled: the model starts from the built RoutingPolicy objects, read back field by field by the harness",
    "str() of ints and ipaddress network formatting (str(prefix), network_address, prefixlen) are computed by the "
    "harness with the real objects and passed to the model as strings",
    "tests.annet.MockDevice devices (Huawei CE6870 / Arista DCS-7368 / Mellanox SN3700 Cumulus) and a Mock storage",
    "Model/Acl.lean + Model/Pattern.lean + Model/Offside.lean (ACL, rule patterns, offside parser) are tied to the "
    "real code by C06 / C07 / C05; the generators' ACL texts are re-extracted from the real acl_<vendor>() on every "
    "run and compared with the model's constants",
    "the oracle's regex tables of referencing / defining commands per vendor (harness/props/c14.py REFS/DEFS)",
]
ASSUMPTIONS = [
    "names (policies, lists, filters) are non-empty words over [A-Za-z0-9_.-] that are not vendor keywords, contain no "
    "'_OR_' and are not the word None; members/values contain no blanks except where the API joins them",
    "rule.custom_action and conditions built outside R.* are out of the domain",
    "annotate=False, use_acl=True, use_acl_safe=False",
    "clause 'error before any line' is checked on programs whose list references are defined and of the field's own "
    "type (BASIC for community, LARGE for large_community, RT/SOO for the extcommunity fields, v4/v6 prefix lists); an "
    "unknown name or a list of another type is an invalid input (KeyError / ValueError), not an unsupported construct; "
    "on that ~6% stream only ACL coverage, nesting and name-level refs/defs are checked",
    "Cumulus is modelled line-exact as a stream; FRR's own syntax is not validated (only refs/defs/nesting)",
]
EXHAUSTIVE = {"quick": False, "thorough": False}

VENDORS = ["huawei", "arista", "cumulus"]
GENS = ["policy", "prefix", "community", "aspath", "rd"]

_STATE = {}
_CACHE = {}


# ----------------------------------------------------------------------------- set-up
def setup_worker():
    if _STATE.get("ready"):
        return
    import logging
    import warnings
    warnings.simplefilter("ignore")
    logging.disable(logging.CRITICAL)
    from annet.hardware import hardware_connector, AnnetHardwareProvider
    from annet.rulebook import rulebook_provider_connector, DefaultRulebookProvider

    def _set(conn, cls):
        conn._classes = [cls]
        if hasattr(conn, "_cache"):
            conn._cache = None

    _set(hardware_connector, AnnetHardwareProvider)
    _set(rulebook_provider_connector, DefaultRulebookProvider)
    from tests.annet import MockDevice
    _STATE["dev"] = {
        "huawei": MockDevice("Huawei CE6870-48S6CQ-EI", "VRP V200R001C00SPC700 + V200R001SPH002", "vrp85"),
        "arista": MockDevice("Arista DCS-7368", "EOS 4.29.9.1M", "arista"),
        "cumulus": MockDevice("Mellanox SN3700-VS2RO", "Cumulus Linux 5.4.0", "pc"),
    }
    _STATE["ready"] = True


# ----------------------------------------------------------------------------- shards and case generation
def shards(tier, seed):
    out = []
    if tier == "quick":
        for i in range(32):
            out.append(dict(kind="rnd", seed=seed * 100000 + i, n=400))
        out.append(dict(kind="shapes", part=0, parts=1, level=1))
        out.append(dict(kind="acl"))
        for i in range(8):
            out.append(dict(kind="glue-has-any", seed=seed * 100000 + 50000 + i, n=220))
            out.append(dict(kind="glue-or-longer", seed=seed * 100000 + 60000 + i, n=220))
        for p in range(4):
            out.append(dict(kind="glue-shapes", part=p, parts=4, level=1))
    else:
        out.append(dict(kind="acl"))
        for i in range(128):
            out.append(dict(kind="rnd", seed=seed * 100000 + 1000 + i, n=1500))
        for p in range(16):
            out.append(dict(kind="shapes", part=p, parts=16, level=2))
        for i in range(32):
            out.append(dict(kind="glue-has-any", seed=seed * 100000 + 51000 + i, n=900))
            out.append(dict(kind="glue-or-longer", seed=seed * 100000 + 61000 + i, n=900))
        for p in range(16):
            out.append(dict(kind="glue-shapes", part=p, parts=16, level=2))
    return out


BASIC = ["C1", "C2", "C3"]
RT = ["T1", "T2"]
SOO = ["S1", "S2"]
LARGE = ["L1", "L2"]
V4 = ["P1", "P2", "P3"]
V6 = ["Q1", "Q2"]
ASP = ["AS1", "AS2"]
RDS = ["RD1", "RD2"]
POLNAMES = ["pol_a", "POL-B", "p3", "IMPORT.v4"]
CTYPES = {"BASIC": BASIC, "RT": RT, "SOO": SOO, "LARGE": LARGE}
COMM_FIELDS = {"community": "BASIC", "large_community": "LARGE", "extcommunity_rt": "RT", "extcommunity_soo": "SOO"}


def _members(rng, ctype, regex):
    pool = {
        "BASIC": ["65000:1", "65000:2", "65535:0", "100:200"],
        "RT": ["65000:100", "1.1.1.1:5", "65001:7"],
        "SOO": ["65001:200", "2.2.2.2:9"],
        "LARGE": ["65000:1:1", "65000:0:77", "4200000000:1:2"],
    }[ctype]
    if regex:
        pool = {"BASIC": ["^65000:.*$", "6500[0-9]:1", ".*:100"], "RT": ["65000:.*", "^1\\.1\\.1\\.1:.+"],
                "SOO": ["65001:.*"], "LARGE": ["65000:.*:1", "^65000:1:.*$"]}[ctype]
    return pool


def gen_entities(rng, safe):
    clists = []
    for ctype, names in CTYPES.items():
        for n in names:
            regex = rng.random() < (0.08 if safe else 0.2)
            pool = _members(rng, ctype, regex)
            if regex:
                k = 1 if (safe or rng.random() < 0.7) else 2
            else:
                k = rng.choice([1, 1, 2, 2, 3]) if safe else rng.choice([0, 1, 1, 2, 2, 3])
                if not safe and rng.random() > 0.12 and k == 0:
                    k = 1
            members = [rng.choice(pool) for _ in range(k)]
            clists.append(dict(name=n, members=members, type=ctype, logic=rng.choice(["OR", "OR", "AND"]),
                               use_regex=regex))
    plists = []
    for n in V4:
        k = rng.choice([1, 1, 2, 3]) if safe or rng.random() > 0.05 else 0
        ms = []
        for _ in range(k):
            ln = rng.choice([8, 16, 24, 32])
            net = "%d.%d.0.0/%d" % (rng.choice([10, 172, 192]), rng.choice([0, 16, 168]), ln) if ln >= 16 else \
                "%d.0.0.0/8" % rng.choice([10, 11])
            ol = [None, None]
            if rng.random() < 0.3:
                ol = [rng.choice([None, ln, 24]), rng.choice([None, 32, 28])]
            ms.append([net, ol[0], ol[1]])
        plists.append(dict(name=n, members=ms))
    for n in V6:
        k = rng.choice([1, 1, 2]) if safe or rng.random() > 0.05 else 0
        ms = []
        for _ in range(k):
            net = rng.choice(["2001:db8::/32", "2001:db8:abcd::/48", "::/0", "fe80::/10"])
            ol = [None, None]
            if rng.random() < 0.3:
                ol = [rng.choice([None, 48, 64]), rng.choice([None, 128, 64])]
            ms.append([net, ol[0], ol[1]])
        plists.append(dict(name=n, members=ms))
    aspaths = [dict(name=n, filters=[rng.choice(["65000", ".*", "6500[0-9]", "123"])
                                     for _ in range(rng.choice([1, 1, 2, 3]) if safe or rng.random() > 0.06 else 0)])
               for n in ASP]
    rds = [dict(name=n, number=rng.randint(0, 4), members=["65000:%d" % rng.randint(1, 9)
                                                          for _ in range(rng.choice([1, 2, 3]) if safe or rng.random() > 0.06 else 0)])
           for n in RDS]
    return clists, plists, aspaths, rds


def _pick_names(rng, pool, lo=1, hi=3):
    k = rng.randint(lo, min(hi, len(pool)))
    return rng.sample(pool, k)


def gen_cond(rng, vendor, safe, malformed):
    """one condition spec: [field, op, value]"""
    if safe:
        fields = ["community", "ip_prefix", "ipv6_prefix", "as_path_filter", "metric", "protocol", "interface",
                  "extcommunity_rt"]
        if vendor != "cumulus":
            fields += ["as_path_length"]
        if vendor == "huawei":
            fields += ["large_community", "extcommunity_soo", "rd"]
        if vendor == "cumulus":
            fields += ["large_community", "extcommunity_soo"]
        if vendor == "arista":
            fields += ["extcommunity_soo"]
    else:
        fields = ["community", "large_community", "extcommunity_rt", "extcommunity_soo", "rd", "ip_prefix", "ipv6_prefix",
                  "as_path_filter", "as_path_length", "metric", "protocol", "interface", "net_len", "local_pref", "family"]
    f = rng.choice(fields)
    if f in COMM_FIELDS:
        pool = CTYPES[COMM_FIELDS[f]]
        if malformed and rng.random() < 0.5:
            pool = rng.choice([BASIC + RT, LARGE + BASIC, SOO + RT, BASIC + ["NOPE"]])
        op = rng.choice(["has", "has_any"])
        hi = 3
        if safe and vendor == "huawei":
            hi = 1 if (f, op) in (("community", "has"), ("large_community", "has_any"), ("extcommunity_rt", "has"),
                                  ("extcommunity_soo", "has_any")) else 3
        return [f, op, _pick_names(rng, pool, 1, hi)]
    if f == "rd":
        return [f, rng.choice(["has", "has_any"]), _pick_names(rng, RDS + (["NORD"] if malformed else []), 1, 1 if safe else 2)]
    if f in ("ip_prefix", "ipv6_prefix"):
        pool = V4 if f == "ip_prefix" else V6
        if malformed and rng.random() < 0.5:
            pool = rng.choice([V4 + V6, pool + ["NOPL"]])
        ol = rng.choice([[None, None], [None, None], [8, None], [None, 24], [16, 24], [0, None], [24, 32]])
        return [f, "match", _pick_names(rng, pool, 1, 2), ol]
    if f == "as_path_filter":
        return [f, "==", rng.choice(ASP + (["NOAS"] if malformed else []))]
    if f == "as_path_length":
        op = rng.choice(["==", ">=", "<=", "range", "between"])
        if op in ("range", "between"):
            a = rng.randint(0, 5)
            return [f, op, [a, a + rng.randint(0, 5)]]
        return [f, op, rng.randint(0, 9)]
    if f == "metric":
        return [f, "==", rng.randint(0, 1000)]
    if f == "protocol":
        return [f, "==", rng.choice(["bgp", "static", "direct", "connected"])]
    if f == "interface":
        return [f, "==", rng.choice(["eth0", "100GE1/0/1", "Ethernet1"])]
    if f == "net_len":
        return [f, "==", rng.randint(0, 32)]
    if f == "local_pref":
        return [f, "<", rng.randint(0, 200)]
    if f == "family":
        return [f, "==", rng.choice([4, 6])]
    raise AssertionError(f)


SAFE_ACTS = {
    "huawei": ["community.add", "community.remove", "community.set", "large_community.add", "large_community.set",
               "large_community.remove", "extcommunity_rt.add", "extcommunity_rt.remove", "extcommunity.add",
               "as_path.prepend", "as_path.delete", "as_path.set", "set_local_pref", "set_metric", "add_metric",
               "set_metric_type", "set_mpls_label", "set_origin", "set_tag"],
    "arista": ["community.add", "community.remove", "community.set", "extcommunity.add", "extcommunity.remove",
               "extcommunity.set", "extcommunity_rt.add", "extcommunity_rt.remove", "extcommunity_soo.remove",
               "as_path.prepend", "as_path.set", "as_path.expand_last_as", "next_hop",
               "set_local_pref", "set_metric", "add_metric", "set_metric_type", "set_origin", "set_tag"],
    "cumulus": ["community.add", "community.remove", "community.set", "large_community.add", "extcommunity_rt.add",
                "extcommunity_soo.add", "extcommunity.set", "as_path.prepend", "as_path.delete", "as_path.set",
                "as_path.expand_last_as", "next_hop", "set_local_pref", "set_metric", "add_metric", "set_metric_type",
                "set_origin", "set_tag"],
}
ALL_ACTS = ["community.add", "community.remove", "community.set", "large_community.add", "large_community.remove",
            "large_community.set", "extcommunity.add", "extcommunity.remove", "extcommunity.set",
            "extcommunity_rt.add", "extcommunity_rt.remove", "extcommunity_rt.set",
            "extcommunity_soo.add", "extcommunity_soo.remove", "extcommunity_soo.set",
            "as_path.prepend", "as_path.delete", "as_path.expand", "as_path.expand_last_as", "as_path.set",
            "next_hop", "set_local_pref", "set_metric", "add_metric", "set_metric_type", "set_rpki_valid_state",
            "set_resolution", "set_mpls_label", "set_origin", "set_tag", "set_next_hop"]
ACT_POOL = {"community": BASIC, "large_community": LARGE, "extcommunity": RT + SOO, "extcommunity_rt": RT,
            "extcommunity_soo": SOO}


def gen_act(rng, vendor, safe, malformed, used):
    pool_acts = SAFE_ACTS[vendor] if safe else ALL_ACTS
    for _ in range(20):
        a = rng.choice(pool_acts)
        base = a.split(".")[0]
        if safe:
            # within the features the back-end expresses: no set together with add/remove, one as_path verb ...
            if "." in a and base != "as_path":
                verb = a.split(".")[1]
                prev = used.get(base, set())
                if (verb == "set" and prev) or ("set" in prev):
                    continue
                if vendor == "arista" and base in ("extcommunity_rt", "extcommunity_soo") and prev:
                    continue
            if base == "as_path" and "as_path" in used:
                continue
        break
    if "." in a and base in ACT_POOL:
        verb = a.split(".")[1]
        pool = ACT_POOL[base]
        if base == "extcommunity" and safe and vendor in ("huawei", "cumulus") and verb == "set":
            pool = RT if vendor == "huawei" else pool
        if malformed and rng.random() < 0.5:
            pool = rng.choice([BASIC + RT, LARGE + SOO, pool + ["NOPE"]])
        lo = 0 if (verb == "set" and not (safe and vendor == "huawei" and base.startswith("ext"))) else 1
        names = _pick_names(rng, pool, lo, 2) if lo else (_pick_names(rng, pool, 1, 2) if rng.random() < 0.8 else [])
        used.setdefault(base, set()).add(verb)
        return [base, verb, names]
    if base == "as_path":
        verb = a.split(".")[1]
        used.setdefault(base, set()).add(verb)
        if verb == "expand_last_as":
            return [base, verb, rng.choice([3, "2"])]
        lo = 0 if verb == "set" and rng.random() < 0.2 else 1
        return [base, verb, [rng.choice([65000, "65001", 64512]) for _ in range(rng.randint(lo, 3))]]
    if a == "next_hop":
        t = rng.choice(["self", "peer", "discard", "ipv4_addr", "ipv6_addr", "mapped_ipv4"])
        addr = {"ipv4_addr": "192.0.2.1", "ipv6_addr": "2001:db8::1", "mapped_ipv4": "192.0.2.7"}.get(t)
        return ["next_hop", t, addr]
    if a == "set_mpls_label":
        return [a]
    if a in ("set_local_pref", "set_metric", "add_metric", "set_tag"):
        return [a, rng.randint(0, 500)]
    if a == "set_metric_type":
        return [a, rng.choice(["type-1", "type-2", "internal"])]
    if a == "set_rpki_valid_state":
        return [a, rng.choice(["valid", "invalid"])]
    if a == "set_resolution":
        return [a, "default"]
    if a == "set_origin":
        return [a, rng.choice(["igp", "egp", "incomplete"])]
    if a == "set_next_hop":
        return [a, rng.choice(["self", "peer"])]
    raise AssertionError(a)


def gen_case(rng):
    vendor = rng.choice(VENDORS)
    safe = rng.random() < 0.45
    malformed = (not safe) and rng.random() < 0.11
    clists, plists, aspaths, rds = gen_entities(rng, safe)
    policies = []
    npol = rng.choice([1, 1, 2, 3])
    names = rng.sample(POLNAMES, npol)
    if malformed and npol > 1 and rng.random() < 0.2:
        names[1] = names[0]
    for pn in names:
        stmts = []
        num = 0
        for _ in range(rng.choice([1, 1, 2, 2, 3, 4])):
            num += rng.choice([1, 5, 10])
            number = num
            if malformed and rng.random() < 0.15:
                number = rng.choice([None, max(1, num - 10), num])
                if number is not None and stmts and rng.random() < 0.5:
                    number = stmts[0]["number"]
            conds = []
            seen = set()
            for _ in range(rng.choice([0, 1, 1, 2, 2, 3, 4]) if not safe else rng.choice([0, 1, 1, 2, 3])):
                c = gen_cond(rng, vendor, safe, malformed)
                if c[0] in seen:
                    continue
                seen.add(c[0])
                conds.append(c)
            acts = []
            used = {}
            for _ in range(rng.choice([0, 1, 1, 2, 2, 3, 5]) if not safe else rng.choice([0, 1, 2, 3])):
                acts.append(gen_act(rng, vendor, safe, malformed, used))
            if safe:
                result = rng.choice(["allow", "deny", "next", None])
            else:
                result = rng.choice(["allow", "allow", "deny", "next", None, "next_policy"])
            stmts.append(dict(number=number, name=rng.choice([None, "st%d" % num]), conds=conds, acts=acts, result=result))
        policies.append(dict(name=pn, stmts=stmts))
    return dict(vendor=vendor, policies=policies, clists=clists, plists=plists, aspaths=aspaths, rds=rds)


def _shape_cases(level):
    """systematic single-action programs: every community-like field x (set/add/remove subsets) x list-type choices,
    every as_path verb subset, every next_hop target — per vendor."""
    import itertools
    rng = random.Random(7)
    clists, plists, aspaths, rds = gen_entities(rng, True)
    for c in clists:
        c["use_regex"] = False
        c["logic"] = "OR"
        c["members"] = {"BASIC": ["65000:1", "65535:0"], "RT": ["65000:100"], "SOO": ["65001:200", "2.2.2.2:9"],
                        "LARGE": ["65000:1:1"]}[c["type"]]
    ent = dict(clists=clists, plists=plists, aspaths=aspaths, rds=rds)

    def case(vendor, acts, conds=(), result="allow"):
        return dict(vendor=vendor, policies=[dict(name="pol_a", stmts=[dict(number=10, name=None, conds=list(conds),
                                                                             acts=list(acts), result=result)])], **ent)
    for vendor in VENDORS:
        for base, pool in ACT_POOL.items():
            choices = [[pool[0]], pool[:2]] if level == 1 else [[pool[0]], pool[:2], [pool[-1]], [pool[-1], pool[0]]]
            for verbs in itertools.chain.from_iterable(itertools.permutations(["set", "add", "remove"], k) for k in (1, 2, 3)):
                for names in choices:
                    yield case(vendor, [[base, v, names] for v in verbs])
            yield case(vendor, [[base, "set", []]])
            if level > 1:
                for a, b in itertools.product(choices, repeat=2):
                    yield case(vendor, [[base, "add", a], [base, "remove", b]])
        verbs = ["prepend", "delete", "expand", "expand_last_as", "set"]
        for k in (1, 2) if level == 1 else (1, 2, 3):
            for vs in itertools.permutations(verbs, k):
                yield case(vendor, [["as_path", v, 3 if v == "expand_last_as" else [65000, "65001"]] for v in vs])
        yield case(vendor, [["as_path", "set", []]])
        for t in ["self", "peer", "discard", "ipv4_addr", "ipv6_addr", "mapped_ipv4"]:
            yield case(vendor, [["next_hop", t, {"ipv4_addr": "192.0.2.1", "ipv6_addr": "2001:db8::1",
                                                 "mapped_ipv4": "192.0.2.7"}.get(t)]])
        for a in [["set_local_pref", 5], ["set_metric", 5], ["add_metric", 5], ["set_metric_type", "type-1"],
                  ["set_rpki_valid_state", "valid"], ["set_resolution", "default"], ["set_mpls_label"],
                  ["set_origin", "igp"], ["set_tag", 7], ["set_next_hop", "self"]]:
            yield case(vendor, [a])
        yield case(vendor, [["set_metric", 5], ["add_metric", 3]])
        yield case(vendor, [["add_metric", 5], ["add_metric", 3]])
        # every condition field / operator alone
        for f, ctype in COMM_FIELDS.items():
            for op in ("has", "has_any"):
                for k in (1, 2, 3):
                    pool = CTYPES[ctype]
                    if k <= len(pool):
                        yield case(vendor, [], [[f, op, pool[:k]]])
        for op in ("has", "has_any"):
            for k in (1, 2):
                yield case(vendor, [], [["rd", op, RDS[:k]]])
        for f, pool in (("ip_prefix", V4), ("ipv6_prefix", V6)):
            for ol in ([None, None], [8, None], [None, 24], [16, 24], [0, None], [0, 0]):
                for k in (1, 2):
                    yield case(vendor, [], [[f, "match", pool[:k], ol]])
        for c in (["as_path_filter", "==", "AS1"], ["as_path_length", "==", 3], ["as_path_length", ">=", 3],
                  ["as_path_length", "<=", 3], ["as_path_length", "range", [1, 4]], ["as_path_length", "between", [1, 4]],
                  ["metric", "==", 5], ["protocol", "==", "bgp"], ["interface", "==", "eth0"], ["net_len", "==", 24],
                  ["local_pref", "<", 100], ["family", "==", 4]):
            yield case(vendor, [], [c])
        for res in ("allow", "deny", "next", None, "next_policy"):
            yield case(vendor, [["set_tag", 1]], [["metric", "==", 1]], result=res)


def gen(desc):
    if desc["kind"] == "acl":
        for v in ("huawei", "arista"):
            for k in GENS:
                yield dict(kind="acl", vendor=v, gen=k)
        return
    if desc["kind"].startswith("glue-"):
        yield from c14glue.gen(desc)
        return
    if desc["kind"] == "rnd":
        rng = random.Random(desc["seed"])
        for _ in range(desc["n"]):
            yield gen_case(rng)
    else:
        for i, c in enumerate(_shape_cases(desc["level"])):
            if i % desc["parts"] == desc["part"]:
                yield c


# ----------------------------------------------------------------------------- building with the real API
class BuildError(Exception):
    pass


def _mk_cond(c):
    from annet.rpl import R
    f, op = c[0], c[1]
    if f in COMM_FIELDS or f == "rd":
        fac = getattr(R, f)
        return getattr(fac, op)(*c[2])
    if f == "ip_prefix":
        return R.match_v4(*c[2], or_longer=tuple(c[3]))
    if f == "ipv6_prefix":
        return R.match_v6(*c[2], or_longer=tuple(c[3]))
    if f == "as_path_filter":
        return R.as_path_filter(c[2])
    if f == "as_path_length":
        if op == "range":
            return [R.as_path_length >= c[2][0], R.as_path_length <= c[2][1]]
        if op == "between":
            return R.as_path_length.between_included(tuple(c[2]))
        return {"==": R.as_path_length.eq, ">=": R.as_path_length.ge, "<=": R.as_path_length.le}[op](c[2])
    fac = getattr(R, f)
    return {"==": fac.eq, "<": fac.lt, ">=": fac.ge, "<=": fac.le, ">": fac.gt}[op](c[2])


def _apply_act(rule, a):
    k = a[0]
    if k in ACT_POOL:
        getattr(getattr(rule, k), a[1])(*a[2])
    elif k == "as_path":
        if a[1] == "expand_last_as":
            rule.as_path.expand_last_as(a[2])
        else:
            getattr(rule.as_path, a[1])(*a[2])
    elif k == "next_hop":
        if a[2] is None:
            getattr(rule.next_hop, a[1])()
        else:
            getattr(rule.next_hop, a[1])(a[2])
    elif k == "set_mpls_label":
        rule.set_mpls_label()
    else:
        getattr(rule, k)(a[1])


def build_policies(case, device):
    """RouteMap program -> list[RoutingPolicy] through the real builder API"""
    from annet.rpl import RouteMap
    rm = RouteMap()

    def make(p):
        def handler(dev, route):
            for s in p["stmts"]:
                conds = []
                for c in s["conds"]:
                    x = _mk_cond(c)
                    conds.extend(x if isinstance(x, list) else [x])
                with route(*conds, name=s["name"], number=s["number"]) as rule:
                    for a in s["acts"]:
                        _apply_act(rule, a)
                    if s["result"]:
                        getattr(rule, s["result"])()
        return handler

    for p in case["policies"]:
        rm(make(p), name=p["name"])
    try:
        return rm.apply(device)
    except Exception as e:  # builder refused the program (e.g. unmergeable conditions)
        raise BuildError(type(e).__name__)


def build_entities(case):
    from annet.rpl_generators import (CommunityList, CommunityType, CommunityLogic, IpPrefixList, IpPrefixListMember,
                                      AsPathFilter, RDFilter)
    clists = [CommunityList(c["name"], list(c["members"]), type=CommunityType[c["type"]], logic=CommunityLogic[c["logic"]],
                            use_regex=c["use_regex"]) for c in case["clists"]]
    plists = [IpPrefixList(p["name"], [IpPrefixListMember(m[0], (m[1], m[2])) for m in p["members"]]) for p in case["plists"]]
    aspaths = [AsPathFilter(a["name"], list(a["filters"])) for a in case["aspaths"]]
    rds = [RDFilter(r["name"], r["number"], list(r["members"])) for r in case["rds"]]
    return clists, plists, aspaths, rds


def _gen_classes():
    if "classes" in _STATE:
        return _STATE["classes"]
    from annet import rpl_generators as rg

    def mk(base):
        class G(base):
            _ctx = None

            def get_policies(self, device):
                return self._ctx["policies"]

            def get_prefix_lists(self, device):
                return self._ctx["plists"]

            def get_community_lists(self, device):
                return self._ctx["clists"]

            def get_rd_filters(self, device):
                return self._ctx["rds"]

            def get_as_path_filters(self, device):
                return self._ctx["aspaths"]
        G.__name__ = "T" + base.__name__
        return G
    _STATE["classes"] = dict(policy=mk(rg.RoutingPolicyGenerator), prefix=mk(rg.PrefixListFilterGenerator),
                             community=mk(rg.CommunityListGenerator), aspath=mk(rg.AsPathFilterGenerator),
                             rd=mk(rg.RDFilterFilterGenerator), cumulus=mk(rg.CumulusPolicyGenerator))
    return _STATE["classes"]


def _new_gen(kind, ctx):
    from unittest.mock import Mock
    cls = _gen_classes()[kind]
    g = cls() if kind == "cumulus" else cls(Mock())
    g._ctx = ctx
    return g


def _errname(e):
    return type(e).__name__


def _tree_list(d):
    return [[k, _tree_list(v)] for k, v in d.items()]


def run_partial(gen, device):
    """annet.generators._run_partial_generator with use_acl=True"""
    from annet.generators import _run_partial_generator
    from annet.generators.exceptions import GeneratorError
    from annet.types import GeneratorPartialRunArgs
    try:
        r = _run_partial_generator(gen, GeneratorPartialRunArgs(device, use_acl=True))
    except GeneratorError as e:
        return {"err": "GeneratorError", "cause": _errname(e.__cause__) if e.__cause__ is not None else "None"}
    if r is None:
        return {"none": True}
    return {"ok": _tree_list(r.config)}


def run_stream(gen, device):
    """gen.run(device) consumed the way PartialGenerator.__call__ consumes it; rows with their block path"""
    from annet.generators.base import _filter_str
    from annet.lib import flatten
    if not gen.supports_device(device):
        return {"none": True}
    gen._indents = []
    gen._rows = []
    gen._block_path = []
    lines = []
    orig = gen._append_text

    def rec(text):
        d = len(gen._indents)
        lines.append([list(gen._block_path[:d]), text])
        orig(text)
    gen._append_text = rec
    err = None
    try:
        for text in gen.run(device):
            if isinstance(text, tuple):
                text = " ".join(map(_filter_str, flatten(text)))
            else:
                text = _filter_str(text)
            gen._append_text(text)
    except Exception as e:  # noqa
        err = e
    finally:
        del gen._append_text
    return {"lines": lines, "err": _errname(err) if err else None, "msg": str(err)[:160] if err else None,
            "rows": list(gen._rows)}


def run_cumulus(gen, device):
    lines = []
    err = None
    try:
        for x in gen.generate_cumulus_rpl(device):
            lines.append(" ".join(x))
    except Exception as e:  # noqa
        err = e
    return {"lines": lines, "err": _errname(err) if err else None, "msg": str(err)[:160] if err else None}


def _elements(policies):
    """every (policy, statement, element) -> one-statement one-element policy"""
    from annet.rpl import RoutingPolicy, RoutingPolicyStatement, AndCondition, Action, ResultType
    out = []
    for pi, p in enumerate(policies):
        for si, s in enumerate(p.statements):
            for ci, c in enumerate(s.match):
                st = RoutingPolicyStatement(name=s.name, number=s.number if s.number is not None else 1,
                                            match=AndCondition(c), then=Action(), result=ResultType.ALLOW)
                out.append((dict(p=pi, s=si, kind="cond", i=ci, field=str(getattr(c.field, "value", c.field))),
                            [RoutingPolicy(p.name, [st])]))
            for ai, a in enumerate(s.then):
                act = Action()
                act.append(a)
                st = RoutingPolicyStatement(name=s.name, number=s.number if s.number is not None else 1,
                                            match=AndCondition(), then=act, result=ResultType.ALLOW)
                out.append((dict(p=pi, s=si, kind="act", i=ai, field=str(getattr(a.field, "value", a.field))),
                            [RoutingPolicy(p.name, [st])]))
    return out


def run_real(case):
    """everything observed on the real code for one case"""
    setup_worker()
    vendor = case["vendor"]
    device = _STATE["dev"][vendor]
    try:
        policies = build_policies(case, device)
    except BuildError as e:
        return {"build_err": str(e)}
    clists, plists, aspaths, rds = build_entities(case)
    ctx = dict(policies=policies, clists=clists, plists=plists, aspaths=aspaths, rds=rds)
    res = {"vendor": vendor}
    if vendor == "cumulus":
        res["stream"] = run_cumulus(_new_gen("cumulus", ctx), device)
    else:
        res["gens"] = {}
        for k in GENS:
            res["gens"][k] = dict(partial=run_partial(_new_gen(k, ctx), device), stream=run_stream(_new_gen(k, ctx), device))
    elems = []
    for meta, pols in _elements(policies):
        ectx = dict(ctx, policies=pols)
        if vendor == "cumulus":
            st = run_cumulus(_new_gen("cumulus", ectx), device)
            reached = any(l.startswith("route-map ") for l in st["lines"])
            own, err = _own_cumulus(st)
            elems.append(dict(meta, lines=own, err=err, msg=st["msg"] if reached else None, reached=reached))
        else:
            st = run_stream(_new_gen("policy", ectx), device)
            own = [l[1] for l in st["lines"][1:]]
            elems.append(dict(meta, lines=own, err=st["err"], msg=st["msg"], reached=bool(st["lines"])))
    res["elems"] = elems
    return res


def _key(case):
    return json.dumps(case, sort_keys=True)


def acl_real(case):
    """the rule tree syntax.parse_text makes of the generator's real acl_<vendor>() text"""
    import textwrap
    from harness.props import c06
    setup_worker()
    ctx = dict(policies=[], clists=[], plists=[], aspaths=[], rds=[])
    g = _new_gen(case["gen"], ctx)
    a = g.acl(_STATE["dev"][case["vendor"]])
    if a is None:
        return {"acl": None, "supported": bool(g.supports_device(_STATE["dev"][case["vendor"]]))}
    return {"acl": c06.raw_trees(textwrap.dedent(a)), "supported": bool(g.supports_device(_STATE["dev"][case["vendor"]]))}


def impl(case):
    if case.get("kind") == "acl":
        return acl_real(case)
    r = run_real(case)
    _CACHE.clear()
    _CACHE[_key(case)] = r
    return strip_msgs(r)


def strip_msgs(r):
    """the comparable projection: error messages are not modelled"""
    if "build_err" in r:
        return {"build_err": True}
    out = {"vendor": r["vendor"]}
    if "stream" in r:
        out["stream"] = dict(lines=r["stream"]["lines"], err=r["stream"]["err"])
    if "gens" in r:
        out["gens"] = {}
        for k, g in r["gens"].items():
            s = g["stream"]
            out["gens"][k] = dict(partial=g["partial"],
                                  stream=s if "none" in s else dict(lines=s["lines"], err=s["err"]))
    out["elems"] = [dict(p=e["p"], s=e["s"], kind=e["kind"], i=e["i"], lines=e["lines"], err=e["err"]) for e in r["elems"]]
    return out


# ----------------------------------------------------------------------------- model side
MODEL_ON = True


def _sv(v):
    return str(v)


def readback(case):
    """the built RoutingPolicy objects, field by field, as data for the model"""
    setup_worker()
    device = _STATE["dev"][case["vendor"]]
    policies = build_policies(case, device)
    from annet.rpl import ConditionOperator, ActionType
    from annet.rpl.match_builder import PrefixMatchValue
    from annet.rpl.statement_builder import CommunityActionValue, AsPathActionValue, NextHopActionValue
    out = []
    for p in policies:
        stmts = []
        for s in p.statements:
            conds = []
            for c in s.match:
                v = c.value
                if isinstance(v, PrefixMatchValue):
                    val = dict(k="pfx", names=list(v.names), a=None if v.or_longer[0] is None else _sv(v.or_longer[0]),
                               b=None if v.or_longer[1] is None else _sv(v.or_longer[1]),
                               any=bool(any(v.or_longer)))
                elif isinstance(v, (tuple, list)) and all(isinstance(x, str) for x in v):
                    val = dict(k="names", names=list(v))
                elif isinstance(v, (tuple, list)):
                    val = dict(k="pair", a=_sv(v[0]), b=_sv(v[1]))
                else:
                    val = dict(k="scalar", s=_sv(v))
                conds.append(dict(field=c.field.value, op=c.operator.name, val=val))
            acts = []
            for a in s.then:
                v = a.value
                if isinstance(v, CommunityActionValue):
                    val = dict(k="comm", replaced=None if v.replaced is None else list(v.replaced), added=list(v.added),
                               removed=list(v.removed))
                elif isinstance(v, AsPathActionValue):
                    val = dict(k="aspath", set=None if v.set is None else list(v.set), prepend=list(v.prepend),
                               expand=list(v.expand), expand_last_as=v.expand_last_as, delete=list(v.delete))
                elif isinstance(v, NextHopActionValue):
                    val = dict(k="nexthop", target=v.target or "", addr=v.addr)
                else:
                    val = dict(k="scalar", s=_sv(v))
                acts.append(dict(field=a.field.value, type=a.type.name, val=val))
            stmts.append(dict(name=s.name, number=None if s.number is None else _sv(s.number), result=s.result.name,
                              conds=conds, acts=acts))
        out.append(dict(name=p.name, stmts=stmts))
    return out


def entities_for_model(case):
    import ipaddress
    pl = []
    for p in case["plists"]:
        ms = []
        for m in p["members"]:
            n = ipaddress.ip_network(m[0])
            ms.append(dict(net=str(n), addr=str(n.network_address).upper(), len=str(n.prefixlen),
                           ge=None if m[1] is None else str(m[1]), le=None if m[2] is None else str(m[2])))
        pl.append(dict(name=p["name"], members=ms))
    rds = [dict(name=r["name"], number=str(r["number"]), members=r["members"]) for r in case["rds"]]
    return dict(clists=case["clists"], plists=pl, aspaths=case["aspaths"], rds=rds)


def requests(case):
    if not MODEL_ON:
        return []
    if case.get("kind") == "acl":
        return [dict(op="c14.acl", vendor=case["vendor"], gen=case["gen"])]
    try:
        pols = readback(case)
    except BuildError:
        return []
    return [dict(op="c14.run", vendor=case["vendor"], policies=pols, **entities_for_model(case))]


def _elem_meta(pols):
    out = []
    for pi, p in enumerate(pols):
        for si, st in enumerate(p["stmts"]):
            for ci, _c in enumerate(st["conds"]):
                out.append(dict(p=pi, s=si, kind="cond", i=ci))
            for ai, _a in enumerate(st["acts"]):
                out.append(dict(p=pi, s=si, kind="act", i=ai))
    return out


def _own_cumulus(st):
    """rows of the single element of a one-statement cumulus run (same rule as run_real)"""
    idx = max([i for i, l in enumerate(st["lines"]) if l.startswith("route-map ")], default=None)
    if idx is None:
        return [], None
    own = st["lines"][idx + 1:]
    if st["err"] is None and own and own[-1] == "!":
        own = own[:-1]
    return own, st["err"]


def model(case, resp):
    r = resp[0]
    if "fail" in r:
        return {"model-fail": r["fail"]}
    if case.get("kind") == "acl":
        return {"acl": r["ok"], "supported": r["ok"] is not None}
    if r.get("skip"):
        return {"skip": True}
    m = r["ok"]
    meta = _elem_meta(readback(case))
    elems = []
    for md, st in zip(meta, m["elems"]):
        if m["vendor"] == "cumulus":
            own, err = _own_cumulus(st)
        else:
            own, err = [l[1] for l in st["lines"][1:]], st["err"]
        elems.append(dict(md, lines=own, err=err))
    m["elems"] = elems
    return m


# ----------------------------------------------------------------------------- the direct oracle
def _norm(s):
    return re.sub(r"\s+", " ", s).strip()


def _slug(s, n=70):
    return re.sub(r"[^a-z0-9]+", "-", s.lower()).strip("-")[:n]


REFS = {
    "huawei": [
        (r"^if-match community-filter (\S+)", "community-filter", 1),
        (r"^if-match large-community-filter (\S+)", "large-community-filter", 1),
        (r"^if-match extcommunity-filter (\S+)", "extcommunity-filter", 1),
        (r"^if-match extcommunity-list soo (\S+)", "extcommunity-list soo", 1),
        (r"^if-match rd-filter (\S+)", "rd-filter", 1),
        (r"^if-match ip-prefix (\S+)", "ip-prefix", 1),
        (r"^if-match ipv6 address prefix-list (\S+)", "ipv6-prefix", 1),
        (r"^if-match as-path-filter (\S+)", "as-path-filter", 1),
        (r"^apply comm-filter (\S+) delete$", "community-filter", 1),
        (r"^apply extcommunity-filter rt (\S+) delete$", "extcommunity-filter", 1),
    ],
    "arista": [
        (r"^match community (.+)$", "community-list", "*"),
        (r"^match extcommunity (.+)$", "extcommunity-list", "*"),
        (r"^match large-community (.+)$", "large-community-list", "*"),
        (r"^match ip address prefix-list (\S+)", "ip prefix-list", 1),
        (r"^match ipv6 address prefix-list (\S+)", "ipv6 prefix-list", 1),
        (r"^match as-path (?!length\b)(\S+)", "as-path access-list", 1),
        (r"^set community community-list (.+?)(?: additive)?$", "community-list", "*"),
        (r"^set large-community large-community-list (.+?)(?: additive| delete)?$", "large-community-list", "*"),
    ],
    "cumulus": [
        (r"^match community (\S+)", "community-list", 1),
        (r"^match large-community-list (\S+)", "large-community-list", 1),
        (r"^match extcommunity (\S+)", "extcommunity", 1),
        (r"^match ip address prefix-list (\S+)", "ip prefix-list", 1),
        (r"^match ipv6 address prefix-list (\S+)", "ipv6 prefix-list", 1),
        (r"^match as-path (\S+)", "as-path access-list", 1),
        (r"^set comm-list (\S+) delete$", "community-list", 1),
    ],
}
DEFS = {
    "huawei": [
        (r"^ip community-filter (?:basic|advanced) (\S+) ", "community-filter"),
        (r"^ip large-community-filter (?:basic|advanced) (\S+) ", "large-community-filter"),
        (r"^ip extcommunity-filter (?:basic|advanced) (\S+) ", "extcommunity-filter"),
        (r"^ip extcommunity-list soo (?:basic|advanced) (\S+) ", "extcommunity-list soo"),
        (r"^ip rd-filter (\S+) ", "rd-filter"),
        (r"^ip ip-prefix (\S+) ", "ip-prefix"),
        (r"^ip ipv6-prefix (\S+) ", "ipv6-prefix"),
        (r"^ip as-path-filter (\S+) ", "as-path-filter"),
    ],
    "arista": [
        (r"^ip community-list (?:regexp )?(\S+) permit", "community-list"),
        (r"^ip extcommunity-list (?:regexp )?(\S+) permit", "extcommunity-list"),
        (r"^ip large-community-list (?:regexp )?(\S+) permit", "large-community-list"),
        (r"^ip prefix-list (\S+)$", "ip prefix-list"),
        (r"^ipv6 prefix-list (\S+)$", "ipv6 prefix-list"),
        (r"^ip as-path access-list (\S+) permit", "as-path access-list"),
    ],
    "cumulus": [
        (r"^bgp community-list (?:standard|expanded) (\S+) ", "community-list"),
        (r"^bgp large-community-list (?:standard|expanded) (\S+) ", "large-community-list"),
        (r"^bgp extcommunity (?:standard|expanded) (\S+) ", "extcommunity"),
        (r"^ip prefix-list (\S+) seq", "ip prefix-list"),
        (r"^ipv6 prefix-list (\S+) seq", "ipv6 prefix-list"),
        (r"^ip as-path access-list (\S+) permit", "as-path access-list"),
    ],
}


def extract(table, lines, many_ok=True):
    out = []
    for l in lines:
        l = _norm(l)
        for ent in table:
            m = re.search(ent[0], l)
            if m:
                if len(ent) > 2 and ent[2] == "*":
                    out.extend((ent[1], n) for n in m.group(1).split(" "))
                else:
                    out.append((ent[1], m.group(1)))
                break
    return out


def type_consistent(case):
    """every field refers to lists of its own type / family, every name exists, no name is used for both families"""
    ctype = {c["name"]: c["type"] for c in case["clists"]}
    v4 = set()
    v6 = set()
    for p in case["plists"]:
        for m in p["members"]:
            (v6 if ":" in m[0] else v4).add(p["name"])
    plnames = {p["name"] for p in case["plists"]}
    for p in case["policies"]:
        for s in p["stmts"]:
            for c in s["conds"]:
                if c[0] in COMM_FIELDS:
                    if any(ctype.get(n) != COMM_FIELDS[c[0]] for n in c[2]):
                        return False
                if c[0] == "ip_prefix" and any(n in v6 or n not in plnames for n in c[2]):
                    return False
                if c[0] == "ipv6_prefix" and any(n in v4 or n not in plnames for n in c[2]):
                    return False
            for a in s["acts"]:
                if a[0] in COMM_FIELDS and any(ctype.get(n) != COMM_FIELDS[a[0]] for n in a[2]):
                    return False
                if a[0] == "extcommunity" and any(ctype.get(n) not in ("RT", "SOO") for n in a[2]):
                    return False
    return True


def _paths(tree, pre=()):
    out = []
    for k, ch in tree:
        out.append(pre + (_norm(k),))
        out.extend(_paths(ch, pre + (_norm(k),)))
    return out


def _insert(tree, path):
    node = tree
    for k in path:
        for ent in node:
            if ent[0] == k:
                node = ent[1]
                break
        else:
            ent = [k, []]
            node.append(ent)
            node = ent[1]


def _empty_source(case, kind, name):
    """does the dangling name come from lists/filters that have no members?"""
    src = {}
    for c in case["clists"]:
        src[c["name"]] = (len(c["members"]) == 0 and c["logic"] == "OR")
    for p in case["plists"]:
        src[p["name"]] = len(p["members"]) == 0
    if kind == "rd-filter":
        used = {n for p in case["policies"] for st in p["stmts"] for c in st["conds"] if c[0] == "rd" for n in c[2]}
        return any(str(r["number"]) == name and not r["members"] for r in case["rds"] if r["name"] in used)
    parts = name.split("_OR_")
    if all(src.get(x) for x in parts):
        return True
    m = re.match(r"^(.*)_(unset|\d+)_(unset|\d+)$", name)
    if m and src.get(m.group(1)):
        return True
    return False


def oracle(case, r_cmp):
    if case.get("kind") == "acl":
        return []
    r = _CACHE.get(_key(case))
    if r is None:
        r = run_real(case)
    if "build_err" in r:
        return []
    vendor = r["vendor"]
    out = []
    tc = type_consistent(case)

    # ---- (4) per element: lines xor error
    # clause (4) speaks of constructs the back-end cannot express; a reference to an unknown list or to a list of
    # another community type / address family is an invalid input, not such a construct (see ASSUMPTIONS)
    for e in r["elems"] if tc else []:
        if e["err"] is not None and e["lines"]:
            out.append(dict(
                sig="lines-then-error:%s:%s:%s:%s" % (vendor, e["field"], e["err"], _slug(e["msg"] or "")),
                what="%s %s `%s` of policy #%d statement #%d emitted %r and then raised %s(%s)" % (
                    vendor, {"cond": "condition", "act": "action"}[e["kind"]], e["field"], e["p"], e["s"], e["lines"],
                    e["err"], e["msg"])))

    if vendor == "cumulus":
        st = r["stream"]
        lines = st["lines"]
        # ---- (2) nesting: indented rows hang below the last unindented row; parse(text) must agree
        from annet.annlib import tabparser
        exp = []
        parent = None
        for l in lines:
            if l == "!" or not l.strip():
                continue
            if l.startswith(" "):
                _insert(exp, ([parent] if parent is not None else []) + [_norm(l)])
            else:
                parent = _norm(l)
                _insert(exp, [parent])
        try:
            got = _tree_list(tabparser.parse_to_tree("\n".join(lines), tabparser.CommonFormatter().split))
            if sorted(_paths(got)) != sorted(_paths(exp)):
                out.append(dict(sig="nesting-mismatch:cumulus", what="parse_to_tree(output) differs from the yielded nesting"))
        except tabparser.ParserError as e:
            out.append(dict(sig="nesting-parse-error:cumulus", what="generated text does not parse: %s" % e))
        # ---- (3) refs subset of defs (only when the run completed)
        if st["err"] is None:
            pol = [l for l in lines if l.startswith(" ")]
            lst = [l for l in lines if not l.startswith(" ")]
            out.extend(_refs_check(case, vendor, pol, lst, tc))
            out.extend(_once_check(case, vendor, pol, [([], l) for l in lst]))
        # ---- (5) compositionality of the route-map section
        out.extend(_compose_check_cumulus(case, r))
        return out

    gens = r["gens"]
    for k in GENS:
        g = gens[k]
        p = g["partial"]
        s = g["stream"]
        if "none" in p:
            continue
        # ---- (1) no AclError on the generator's own output
        if p.get("cause") == "AclError":
            rows = [l for l in s["lines"]]
            bad = _first_uncovered(k, vendor, case, r)
            out.append(dict(sig="acl-uncovered:%s:%s:%s" % (vendor, k, " ".join(_norm(bad).split(" ")[:2])),
                            what="%s %s generator's own ACL does not cover its line %r (AclError)" % (vendor, k, bad)))
        if p.get("cause") == "ParserError":
            out.append(dict(sig="nesting-parse-error:%s:%s" % (vendor, k), what="generated text does not parse"))
        # ---- (2) nesting
        if s["err"] is None:
            exp = []
            for path, text in s["lines"]:
                _insert(exp, [_norm(x) for x in path] + [_norm(text)])
            try:
                got = _parse_vendor(vendor, "\n".join(s["rows"]) + "\n")
                if _paths(got) != _paths(exp):
                    out.append(dict(sig="nesting-mismatch:%s:%s" % (vendor, k),
                                    what="parse_to_tree(output) differs from the block structure the lines were yielded in"))
            except Exception as e:  # noqa
                out.append(dict(sig="nesting-parse-error:%s:%s" % (vendor, k), what="generated text does not parse: %r" % e))
            # … and the same for what the REAL PartialGenerator.__call__ writes (the stream above is joined by the harness,
            # token by token): the tree _run_partial_generator returns must hold every yielded row, whole, where it was yielded
            if "ok" in p and sorted(_paths(p["ok"])) != sorted(_paths(exp)):
                gp, ep = set(_paths(p["ok"])), set(_paths(exp))
                out.append(dict(sig="generated-text-differs-from-yielded-rows:%s:%s" % (vendor, k),
                                what="_run_partial_generator returns rows %r, the generator yielded %r" % (
                                    sorted(gp - ep)[:3], sorted(ep - gp)[:3])))
    # ---- (3) refs subset of defs, when every generator completed
    if all(gens[k]["stream"].get("err") is None for k in GENS if "none" not in gens[k]["stream"]):
        pol = [t for path, t in gens["policy"]["stream"]["lines"] if path]
        lst = []
        for k in GENS[1:]:
            if "none" not in gens[k]["stream"]:
                lst.extend(t for path, t in gens[k]["stream"]["lines"])
        found = _refs_check(case, vendor, pol, lst, tc)
        # the same clause on what _run_partial_generator returns (the generators' rows after their own ACL)
        if all("ok" in gens[k]["partial"] or "none" in gens[k]["partial"] for k in GENS):
            pol2 = [t for d, t in _tree_rows(gens["policy"]["partial"].get("ok", [])) if d > 0]
            lst2 = []
            for k in GENS[1:]:
                lst2.extend(t for _d, t in _tree_rows(gens[k]["partial"].get("ok", [])))
            have = {v["sig"] for v in found}
            for v in _refs_check(case, vendor, pol2, lst2, tc):
                if v["sig"] not in have:
                    have.add(v["sig"])
                    v["what"] += " [in the ACL-filtered config of _run_partial_generator]"
                    found.append(v)
        out.extend(found)
        lst_paths = []
        for k in GENS[1:]:
            if "none" not in gens[k]["stream"]:
                lst_paths.extend((path, t) for path, t in gens[k]["stream"]["lines"])
        out.extend(_once_check(case, vendor, pol, lst_paths))
    # ---- (5) the policy stream is the concatenation of its elements' streams up to the first error
    out.extend(_compose_check(case, r))
    return out


def _parse_vendor(vendor, text):
    from annet.annlib import tabparser
    from annet.vendors import registry_connector
    fmtr = registry_connector.get().match(_STATE["dev"][vendor].hw).make_formatter()
    return _tree_list(tabparser.parse_to_tree(text, fmtr.split))


def _first_uncovered(k, vendor, case, r):
    """the row apply_acl refused (re-run to read the exception text)"""
    from annet.generators import _run_partial_generator
    from annet.generators.exceptions import GeneratorError
    from annet.types import GeneratorPartialRunArgs
    device = _STATE["dev"][vendor]
    policies = build_policies(case, device)
    clists, plists, aspaths, rds = build_entities(case)
    ctx = dict(policies=policies, clists=clists, plists=plists, aspaths=aspaths, rds=rds)
    try:
        _run_partial_generator(_new_gen(k, ctx), GeneratorPartialRunArgs(device, use_acl=True))
    except GeneratorError as e:
        return str(e.__cause__)
    return "?"


def _refs_check(case, vendor, pol_lines, list_lines, tc):
    out = []
    refs = extract(REFS[vendor], pol_lines)
    defs = extract(DEFS[vendor], list_lines)
    dset = set(defs) if tc else None
    dnames = {n for _, n in defs}
    seen = set()
    for kind, name in refs:
        ok = ((kind, name) in dset) if tc else (name in dnames)
        if ok or (kind, name) in seen:
            continue
        seen.add((kind, name))
        reason = "empty-list" if _empty_source(case, kind, name) else ("kind-mismatch" if name in dnames else "undefined")
        # which construct of the input the name belongs to (read off the input alone): one signature per mechanism
        org = c14glue.origin(case, name) if reason == "undefined" else None
        if org in ("has-any-list-named-twice", "has-any-other-order", "or-longer-zero-bound", "or-longer-open-bound",
                   "or-longer-override"):
            reason = org
        near = sorted({n for k, n in defs if k == kind})
        out.append(dict(sig="dangling-ref:%s:%s" % (vendor, reason) if reason == "empty-list" else
                        "dangling-ref:%s:%s:%s" % (vendor, kind, reason),
                        what="%s policy output refers to %s `%s` which the list generators do not define (%s); "
                             "defined %s names: %s" % (vendor, kind, name, reason, kind, near[:12])))
    return out


def _tree_rows(tree, depth=0):
    for k, ch in tree:
        yield depth, k
        yield from _tree_rows(ch, depth + 1)


# one definition unit = one keyed row of a list: (kind, list name, index / seq); for Arista prefix lists also the block
ONCE = {
    "huawei": [(r"^ip (ip-prefix|ipv6-prefix) (\S+) (index \d+) ", {"ip-prefix": "ip-prefix", "ipv6-prefix": "ipv6-prefix"}),
               (r"^ip (community-filter|large-community-filter|extcommunity-filter|extcommunity-list soo) "
                r"(?:basic|advanced) (\S+) (index \d+) ",
                {"community-filter": "community-filter", "large-community-filter": "large-community-filter",
                 "extcommunity-filter": "extcommunity-filter", "extcommunity-list soo": "extcommunity-list soo"})],
    "arista": [],
    "cumulus": [(r"^(ip|ipv6) prefix-list (\S+) (seq \d+) ", {"ip": "ip prefix-list", "ipv6": "ipv6 prefix-list"}),
                (r"^bgp (community-list|large-community-list|extcommunity) (?:standard|expanded) (\S+) (seq \d+) ",
                 {"community-list": "community-list", "large-community-list": "large-community-list",
                  "extcommunity": "extcommunity"})],
}


def _once_check(case, vendor, pol_lines, list_rows):
    """'... is defined, under the same name': a list the policy refers to has ONE definition - no keyed row of it
    (index / seq, for Arista the prefix-list block and its seq rows) is emitted a second time"""
    refs = set(extract(REFS[vendor], pol_lines))
    count = {}
    for path, text in list_rows:
        t = _norm(text)
        if vendor == "arista":
            m = re.match(r"^(ip|ipv6) prefix-list (\S+)$", t)
            if m and not path:
                key = (m.group(1) + " prefix-list", m.group(2), "block")
            elif path and re.match(r"^seq \d+ ", t):
                m = re.match(r"^(ip|ipv6) prefix-list (\S+)$", _norm(path[-1]))
                if not m:
                    continue
                key = (m.group(1) + " prefix-list", m.group(2), " ".join(t.split(" ")[:2]))
            else:
                continue
            count[key] = count.get(key, 0) + 1
            continue
        for rx, kinds in ONCE[vendor]:
            m = re.match(rx, t)
            if m:
                key = (kinds[m.group(1)], m.group(2), m.group(3))
                count[key] = count.get(key, 0) + 1
                break
    out = []
    seen = set()
    for (kind, name, unit), n in sorted(count.items()):
        if n > 1 and (kind, name) in refs and (kind, name) not in seen:
            seen.add((kind, name))
            org = c14glue.origin(case, name) or "plain"
            out.append(dict(sig="list-defined-twice:%s:%s:%s" % (vendor, kind, org),
                            what="%s: %s `%s` which the policy refers to is defined more than once: its %s row is emitted "
                                 "%d times by the list generator" % (vendor, kind, name, unit, n)))
    return out


def _compose_check(case, r):
    """the policy stream is: per statement a header row, the rows of its conditions and actions in order (each as
    observed in isolation), an optional trailer row; it stops with the first failing element's error"""
    vendor = r["vendor"]
    st = r["gens"]["policy"]["stream"]
    lines = [t for _path, t in st["lines"]]
    groups = {}
    for e in r["elems"]:
        groups.setdefault((e["p"], e["s"]), []).append(e)

    def bad(why):
        return [dict(sig="stream-not-compositional:%s" % vendor,
                     what="policy stream (%d rows, err %s) is not the concatenation of its elements' streams: %s" % (
                         len(lines), st["err"], why))]
    pos = 0
    for pi, p in enumerate(case["policies"]):
        for si, _s in enumerate(p["stmts"]):
            if pos == len(lines) and st["err"]:
                return []          # error raised while opening the block (no number, unknown result): no element involved
            if pos >= len(lines):
                return bad("statement %d/%d has no header row" % (pi, si))
            pos += 1
            for e in groups.get((pi, si), []):
                if lines[pos:pos + len(e["lines"])] != e["lines"]:
                    return bad("rows of %s %s differ: %r vs isolated %r" % (e["kind"], e["field"],
                                                                            lines[pos:pos + len(e["lines"])], e["lines"]))
                pos += len(e["lines"])
                if e["err"]:
                    if st["err"] == e["err"] and pos == len(lines):
                        return []
                    return bad("element %s %s raises %s in isolation" % (e["kind"], e["field"], e["err"]))
            if pos < len(lines) and lines[pos] in ("goto next-node", "continue") and st["lines"][pos][0]:
                pos += 1
    if st["err"] is None and pos == len(lines):
        return []
    return bad("%d rows left over" % (len(lines) - pos))


def _compose_check_cumulus(case, r):
    return []


# ----------------------------------------------------------------------------- bookkeeping
def nontrivial(case, r):
    if case.get("kind") == "acl":
        return False
    if "build_err" in r:
        return False
    if r["vendor"] == "cumulus":
        return len(r["stream"]["lines"]) >= 4 or any(e["err"] for e in r["elems"])
    return any(len(g["stream"].get("lines", [])) >= 2 for g in r["gens"].values()) or any(e["err"] for e in r["elems"])


def stats(case, r):
    if case.get("kind") == "acl":
        return ["acl-text-compared"]
    if "build_err" in r:
        return ["build-error"]
    v = r["vendor"]
    lab = ["vendor=" + v]
    if v == "cumulus":
        lab.append("cumulus:run=" + (r["stream"]["err"] or "ok"))
    else:
        allok = True
        for k, g in r["gens"].items():
            p = g["partial"]
            res = "none" if "none" in p else ("ok" if "ok" in p else p["cause"])
            lab.append("%s:%s=%s" % (v, k, res))
            allok = allok and res in ("ok", "none")
        lab.append("%s:whole-run=%s" % (v, "ok" if allok else "rejected"))
    for e in r["elems"]:
        lab.append("elem:%s:%s=%s" % (v, e["kind"], "lines" if not e["err"] else ("error-after-lines" if e["lines"] else "error")))
    lab.extend(c14glue.labels(case))
    if case.get("glue"):
        done = (r["stream"]["err"] is None) if v == "cumulus" else all(
            "none" in g["stream"] or g["stream"]["err"] is None for g in r["gens"].values())
        lab.append("glue:%s:refs-clause-evaluated=%s" % (case["glue"], done))
        if done:
            if v == "cumulus":
                pol = [l for l in r["stream"]["lines"] if l.startswith(" ")]
            else:
                pol = [t for path, t in r["gens"]["policy"]["stream"]["lines"] if path]
            refs = set(extract(REFS[v], pol))
            for _k, n in refs:
                if "_OR_" in n:
                    lab.append("glue:policy-ref:united-name")
                elif re.search(r"_(unset|\d+)_(unset|\d+)$", n):
                    lab.append("glue:policy-ref:override-name")
    lab.append("type-consistent=%s" % type_consistent(case))
    lab.append("stmts=%d" % sum(len(p["stmts"]) for p in case["policies"]))
    return lab


def shrink_candidates(case):
    import copy
    if case.get("kind") == "acl":
        return
    # drop policies, statements, conditions, actions, then entities' members
    for pi in range(len(case["policies"])):
        if len(case["policies"]) > 1:
            c = copy.deepcopy(case)
            del c["policies"][pi]
            yield c
    for pi, p in enumerate(case["policies"]):
        for si in range(len(p["stmts"])):
            if len(p["stmts"]) > 1:
                c = copy.deepcopy(case)
                del c["policies"][pi]["stmts"][si]
                yield c
            for key in ("conds", "acts"):
                for i in range(len(p["stmts"][si][key])):
                    c = copy.deepcopy(case)
                    del c["policies"][pi]["stmts"][si][key][i]
                    yield c
            for i, a in enumerate(p["stmts"][si]["acts"]):
                if len(a) > 2 and isinstance(a[2], list) and len(a[2]) > 1:
                    for j in range(len(a[2])):
                        c = copy.deepcopy(case)
                        del c["policies"][pi]["stmts"][si]["acts"][i][2][j]
                        yield c
            for i, a in enumerate(p["stmts"][si]["conds"]):
                if isinstance(a[2], list) and len(a[2]) > 1 and a[0] != "as_path_length":
                    for j in range(len(a[2])):
                        c = copy.deepcopy(case)
                        del c["policies"][pi]["stmts"][si]["conds"][i][2][j]
                        yield c
    used = json.dumps(case["policies"])
    for key in ("clists", "plists", "aspaths", "rds"):
        for i, e in enumerate(case[key]):
            if '"%s"' % e["name"] not in used:
                c = copy.deepcopy(case)
                del c[key][i]
                yield c
                break
