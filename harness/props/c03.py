"""C03 — the diff is a faithful, lossless description. impl: patching.make_diff / strip_unchanged / formatter.diff;
model: Annet.Diff.makeDiff; oracle: projections, exact ops, self-diff, MOVED, text round trip on the real outputs.
The glue between the diff and the text that is shown (file mode: api._read_old_new_diff_patch / file_diff_worker; several
devices: annet.diff.collapse_diffs / gen_sort_diff / api.Deployer.diff_lines) is driven by the kinds of harness/c03glue.py."""
import copy
import random

from harness import c03glue, c03multiline, rbgen

ID = "C03"
RULE = ("(rulebook text, vendor, old, new): random patching rulebooks over the rule grammar (nesting<=3, %global, %ordered, "
        "%rewrite, !ignore, common logics), config pairs instantiating the rules (drops, additions, value changes, "
        "reorderings, unknown rows, 10% with several rows per (rule,key)); plus self-diff cases (old == new); plus the small "
        "space (30 rulebooks `a * [P] / x * [Q]`, `b` x all ordered pairs of 104 configurations over {a 1, a 2, b} / "
        "{x 1, x 2}: 324480 cases) exhaustively in the thorough tier and one 64th of it in the quick tier; non-trivial = "
        "the stripped diff has >=2 entries and >=2 different ops or nesting; distinct = distinct case; plus the glue kinds: "
        "fileglue (generated rulebooks through api._read_old_new_diff_patch + the printing statement of file_diff_worker), "
        "filediff (shipped rulebooks of arista/huawei/cisco/nexus/iosxr/juniper through api.file_diff_worker on real files "
        "rendered from a universe of vendor-shaped blocks of which old and new are correlated selections), collapse (2-6 devices "
        "whose diffs come in families - identical, identical with other context, same flattened lines under another nesting, "
        "different - through annet.diff.collapse_diffs, gen_sort_diff and api.Deployer.diff_lines), multiline (Huawei configs with "
        "several `rsa|dsa peer-public-key <name>` blocks, bodies of 0-3 levels, blocks removed / added / changed / reordered / "
        "unchanged, empty bodies included, through make_diff with the shipped rulebook and common.multiline_diff directly)")
TRUSTED_BASE = [
    "Lean 4.33 kernel; axioms per theorem listed (subset of propext, Classical.choice, Quot.sound)",
    "rule rows matched by Model/Pattern.lean (tied to CPython re by C07); tabparser/valkit executed, not modelled",
    "harness/rbgen.py + harness/props/c03.py (generators, canonical dumps, oracle) and the compiled Lean driver",
]
ASSUMPTIONS = [
    "standard diff logics only (default_diff, ordered_diff, rewrite_diff) and %multiline (common.multiline_diff, kind multiline, "
    "Model/Multiline.lean, top-level blocks); vendor %diff_logic functions are out of scope by the property text", "no ACL (acl_rules_list = [])", "no %ignore_case / %comment / %context rules",
    "filediff: the projection clause is checked on the text only when every row of the pair is compared by a standard diff logic "
    "(label filediff:projection-clause=...); the read-back clause is checked always",
    "collapse: the devices' diffs are given to the grouping code directly (strip_unchanged(make_diff(old, new, R, []))), as "
    "annet/diff.py:111-120 and api.Deployer.parse_result hand them over; devices that differ in an snmp secret only are "
    "generated for huawei and classified by the harness's own masking (recorded finding F03c)"]


def setup_worker():
    c03glue.setup()


def shards(tier, seed):
    n = 250 if tier == "quick" else 30000
    out = [dict(seed=seed * 1000 + i, n=n) for i in range(16)]
    # the small space (30 rulebooks x 104 x 104 ordered config pairs), exhaustively in the thorough tier, one 64th of it
    # (chosen by the seed) in the quick tier
    out += [dict(kind="chain", seed=seed * 1000 + 700 + i, n=150 if tier == "quick" else 10000) for i in range(4)]
    out += [dict(kind="fileglue", seed=seed * 1000 + 800 + i, n=150 if tier == "quick" else 5000) for i in range(4)]
    out += [dict(kind="filediff", seed=seed * 1000 + 820 + i, n=60 if tier == "quick" else 1000) for i in range(6)]
    out += [dict(kind="collapse", seed=seed * 1000 + 840 + i, n=60 if tier == "quick" else 1000) for i in range(6)]
    out += [dict(kind="multiline", seed=seed * 1000 + 860 + i, n=250 if tier == "quick" else 8000) for i in range(4)]
    if tier == "quick":
        out += [dict(kind="small", part=(seed * 4 + i) % 256, parts=256) for i in range(4)]
    else:
        out += [dict(kind="small", part=i, parts=32) for i in range(32)]
    return out


CHAIN_PTEXT = ("p *\n    t *  %rewrite\n        u *\n            v ~  %rewrite\n        w ~  %rewrite\n"
               "    k *\n        v ~  %rewrite\nb\n")


def gen_chain(rng):
    """rulebooks whose %rewrite levels are separated by a default-logic level (p / t %rewrite / u / v %rewrite): the inner
    group must know that it is nested although the marker is not directly above it"""
    def vs():
        return [["v " + x, []] for x in rng.sample(["a", "b", "c"], rng.randint(0, 3))]

    def t_block():
        rows = []
        for u in rng.sample(["u 1", "u 2"], rng.randint(0, 2)):
            rows.append([u, vs()])
        rows += [["w " + x, []] for x in rng.sample(["x", "y"], rng.randint(0, 2))]
        rng.shuffle(rows)
        return rows

    def cfg():
        out = []
        for p_ in rng.sample(["p 1", "p 2"], rng.randint(1, 2)):
            ch = [[t, t_block()] for t in rng.sample(["t 1", "t 2"], rng.randint(0, 2))]
            if rng.random() < 0.4:
                ch.append(["k 1", vs()])
            out.append([p_, ch])
        if rng.random() < 0.3:
            out.append(["b", []])
        return out

    def mutate(t):
        import copy as _c
        t = _c.deepcopy(t)
        # one small change somewhere: so that other rewrite groups of the same block stay identical
        blocks = [x for x in t if x[1]]
        if not blocks:
            return cfg()
        blk = rng.choice(blocks)
        tb = [x for x in blk[1] if x[0].startswith("t ") and x[1]]
        if tb and rng.random() < 0.8:
            tgt = rng.choice(tb)[1]
            r = rng.random()
            if r < 0.4:
                tgt.append(["w " + rng.choice(["z", "q"]), []])
            elif r < 0.7 and tgt:
                tgt.pop(rng.randrange(len(tgt)))
            else:
                us = [x for x in tgt if x[0].startswith("u ")]
                if us:
                    rng.choice(us)[1].append(["v " + rng.choice(["d", "e"]), []])
                else:
                    tgt.append(["u 3", [["v a", []]]])
        else:
            blk[1].append(["t 3", [["w x", []]]])
        return t
    old = cfg()
    new = mutate(old) if rng.random() < 0.8 else cfg()
    return dict(vendor=rng.choice(["huawei", "cisco"]), ptext=CHAIN_PTEXT, otext="", old=old, new=new)


def gen(desc):
    if desc.get("kind") in c03glue.KINDS:
        rng = random.Random(desc["seed"])
        g = dict(fileglue=c03glue.gen_fileglue, filediff=c03glue.gen_filediff, collapse=c03glue.gen_collapse)[desc["kind"]]
        for _ in range(desc["n"]):
            yield g(rng)
        return
    if desc.get("kind") == "multiline":
        rng = random.Random(desc["seed"])
        for _ in range(desc["n"]):
            yield c03multiline.gen_case(rng)
        return
    if desc.get("kind") == "chain":
        rng = random.Random(desc["seed"])
        for _ in range(desc["n"]):
            yield gen_chain(rng)
        return
    if desc.get("kind") == "small":
        yield from rbgen.small_cases(desc["part"], desc["parts"])
        return
    rng = random.Random(desc["seed"])
    for _ in range(desc["n"]):
        c = rbgen.gen_case(rng)
        if rng.random() < 0.08:
            c["new"] = copy.deepcopy(c["old"])
        yield c


def run_diff(case):
    from annet.annlib import patching
    rb = rbgen.compile_rb(case["ptext"], case["otext"], case["vendor"])
    old, new = rbgen.to_odict(case["old"]), rbgen.to_odict(case["new"])
    try:
        d = patching.make_diff(old, new, rb, [])
    except AssertionError as e:
        return rb, None, {"err": "AssertionError"}
    # the diff describes the configurations the caller holds: make_diff must leave them as they were (rows no rule knows
    # are dropped from private copies only); a second diff of the same objects would otherwise describe something else
    run_diff.mutated = [side for side, t, given in (("old", old, case["old"]), ("new", new, case["new"]))
                        if rbgen.to_list(t) != rbgen.to_list(rbgen.to_odict(given))]
    return rb, d, None


TEXT_FORMATTERS = ["juniper", "nokia", "routeros"]     # besides the case's own vendor: the formatters with marks


def _formatters(case):
    from annet.vendors import registry_connector
    reg = registry_connector.get()
    out = []
    for name in [case["vendor"]] + [n for n in TEXT_FORMATTERS if n != case["vendor"]]:
        out.append((name, reg[name].make_formatter()))
    return out


def impl(case):
    kind = case.get("kind")
    if kind == "multiline":
        return c03multiline.impl(case)
    if kind == "filediff":
        return c03glue.impl_filediff(case)
    if kind == "collapse":
        out = c03glue.impl_collapse(case)
        if case["rb"] == "nest" and "err" not in out:
            out["devs"] = [impl_direct(sub) for sub in c03glue.collapse_subcases(case)]
        return out
    out = impl_direct(case)
    if kind == "fileglue" and "err" not in out:
        out.update(c03glue.file_glue(case))
    return out


def impl_direct(case):
    from annet.annlib import patching
    from annet.annlib.diff import gen_pre_as_diff
    rbgen.setup()
    rb, d, err = run_diff(case)
    if err:
        return err
    stripped = patching.strip_unchanged(d)
    out = {"diff": rbgen.dump_diff(d), "stripped": rbgen.dump_diff(stripped)}
    if getattr(run_diff, "mutated", None):
        out["mutated"] = list(run_diff.mutated)
    # the two text views of the stripped diff, produced by the real code; the flag says whether the harness's reader
    # gets the entries back (the Lean side answers the same question with its own reader)
    texts = []
    for name, fmt in _formatters(case):
        try:
            lines = list(fmt.diff(stripped))
            texts.append([name, lines, parse_signed(lines, fmt) == signed(stripped)])
        except Exception as e:  # noqa
            texts.append([name, ["raised %s" % type(e).__name__], False])
    out["texts"] = texts
    try:
        ptxt = [l.rstrip("\n") for l in gen_pre_as_diff(patching.make_pre(stripped), False, "  ", True)]
        out["pre_text"] = ptxt
        out["pre_back"] = multiset(parse_pre_text(ptxt, "  ")) == multiset(signed(stripped))
    except Exception as e:  # noqa
        out["pre_text"] = ["raised %s" % type(e).__name__]
        out["pre_back"] = False
    return out


def requests(case):
    rbgen.setup()
    if case.get("kind") == "multiline":
        return c03multiline.requests(case)
    if case.get("kind") == "filediff" or (case.get("kind") == "collapse" and case["rb"] != "nest"):
        return []       # shipped rulebooks: vendor logic and regular expressions outside the modelled rule language
    if case.get("kind") == "collapse":
        subs = [_diff_request(sub) for sub in c03glue.collapse_subcases(case)]
        # … and the grouping itself by the Lean model of collapse_diffs (Model/Collapse.lean) over the same devices:
        # the key of a device is the text of its own formatter (the first of `fmts`)
        devs = [dict(rq, name=d["name"], hw_vendor=d["vendor"]) for rq, d in zip(subs, case["devs"])]
        return subs + [dict(op="rb.collapse", devs=devs)]
    if case.get("kind") == "fileglue":
        # the second answer says whether the patch side of file mode refuses the pair (Api.fileMode)
        return [_diff_request(case), rbgen.job_request("rb.patch", case, do_commit=True, mode="file")]
    return [_diff_request(case)]


def _diff_request(case):
    rq = rbgen.job_request("rb.diff", case)
    rq["fmts"] = [dict(name=name, indent=f._indent, block_begin=f._block_begin, block_end=f._block_end,
                       statement_end=f._statement_end) for name, f in _formatters(case)]
    return rq


def model(case, resp):
    if case.get("kind") == "multiline":
        return c03multiline.model(case, resp)
    if case.get("kind") == "collapse":
        if any(x.get("grammar") is False for x in resp):
            return {"skip": True}
        grouping, resp = resp[-1], resp[:-1]
        out = c03glue.model_collapse(case, resp, grouping)
        if "err" not in out:
            out["devs"] = list(resp)
        return out
    r = resp[0]
    if r.get("grammar") is False:
        return {"skip": True}
    if case.get("kind") == "fileglue" and "err" not in r:
        # file mode shows the `annet diff` text of the stripped diff of the same pair (Model/DiffText.lean preText)
        if resp[1].get("grammar") is False:
            return {"skip": True}
        if "err" in resp[1]:
            r = dict(r, file_err=resp[1]["err"])
        else:
            r = dict(r, file_view=r["pre_text"], file_stripped=r["stripped"])
    return r


# ------------------------------------------------------------------ oracle
def restricted(case, rb):
    """old|R and new|R with the match of every row: what apply_diff_rb leaves of deep copies"""
    from annet.annlib import patching
    old, new = rbgen.to_odict(case["old"]), rbgen.to_odict(case["new"])
    pre = patching.apply_diff_rb(old, new, rb)
    return old, new, pre


def is_ordered_rule(m):
    return m["attrs"]["diff_logic"].__name__ == "ordered_diff"


def is_rewrite_rule(m):
    return m["attrs"]["diff_logic"].__name__ == "rewrite_diff"


def proj(diff, drop):
    return [(row, proj(ch, drop), m, op) for (op, row, ch, m) in diff if op != drop]


def is_order_sensitive(m):
    return is_ordered_rule(m) or is_rewrite_rule(m)


def same(a, b, pre):
    """no change as the standard diff logics see it: same rows at every level, same order inside every group of rows
    compared by an order-sensitive logic (ordered_diff, rewrite_diff)"""
    if set(a) != set(b):
        return False
    for name in ("ordered_diff", "rewrite_diff"):
        ga = [r for r in a if pre[r]["match"]["attrs"]["diff_logic"].__name__ == name]
        gb = [r for r in b if pre[r]["match"]["attrs"]["diff_logic"].__name__ == name]
        if ga != gb:
            return False
    return all(same(a[r], b[r], pre[r]["subtree"]) for r in a)


def cmp_level(items, side, pre, other, path, which, out, in_rewrite, parent_op="affected"):
    """items: projected diff entries at one level; side: restricted config level (odict); other: the other side's level"""
    rows_d = [r for r, _, _, _ in items]
    # rewrite groups that did not change at all are absent from the diff (rewrite_diff clears them)
    exp = []
    for row in side:
        m = pre[row]["match"]
        if not in_rewrite and is_rewrite_rule(m) and parent_op in ("affected", "unchanged"):
            grp_side = [r for r in side if is_rewrite_rule(pre[r]["match"])]
            grp_other = [r for r in other if r in pre and is_rewrite_rule(pre[r]["match"])]
            if grp_side == grp_other and all(same(side[r], other[r], pre[r]["subtree"]) for r in grp_side):
                continue
        exp.append(row)
    if sorted(rows_d) != sorted(exp):
        out.append(dict(sig="proj-%s-rows" % which,
                        what="at %r the diff's %s-projection has rows %r, the config has %r" % (path, which, rows_d, exp)))
        return
    ord_d = [r for r, _, m, _ in items if is_ordered_rule(m)]
    ord_s = [r for r in exp if is_ordered_rule(pre[r]["match"])]
    if ord_d != ord_s:
        out.append(dict(sig="proj-%s-order-lost-ordered-rule" % which,
                        what="at %r rows of %%ordered rules come out as %r, the %s config has them as %r" % (
                            path, ord_d, which, ord_s)))
    for r, ch, m, op in items:
        cmp_level(ch, side[r], pre[r]["subtree"], other.get(r, {}), path + (r,), which, out,
                  in_rewrite or is_rewrite_rule(m), op)


def ops_exact(diff, old, new, path, out):
    for (op, row, ch, m) in diff:
        if op == "added" and row in old:
            out.append(dict(sig="added-but-present", what="%r reported added at %r but old has it" % (row, path)))
        if op == "removed" and row in new:
            out.append(dict(sig="removed-but-present", what="%r reported removed at %r but new has it" % (row, path)))
        if op in ("affected", "moved", "unchanged") and not (row in old and row in new):
            out.append(dict(sig="common-op-on-one-sided-row", what="%r is %s at %r but is not in both configs" % (row, op, path)))
        ops_exact(ch, old.get(row, {}), new.get(row, {}), path + (row,), out)


def moved_check(diff, old, new, pre, path, out, parent_op="affected", in_rewrite=False):
    """%ordered groups: a common row must be MOVED if its relative order changed (never missing); the code also marks
    rows whose relative order did not change (recorded finding)"""
    grp = [(op, row) for (op, row, ch, m) in diff if is_ordered_rule(m)]
    # a block that is itself moved / re-created (or rewritten) re-creates all its children: only blocks that stay in
    # place are subject to the "MOVED iff relative order changed" reading
    if grp and parent_op in ("affected", "unchanged") and not in_rewrite:
        o_rows = [r for r in old if r in pre and is_ordered_rule(pre[r]["match"])]
        n_rows = [r for r in new if r in pre and is_ordered_rule(pre[r]["match"])]
        common = [r for r in n_rows if r in o_rows]
        for op, row in grp:
            if row not in common:
                continue
            po = set(r for r in o_rows[:o_rows.index(row)] if r in common)
            pn = set(r for r in n_rows[:n_rows.index(row)] if r in common)
            changed = po != pn
            if changed and op != "moved":
                out.append(dict(sig="moved-missing", what="%r changed its relative order at %r but is %s" % (row, path, op)))
            if not changed and op == "moved":
                out.append(dict(sig="moved-overmarked", what="%r at %r is MOVED although its order relative to the other "
                                                              "common rows did not change (old %r new %r)" % (row, path, o_rows, n_rows)))
    for (op, row, ch, m) in diff:
        if row in old and row in new:
            moved_check(ch, old[row], new[row], pre[row]["subtree"], path + (row,), out, op,
                        in_rewrite or is_rewrite_rule(m))


def parse_signed(lines, fmt):
    """read back formatter.diff(): [(sign, row, children)]"""
    root = []
    stack = [(-1, root, None)]
    ind = fmt._indent
    for ln in lines:
        sign, rest = ln[0], ln[2:]
        lvl = 0
        while ind and rest.startswith(ind):
            rest = rest[len(ind):]
            lvl += 1
        if fmt._block_end and rest == fmt._block_end:
            # the closing line belongs to the block opened at this level and carries that block's sign
            while stack[-1][0] > lvl:
                stack.pop()
            if stack[-1][0] != lvl or stack[-1][2] != sign:
                root.append(("?", "block-end line %r does not close a block of its own sign" % ln, []))
            continue
        for suf in (fmt._block_begin, fmt._statement_end):
            if suf and rest.endswith(suf):
                rest = rest[:-len(suf)]
                break
        while stack[-1][0] >= lvl:
            stack.pop()
        node = (sign, rest, [])
        stack[-1][1].append(node)
        stack.append((lvl, node[2], sign))
    return root


def parse_pre_text(lines, indent):
    """read back gen_pre_as_diff(): '<sign><indent*level> <row>' -> [(sign, row, children)]"""
    root = []
    stack = [(-1, root)]
    for ln in lines:
        ln = ln.rstrip("\n")
        sign, rest = ln[0], ln[1:]
        lead = len(rest) - len(rest.lstrip(" "))
        lvl = (lead - 1) // len(indent) if indent else 0
        row = rest[lead:]
        while stack[-1][0] >= lvl:
            stack.pop()
        node = (sign, row, [])
        stack[-1][1].append(node)
        stack.append((lvl, node[2]))
    return root


def multiset(entries):
    return sorted((s, r, multiset(c)) for s, r, c in entries)


SIGN = {"removed": "-", "added": "+", "moved": ">", "affected": " "}


def signed(diff):
    return [(SIGN[op], row, signed(ch)) for (op, row, ch, m) in diff]


def oracle(case, r):
    from annet.annlib import patching
    from annet.vendors import registry_connector
    rbgen.setup()
    if case.get("kind") == "multiline":
        return _uniq(c03multiline.oracle(case, r))
    if case.get("kind") == "filediff":
        return _uniq(c03glue.oracle_filediff(case, r))
    if case.get("kind") == "collapse":
        return _uniq(c03glue.oracle_collapse(case, r, parse_signed))
    if "err" in r:
        return []
    rb, d, err = run_diff(case)
    out = []
    if r.get("mutated"):
        out.append(dict(sig="make_diff-changed-the-callers-config", what="after make_diff(old, new, rb) the caller's %s no longer "
                        "equals what was passed in: the diff describes a configuration the caller does not hold (a later diff of "
                        "the same objects loses those lines)" % " and ".join(r["mutated"])))
    old, new, pre = restricted(case, rb)
    # "restricted to lines the rulebook knows" must not be decided by the code under test alone: what apply_diff_rb keeps
    # against the rule language's reading of the rule text
    try:
        rr = rbgen.ref_rules(case["ptext"])
        for side, kept, given in (("old", old, case["old"]), ("new", new, case["new"])):
            ref = rbgen.ref_restricted(given, rr)
            if rbgen.to_list(kept) != ref:
                out.append(dict(sig="rulebook-knows-other-lines", what="apply_diff_rb keeps %r of %s, the rule language says the "
                                "rulebook knows %r" % (rbgen.to_list(kept)[:3], side, ref[:3])))
                break
    except rbgen.RefOutside:
        pass
    cmp_level(proj(d, "removed"), new, pre, old, (), "new", out, False)
    cmp_level(proj(d, "added"), old, pre, new, (), "old", out, False)
    ops_exact(d, old, new, (), out)
    moved_check(d, old, new, pre, (), out)
    stripped = patching.strip_unchanged(d)
    if case["old"] == case["new"] and stripped:
        out.append(dict(sig="self-diff-not-empty", what="diff of a config with itself reports %r" % (rbgen.dump_diff(stripped)[:3],)))
    for name, fmt in _formatters(case):
        try:
            lines = fmt.diff(stripped)
            back = parse_signed(lines, fmt)
            if back != signed(stripped):
                out.append(dict(sig="diff-text-roundtrip", what="%s formatter.diff text %r read back differs from the diff "
                                "entries (signs, rows, nesting, sign of block-end lines)" % (name, lines[:6])))
                break
        except Exception as e:  # noqa
            out.append(dict(sig="diff-text-raises", what="%s formatter.diff raised %r" % (name, e)))
            break
    # the `annet diff` view: per level as a multiset
    try:
        from annet.annlib.diff import gen_pre_as_diff
        txt = list(gen_pre_as_diff(patching.make_pre(stripped), False, "  ", True))
        if multiset(parse_pre_text(txt, "  ")) != multiset(signed(stripped)):
            out.append(dict(sig="pre-text-roundtrip", what="gen_pre_as_diff text read back differs (per level, as a multiset) "
                                                             "from the diff entries"))
    except Exception as e:  # noqa
        out.append(dict(sig="pre-text-raises", what="gen_pre_as_diff raised %r" % (e,)))
    if case.get("kind") == "fileglue":
        # what file mode shows: the text printed from the `pre` that _read_old_new_diff_patch returns
        if "file_err" in r:
            # two rows under one (rule, key) on one side: the patch side refuses the pair (AssertionError "Too many ..."), no text
            # is shown at all
            if r["file_err"] != "AssertionError":
                out.append(dict(sig="file-glue-raises", what="file mode raised %s although make_diff gives a diff" % r["file_err"]))
        else:
            c03glue.oracle_view(r["file_view"], "  ", stripped, old, new, pre, "file-glue", out)
            if r["file_stripped"] != rbgen.dump_diff(stripped):
                out.append(dict(sig="file-glue-returned-diff-differs", what="_read_old_new_diff_patch returns a diff that is not "
                                "strip_unchanged(make_diff(old, new, rb, []))"))
    return _uniq(out)


def _uniq(out):
    # one violation per signature is enough
    seen, uniq = set(), []
    for v in out:
        if v["sig"] not in seen:
            seen.add(v["sig"])
            uniq.append(v)
    return uniq


def nontrivial(case, r):
    if case.get("kind") == "multiline":
        return c03multiline.nontrivial(case, r)
    if case.get("kind") == "filediff":
        return len(r.get("view", [])) >= 2 and any(ln[1:].startswith("  ") for ln in r["view"])
    if case.get("kind") == "collapse":
        return len([g for g in r.get("groups", []) if g[1]]) >= 2 or any(len(g[0]) > 1 and g[1] for g in r.get("groups", []))
    if "stripped" not in r:
        return False
    ops = set()
    n = 0

    def walk(d, depth):
        nonlocal n
        for op, row, ch, m in d:
            ops.add((op, depth > 0))
            n += 1
            walk(ch, depth + 1)
    walk(r["stripped"], 0)
    return n >= 2 and len(ops) >= 2


def stats(case, r):
    if case.get("kind") == "multiline":
        return c03multiline.stats(case, r)
    if case.get("kind") == "filediff":
        return c03glue.stats_filediff(case, r)
    if case.get("kind") == "collapse":
        return c03glue.stats_collapse(case, r)
    lab = ["vendor=" + case["vendor"]]
    if case.get("kind") == "fileglue":
        lab.append("kind=fileglue")
        if "file_err" in r:
            lab.append("fileglue:no-text(file mode raised %s)" % r["file_err"])
        if "stripped" in r:
            from annet.annlib import patching
            _rb, _d, _e = run_diff(case)
            lab += c03glue.diff_shape_labels("fileglue", patching.strip_unchanged(_d))
    if "err" in r:
        return lab + ["result=" + r["err"]]
    ops = set()

    def walk(d):
        for op, row, ch, m in d:
            ops.add(op)
            walk(ch)
    walk(r["diff"])
    lab += ["op:" + o for o in sorted(ops)]
    if r.get("texts"):
        lab.append("text-views-read-back=%s" % ("all" if all(t[2] for t in r["texts"]) and r.get("pre_back") else "not-all"))
        if any(ch for (_o, _r, ch, _m) in r["stripped"]):
            lab.append("text-views-nested")
    for kw in ("%ordered", "%rewrite", "%global", "%logic", "!"):
        if kw in case["ptext"]:
            lab.append("rb:" + kw)
    lab.append("self" if case["old"] == case["new"] else "pair")
    lab.append("stripped-empty" if not r["stripped"] else "stripped-nonempty")
    return lab


def shrink_candidates(case):
    if case.get("kind") == "multiline":
        yield from c03multiline.shrink(case)
        return
    if case.get("kind") == "collapse":
        yield from c03glue.shrink_collapse(case)
        return
    for side in ("old", "new"):
        t = case[side]

        def drops(tree):
            for i in range(len(tree)):
                yield tree[:i] + tree[i + 1:]
                for sub in drops(tree[i][1]):
                    yield tree[:i] + [[tree[i][0], sub]] + tree[i + 1:]
        for nt in drops(t):
            yield dict(case, **{side: nt})
