"""C15 — mesh sessions are mirrored; handler data merges without loss.

impl:   annet.mesh.MeshExecutor(registry, storage).execute_for(device) for every device of a generated
        topology (plus MeshExecutor._execute_globals for the un-converted global DTO), and
        annet.mesh.basemodel.merge on generated model instances.
model:  Annet.Mesh.executeFor / executeGlobals / mergeVal (lean/AnnetModel/Model/Mesh*.lean) through
        the ops of lean/AnnetModel/Glue/C15.lean; name matching (the match matrix), ip parsing and the
        handler-filled GlobalOptions objects are shipped from the real objects.
oracle: real code only -- both ends of every device pair are compared; every permutation (a sample in
        the quick tier when there are more than 24) of the rule registration order is executed; the
        selected interface is recomputed from the handler tables; merge laws are checked on real merge().
        glue families (harness/c15glue.py): for registries with match_short_name and neighbours sharing a short
        name, and for several rules with different name templates (or one rule matched in both orientations)
        hitting one peer key with disjoint/equal fields, a reference reading of the case (templates, filters,
        handler tables) says which sessions every end has and the field-by-field union of every key: every
        session is there and mirrored, no field is lost, no error unless a single-valued field gets two values.
"""
import itertools
import json
import random
import zlib

ID = "C15"
RULE = ("exec cases: 2..5 devices, 0..3 parallel links per pair (interface order of the two ends independent), "
        "1..5 rules of kinds direct/indirect/virtual/device with {n}/{n:regex} templates, Left/Right/Match "
        "filters, united/separate port processors, table-driven handlers (pure in (left,right,port set)) that "
        "always assign both peer addresses (a small malformed stream drops addr/asnum or uses bad values); "
        "merge cases: 2..3 random instances of a shipped DTO class or of a harness class using every merger; "
        "glue cases (fam glue-twins / glue-multi): 2..5 devices named <role><n>.<pod>.net, several sharing a short name, "
        "0..3 parallel links, match_short_name, neighbours listed once or once per link, 1..4 direct/indirect rules from "
        "generic / role specific / reversed / both-orientation template pairs, rows drawing a random part of one plan per "
        "(pair, port group) (10% get one conflicting value); "
        "non-trivial = an exec case producing >=1 peer on >=2 devices or a merge case with >=2 set fields in "
        "common; distinct = distinct canonical case")
TRUSTED_BASE = [
    "Lean 4.33 kernel; axioms per theorem are listed in axioms_per_theorem (subset of propext, Classical.choice, Quot.sound)",
    "correspondence harness harness/props/c15.py + Glue/C15.lean + compiled Lean driver evaluating Model/Mesh.lean, Model/MeshExec.lean",
    "observation points of the harness: a MeshExecutor subclass whose _to_bgp_peer/_virtual_to_bgp_peer/_to_bgp_global call super() and record (local addr, ports, lag/subif/svi/ifname); a failure of to_bgp_global_options is recorded instead of raised",
    "value encoding: Python scalars as tagged atom strings (n, bT/bF, i<int>, s<str>, o<repr>); sets sorted; attribute and dict key order not compared",
    "fake in-memory Storage/Device/Interface of harness/props/c15.py (same behaviour as tests/annet/test_mesh/fakes.py, with a call log)",
    "reflection of _field_mergers / type hints into merger tables (harness/props/c15.py: table_of)",
    "glue families: harness/c15glue.py -- reference reading of name templates ({n} = decimal number, {n:regex}, whole-name match), "
    "Left/Right filters, the storage contract (neighbours, search_connections), united/separate port groups and the handler "
    "tables grouped by peer key (kind, remote fqdn, remote addr, remote vrf); single-valued = every field but families",
]
ASSUMPTIONS = [
    "name matching (PeerNameTemplate regexes, Left/Right filters, match_short_name) is a parameter: the match matrix computed by the real matchers is shipped to the model",
    "ipaddress.ip_interface is a parameter (results shipped); adaptix loading of PeerOptions/InterfaceChanges is a field-by-field copy for well-typed values",
    "scalars assigned to one field have one Python type (1 == True == 1.0 is not modelled); ForbidChange on BaseMeshModel/dict values and ApplyFunc are not modelled",
    "Storage/Device adapter: search_connections, make_lag/add_subif/add_svi/find_interface behave like the fake (created interfaces are appended and can be found by name)",
    "nested registries (MeshRulesRegistry.include) and to_bgp_global_options are not modelled (global options are compared as the merged DTO)",
]
EXHAUSTIVE = {"quick": False, "thorough": False}

FAMILIES = ["ipv4_unicast", "ipv6_unicast", "l2vpn_evpn"]


# ----------------------------------------------------------------------------------------------
# values: case spec (JSON) <-> python objects <-> Val JSON for the model
# ----------------------------------------------------------------------------------------------

def from_spec(j):
    """JSON spec of an assigned value -> python object."""
    if isinstance(j, dict):
        if "set" in j:
            return set(j["set"])
        if "seq" in j:
            return list(j["seq"])
        if "tup" in j:
            return tuple(from_spec(x) if isinstance(x, dict) else x for x in j["tup"])
        if "bfd" in j:
            from annet.bgp_models import BFDTimers
            return BFDTimers(minimum_interval=j["bfd"][0], multiplier=j["bfd"][1])
        if "redist" in j:
            from annet.bgp_models import Redistribute
            return Redistribute(protocol=j["redist"][0], policy=j["redist"][1])
        raise ValueError(j)
    return j


def enc_atom(v):
    if v is None:
        return "n"
    if v is True:
        return "bT"
    if v is False:
        return "bF"
    if isinstance(v, int):
        return "i%d" % v
    if isinstance(v, str):
        return "s" + v
    return "o" + repr(v)


def to_val(v, fields=None):
    """python object -> Val JSON ({"atom"|"set"|"seq"|"model"|"dict": ...})."""
    from annet.mesh.basemodel import BaseMeshModel
    if isinstance(v, BaseMeshModel):
        keep = fields if fields is not None else type(v)._field_mergers.keys()
        return {"model": [[k, to_val(x)] for k, x in vars(v).items() if k in keep]}
    if isinstance(v, dict):
        return {"dict": [[k, to_val(x)] for k, x in v.items()]}
    if isinstance(v, (set, frozenset)):
        return {"set": sorted(enc_atom(x) for x in v)}
    if isinstance(v, (tuple, list)):
        return {"seq": [enc_atom(x) for x in v]}
    return {"atom": enc_atom(v)}


def canon_val(j, sort_seq=False):
    """canonical form of a Val JSON: attribute order, dict key order and set enumeration are not data."""
    if "atom" in j:
        return {"atom": j["atom"]}
    if "set" in j:
        return {"set": sorted(set(j["set"]))}
    if "seq" in j:
        return {"seq": sorted(j["seq"]) if sort_seq else list(j["seq"])}
    if "model" in j:
        return {"model": sorted([[k, canon_val(x, sort_seq)] for k, x in j["model"]], key=lambda p: p[0])}
    if "dict" in j:
        return {"dict": sorted([[k, canon_val(x, sort_seq)] for k, x in j["dict"]], key=lambda p: p[0])}
    raise ValueError(j)


def spec_to_val(j):
    return to_val(from_spec(j))


def fields_to_val(d):
    return [[k, spec_to_val(v)] for k, v in d.items()]


# ----------------------------------------------------------------------------------------------
# reflection: _field_mergers -> merger tables
# ----------------------------------------------------------------------------------------------

_TABLES = {}


def _merger_json(merger, hint):
    from typing import get_args, get_origin, Annotated, Union
    from annet.mesh import basemodel as bm
    base = get_args(hint)[0] if get_origin(hint) is Annotated else hint
    if isinstance(merger, bm.ForbidChange):
        return "forbidChange"
    if isinstance(merger, bm.UseFirst):
        return "useFirst"
    if isinstance(merger, bm.UseLast):
        return "useLast"
    if isinstance(merger, bm.Forbid):
        return "forbid"
    if isinstance(merger, bm.Unite):
        return "unite"
    if isinstance(merger, bm.Concat):
        return "concat"
    if isinstance(merger, bm.Merge):
        if get_origin(base) is Union:
            base = get_args(base)[0]
        return {"merge": table_of(base)}
    if isinstance(merger, bm.DictMerge):
        vt = get_args(base)[1] if get_args(base) else None
        return {"dictMerge": _merger_json(merger.value_merger, vt)}
    raise ValueError("unsupported merger %r" % merger)


def table_of(cls):
    """[[field, merger-json], ...] of a BaseMeshModel subclass, in _field_mergers order."""
    from typing import get_type_hints
    if cls in _TABLES:
        return _TABLES[cls]
    hints = get_type_hints(cls, include_extras=True)
    t = [[f, _merger_json(m, hints[f])] for f, m in cls._field_mergers.items()]
    _TABLES[cls] = t
    return t


_TEST_CLASSES = {}


def test_classes():
    """Harness-side model classes that use every merger of basemodel.py (the shipped DTOs only use
    ForbidChange, Unite, Concat, Merge and DictMerge(Merge()))."""
    if _TEST_CLASSES:
        return _TEST_CLASSES
    from typing import Annotated
    from annet.mesh.basemodel import (BaseMeshModel, UseFirst, UseLast, Forbid, Unite, Concat, Merge, DictMerge)

    class Leafy(BaseMeshModel):
        a: int
        b: str
        uf: Annotated[int, UseFirst()]
        ul: Annotated[int, UseLast()]
        fb: Annotated[int, Forbid()]
        un: Annotated[set[str], Unite()]
        cc: Annotated[tuple[str, ...], Concat()]
        fs: set[str]
        fl: list[str]

    class Sym(BaseMeshModel):
        a: int
        s: str
        un: Annotated[set[str], Unite()]
        cc: Annotated[tuple[str, ...], Concat()]
        fs: set[str]
        fb: Annotated[int, Forbid()]

    class Nest(BaseMeshModel):
        x: int
        inner: Annotated[Sym, Merge()]
        other: Annotated[Leafy, Merge()]
        cc: Annotated[tuple[str, ...], Concat()]

    class Dicty(BaseMeshModel):
        y: int
        dm: Annotated[dict[str, Sym], DictMerge(Merge())]
        dc: Annotated[dict[str, tuple[str, ...]], DictMerge(Concat())]
        df: Annotated[dict[str, int], DictMerge()]
        du: Annotated[dict[str, set[str]], DictMerge(Unite())]
        nest: Annotated[Nest, Merge()]

    _TEST_CLASSES.update(Leafy=Leafy, Sym=Sym, Nest=Nest, Dicty=Dicty)
    return _TEST_CLASSES


def merge_class(name):
    tc = test_classes()
    if name in tc:
        return tc[name]
    from annet.mesh import peer_models, device_models
    for mod in (peer_models, device_models):
        if hasattr(mod, name):
            return getattr(mod, name)
    raise KeyError(name)


def build_obj(cls, spec):
    """spec: {"field": value-spec | {"model": {...}} | {"dict": {k: ...}}} -> instance of cls."""
    from typing import get_type_hints, get_args, get_origin, Annotated
    from annet.mesh import basemodel as bm
    hints = get_type_hints(cls, include_extras=True)
    kw = {}
    for f, v in spec.items():
        m = cls._field_mergers[f]
        base = get_args(hints[f])[0] if get_origin(hints[f]) is Annotated else hints[f]
        if isinstance(m, bm.Merge):
            kw[f] = build_obj(base, v["model"])
        elif isinstance(m, bm.DictMerge) and isinstance(m.value_merger, bm.Merge):
            kw[f] = {k: build_obj(get_args(base)[1], x["model"]) for k, x in v["dict"].items()}
        elif isinstance(m, bm.DictMerge):
            kw[f] = {k: from_spec(x) for k, x in v["dict"].items()}
        else:
            kw[f] = from_spec(v)
    return cls(**kw)


# ----------------------------------------------------------------------------------------------
# fake storage (behaviour of tests/annet/test_mesh/fakes.py + call log, deterministic neighbour order)
# ----------------------------------------------------------------------------------------------

class FIface:
    def __init__(self, dev, name, nfqdn, nport):
        self.dev, self._name, self.neighbor_fqdn, self.neighbor_port = dev, name, nfqdn, nport

    @property
    def name(self):
        return self._name

    def add_addr(self, address_mask, vrf):
        self.dev.calls.append({"c": "addr", "iface": self._name, "addr": enc_atom(address_mask),
                               "vrf": None if vrf is None else enc_atom(vrf)})


class FDev:
    def __init__(self, fqdn, ifaces, nbr_dup=False):
        self._fqdn = fqdn
        self._nbr_dup = nbr_dup          # neighbours listed once per link (what the netbox adapter does)
        self.interfaces = [FIface(self, *i) for i in ifaces]
        self.calls = []
        self.storage = None

    id = property(lambda self: self._fqdn)
    fqdn = property(lambda self: self._fqdn)
    hostname = property(lambda self: self._fqdn)
    hw = None
    breed = None

    def __hash__(self):
        return hash(self._fqdn)

    def is_pc(self):
        return False

    @property
    def neighbours_fqdns(self):
        out = []
        for i in self.interfaces:
            if i.neighbor_fqdn and (self._nbr_dup or i.neighbor_fqdn not in out):
                out.append(i.neighbor_fqdn)
        return out

    neighbours_ids = neighbours_fqdns

    def _new(self, name):
        self.interfaces.append(FIface(self, name, None, None))
        return self.interfaces[-1]

    def make_lag(self, lag, ports, lag_min_links):
        self.calls.append({"c": "lag", "lag": enc_atom(lag), "ports": list(ports),
                           "min": None if lag_min_links is None else enc_atom(lag_min_links)})
        return self._new("Trunk%s" % lag)

    def add_svi(self, svi):
        self.calls.append({"c": "svi", "svi": enc_atom(svi)})
        return self._new("Vlan%s" % svi)

    def add_subif(self, interface, subif):
        self.calls.append({"c": "subif", "iface": str(interface), "subif": enc_atom(subif)})
        return self._new("%s.%s" % (interface, subif))

    def find_interface(self, name):
        for i in self.interfaces:
            if i.name == name:
                return i
        return None


class FStorage:
    def __init__(self, devices):
        self.devices = [FDev(d["fqdn"], d["ifaces"], bool(d.get("nbr_dup"))) for d in devices]
        for d in self.devices:
            d.storage = self

    def __enter__(self):
        return self

    def __exit__(self, *a):
        pass

    def resolve_all_fdnds(self):
        return [d.fqdn for d in self.devices]

    def make_devices(self, query, *a, **kw):
        return [d for d in self.devices if d.fqdn in query]

    def get_device(self, obj_id, *a, **kw):
        return next(d for d in self.devices if d.id == obj_id)

    def search_connections(self, device, neighbor):
        res = []
        for lp in device.interfaces:
            if lp.neighbor_fqdn == neighbor.fqdn:
                for rp in neighbor.interfaces:
                    if rp.name == lp.neighbor_port:
                        res.append((lp, rp))
        return res

    def flush_perf(self):
        pass


# ----------------------------------------------------------------------------------------------
# registry from the case
# ----------------------------------------------------------------------------------------------

def _expr(side):
    from annet.mesh import Left, Right, Match
    base = {"L": Left, "R": Right, "M": Match}[side[0]]
    return getattr(base, side[1])


def build_filter(f):
    """{"a": ["L","n"], "op": "==", "b": ["R","m"] | {"const": v}}"""
    a = _expr(f["a"])
    b = f["b"]
    b = b["const"] if isinstance(b, dict) else _expr(b)
    op = f["op"]
    if op == "==":
        return a == b
    if op == "!=":
        return a != b
    if op == "<":
        return a < b
    if op == ">":
        return a > b
    if op == "<=":
        return a <= b
    if op == ">=":
        return a >= b
    if op == "in":
        return a.in_(b)
    raise ValueError(op)


def _assign(obj, d):
    for k, v in d.items():
        setattr(obj, k, from_spec(v))


def _port_key(lports, rports):
    return sorted([a, b] for a, b in zip(lports, rports))


def find_entry(table, l, r, key):
    for e in table:
        if e["l"] == l and e["r"] == r and (e.get("ports") is None or e["ports"] == key):
            return e
    return None


def mk_direct_handler(table):
    def handler(left, right, session):
        e = find_entry(table, left.device.fqdn, right.device.fqdn, _port_key(left.ports, right.ports))
        if e:
            _assign(left, e.get("left", {}))
            _assign(right, e.get("right", {}))
            _assign(session, e.get("session", {}))
    return handler


def mk_indirect_handler(table):
    def handler(left, right, session):
        e = find_entry(table, left.device.fqdn, right.device.fqdn, None)
        if e:
            _assign(left, e.get("left", {}))
            _assign(right, e.get("right", {}))
            _assign(session, e.get("session", {}))
    return handler


def mk_virtual_handler(table):
    def handler(local, virtual, session):
        for e in table:
            if e["dev"] == local.device.fqdn and e["num"] == virtual.num:
                _assign(local, e.get("left", {}))
                _assign(virtual, e.get("right", {}))
                _assign(session, e.get("session", {}))
                return
    return handler


def _set_path(obj, path, val):
    for p in path[:-1]:
        obj = obj[p] if isinstance(obj, dict) else getattr(obj, p)
    if isinstance(obj, dict):
        obj[path[-1]] = val
    else:
        setattr(obj, path[-1], val)


def mk_device_handler(table):
    def handler(opts):
        for e in table:
            if e["dev"] is None or e["dev"] == opts.device.fqdn:
                for a in e["set"]:
                    _set_path(opts, a["path"], from_spec(a["val"]))
    return handler


def build_registry(case, order=None):
    from annet.mesh import MeshRulesRegistry, separate_ports, united_ports
    reg = MeshRulesRegistry(match_short_name=bool(case.get("short")))
    rules = case["rules"]
    idx = list(range(len(rules))) if order is None else list(order)
    for i in idx:
        r = rules[i]
        flt = [build_filter(f) for f in r.get("filters", [])]
        if r["kind"] == "direct":
            pp = separate_ports if r.get("pp") == "separate" else united_ports
            reg.direct(r["left"], r["right"], *flt, port_processor=pp)(mk_direct_handler(r["h"]))
        elif r["kind"] == "indirect":
            reg.indirect(r["left"], r["right"], *flt)(mk_indirect_handler(r["h"]))
        elif r["kind"] == "virtual":
            reg.virtual(r["mask"], r["num"], *flt)(mk_virtual_handler(r["h"]))
        else:
            reg.device(r["mask"], *flt)(mk_device_handler(r["h"]))
    return reg


# ----------------------------------------------------------------------------------------------
# running the real executor
# ----------------------------------------------------------------------------------------------

def err_name(e):
    if isinstance(e, ValueError):
        return "ValueError"
    if isinstance(e, AttributeError):
        return "AttributeError"
    if isinstance(e, IndexError):
        return "IndexError"
    if type(e).__name__ in ("AggregateLoadError", "ExceptionGroup", "LoadExceptionGroup"):
        return "LoadError"
    return type(e).__name__


def dump_peer(p, rec=None):
    import dataclasses
    opts = {}
    if p.options is not None:
        for f in dataclasses.fields(p.options):
            v = getattr(p.options, f.name)
            if v is not None:
                opts[f.name] = canon_val(to_val(int(v) if f.name == "local_as" else v))
    return {
        "addr": p.addr, "interface": p.interface, "remote_as": int(p.remote_as), "hostname": p.hostname,
        "families": sorted(p.families), "vrf_name": enc_atom(p.vrf_name), "group_name": enc_atom(p.group_name),
        "description": enc_atom(p.description), "import_policy": enc_atom(p.import_policy),
        "export_policy": enc_atom(p.export_policy), "update_source": enc_atom(p.update_source), "options": opts,
        "laddr": enc_atom(rec[id(p)]["laddr"]) if rec is not None and id(p) in rec else None,
        "lvrf": enc_atom(rec[id(p)]["lvrf"]) if rec is not None and id(p) in rec and rec[id(p)]["lvrf"] is not None else None,
    }


def _jkey(x):
    return json.dumps(x, sort_keys=True)


_EXEC_CLS = []


def _executor_class():
    """MeshExecutor with two observation points: the (local addr, ports) of every converted pair is
    recorded, and a failure of to_bgp_global_options (not modelled) does not hide the peers."""
    if _EXEC_CLS:
        return _EXEC_CLS[0]
    from annet.mesh import MeshExecutor

    class HExecutor(MeshExecutor):
        def __init__(self, registry, storage):
            super().__init__(registry, storage)
            self.rec = {}
            self.keep = []
            self.gconv_err = None

        def _note(self, peer, pair, kind):
            loc = pair.local
            self.rec[id(peer)] = {"laddr": getattr(loc, "addr", None), "ports": getattr(pair, "ports", None),
                                  "kind": kind, "lag": getattr(loc, "lag", None), "subif": getattr(loc, "subif", None),
                                  "svi": getattr(loc, "svi", None), "ifname": getattr(loc, "ifname", None),
                                  "lvrf": getattr(loc, "vrf", None)}
            self.keep.append(peer)

        def _to_bgp_peer(self, pair, interface):
            peer = super()._to_bgp_peer(pair, interface)
            self._note(peer, pair, "direct" if hasattr(pair, "ports") else "indirect")
            return peer

        def _virtual_to_bgp_peer(self, pair, interface):
            peer = super()._virtual_to_bgp_peer(pair, interface)
            self._note(peer, pair, "virtual")
            return peer

        def _to_bgp_global(self, global_options):
            try:
                return super()._to_bgp_global(global_options)
            except Exception as e:  # noqa
                self.gconv_err = err_name(e)
                return None

    _EXEC_CLS.append(HExecutor)
    return HExecutor


def run_device(case, fqdn, order=None, devices=None, want_globals=True):
    """One fresh storage + registry, execute_for(fqdn). Returns {"globals":..., "exec":..., "_ex", "_res"}."""
    storage = FStorage(devices if devices is not None else case["devices"])
    reg = build_registry(case, order)
    dev = storage.get_device(fqdn)
    out = {}
    ex = _executor_class()(reg, storage)
    if want_globals:
        try:
            g = ex._execute_globals(dev)
            out["globals"] = {"ok": canon_val(to_val(g))}
        except Exception as e:  # noqa
            out["globals"] = {"err": err_name(e)}
    try:
        res = ex.execute_for(dev)
        out["exec"] = {"ok": {"peers": sorted((dump_peer(p, ex.rec) for p in res.peers), key=_jkey), "calls": dev.calls}}
        out["_res"] = res
    except Exception as e:  # noqa
        out["exec"] = {"err": err_name(e)}
    out["_ex"] = ex
    return out


def impl(case):
    if case["kind"] == "merge":
        return impl_merge(case)
    res = {}
    for d in case["devices"]:
        r = run_device(case, d["fqdn"])
        res[d["fqdn"]] = {"globals": r["globals"], "exec": r["exec"]}
    return {"dev": res}


# ----------------------------------------------------------------------------------------------
# merge cases
# ----------------------------------------------------------------------------------------------

def _merge_res(f):
    from annet.mesh.basemodel import MergeForbiddenError
    try:
        return {"ok": canon_val(to_val(f()))}
    except MergeForbiddenError:
        return {"err": "forbidden"}
    except Exception as e:  # noqa
        return {"err": "Unexpected:" + type(e).__name__}


def impl_merge(case):
    from annet.mesh.basemodel import merge
    cls = merge_class(case["cls"])
    objs = [build_obj(cls, s) for s in case["objs"]]
    out = {"ab": _merge_res(lambda: merge(objs[0], objs[1])), "ba": _merge_res(lambda: merge(objs[1], objs[0]))}
    if len(objs) > 2:
        out["abc"] = _merge_res(lambda: merge(objs[0], objs[1], objs[2]))
        out["a_bc"] = _merge_res(lambda: merge(objs[0], merge(objs[1], objs[2])))
    return out


# ----------------------------------------------------------------------------------------------
# requests to the Lean driver / model adapter
# ----------------------------------------------------------------------------------------------

def _ip_table(case):
    import ipaddress
    tab = {}

    def visit(v):
        if isinstance(v, str) and v not in tab:
            try:
                tab[v] = str(ipaddress.ip_interface(v).ip)
            except ValueError:
                tab[v] = None
    for r in case["rules"]:
        if r["kind"] in ("direct", "indirect", "virtual"):
            for e in r["h"]:
                for part in ("left", "right", "session"):
                    visit(e.get(part, {}).get("addr"))
    return [[k, v] for k, v in tab.items()]


def _opt_fields():
    import dataclasses
    from annet.bgp_models import PeerOptions
    return [f.name for f in dataclasses.fields(PeerOptions) if f.name != "local_as"]


def _htable(table):
    out = []
    for e in table:
        out.append({"l": e["l"], "r": e["r"],
                    "ports": None if e.get("ports") is None else ["%s|%s" % (a, b) for a, b in e["ports"]],
                    "left": fields_to_val(e.get("left", {})), "right": fields_to_val(e.get("right", {})),
                    "session": fields_to_val(e.get("session", {}))})
    return out


def requests(case):
    if case["kind"] == "merge":
        cls = merge_class(case["cls"])
        objs = [to_val(build_obj(cls, s)) for s in case["objs"]]
        return [dict(op="c15.merge", table=table_of(cls), objs=objs)]
    from annet.mesh.peer_models import DirectPeerDTO, IndirectPeerDTO, VirtualLocalDTO, VirtualPeerDTO
    from annet.mesh.device_models import GlobalOptionsDTO
    from annet.mesh.registry import GlobalOptions as MeshGlobalOptions
    reg = build_registry(case)
    storage = FStorage(case["devices"])
    fqdns = [d.fqdn for d in storage.devices]
    norm = reg._normalize_host
    direct, indirect, virtual = [], [], []
    di = ii = vi = 0
    for r in case["rules"]:
        if r["kind"] == "direct":
            m = reg.direct_rules[di].matcher
            di += 1
            direct.append({"match": [[a, b] for a in fqdns for b in fqdns if m.match_pair(norm(a), norm(b))],
                           "separate": r.get("pp") == "separate", "h": _htable(r["h"])})
        elif r["kind"] == "indirect":
            m = reg.indirect_rules[ii].matcher
            ii += 1
            indirect.append({"match": [[a, b] for a in fqdns for b in fqdns if m.match_pair(norm(a), norm(b))],
                             "h": _htable(r["h"])})
        elif r["kind"] == "virtual":
            m = reg.virtual_rules[vi].matcher
            vi += 1
            virtual.append({"match": [a for a in fqdns if m.match_one(norm(a))], "num": list(r["num"]),
                            "h": [{"dev": e["dev"], "num": e["num"], "left": fields_to_val(e.get("left", {})),
                                   "right": fields_to_val(e.get("right", {})),
                                   "session": fields_to_val(e.get("session", {}))} for e in r["h"]]})
    st = {"all": fqdns,
          "devices": [{"fqdn": d.fqdn, "neighbours": d.neighbours_fqdns, "ifaces": [i.name for i in d.interfaces],
                       "conns": [[n.fqdn, [[a.name, b.name] for a, b in storage.search_connections(d, n)]]
                                 for n in storage.devices]} for d in storage.devices]}
    tables = {"direct": table_of(DirectPeerDTO), "indirect": table_of(IndirectPeerDTO),
              "vlocal": table_of(VirtualLocalDTO), "vpeer": table_of(VirtualPeerDTO), "opt": _opt_fields(),
              "globals": table_of(GlobalOptionsDTO)}
    ips = _ip_table(case)
    dto_fields = GlobalOptionsDTO._field_mergers.keys()
    init = to_val(GlobalOptionsDTO())["model"]
    reqs = []
    for d in storage.devices:
        insts = []
        for rule in reg.lookup_global(d.fqdn):
            o = MeshGlobalOptions(rule.match, d)
            rule.handler(o)
            insts.append(to_val(o, dto_fields)["model"])
        reqs.append(dict(op="c15.execute_for", device=d.fqdn, storage=st, tables=tables, ips=ips, direct=direct,
                         indirect=indirect, virtual=virtual, ginit=init, ginsts=insts))
    return reqs


_DEFAULTS = {"vrf_name": "s", "group_name": "s", "description": "s", "import_policy": "s", "export_policy": "s",
             "update_source": "n"}


def _atom_of(v, default):
    if v is None:
        return default
    return v["atom"] if "atom" in v else _jkey(v)


def _render_call(c):
    return c


def model_peer(p):
    opts = {}
    for k, v in p["options"]:
        if v.get("atom") == "n":
            continue
        opts[k] = canon_val(v)
    if p["local_as"] is not None:
        opts["local_as"] = {"atom": "i%d" % p["local_as"]}
    fam = p["families"]
    out = {"addr": p["addr"], "interface": p["interface"], "remote_as": p["remote_as"], "hostname": p["hostname"],
           "families": sorted(x[1:] for x in set(fam["set"])) if fam is not None and "set" in fam else
           ([] if fam is None else _jkey(fam)), "options": opts}
    for k, dflt in _DEFAULTS.items():
        out[k] = _atom_of(p[k], dflt)
    out["laddr"] = _atom_of(p["laddr"], None)
    out["lvrf"] = _atom_of(p["lvrf"], None)
    return out


def model(case, resp):
    if case["kind"] == "merge":
        r = resp[0]
        return {k: ({"ok": canon_val(v["ok"])} if "ok" in v else v) for k, v in r.items()}
    res = {}
    for d, r in zip(case["devices"], resp):
        if "fail" in r:
            res[d["fqdn"]] = r
            continue
        out = {}
        g = r["globals"]
        out["globals"] = {"ok": canon_val({"model": g["ok"]})} if "ok" in g else g
        e = r["exec"]
        if "ok" in e:
            out["exec"] = {"ok": {"peers": sorted((model_peer(p) for p in e["ok"]["peers"]), key=_jkey),
                                  "calls": e["ok"]["calls"]}}
        else:
            out["exec"] = e
        res[d["fqdn"]] = out
    return {"dev": res}


# ----------------------------------------------------------------------------------------------
# generator
# ----------------------------------------------------------------------------------------------

# (template, int groups, str groups) for fqdn matching / short-name matching
TEMPLATES = [
    ("sp{n}.dc1.net", ["n"], []), ("lf{n}.dc1.net", ["n"], []), ("lf{m}.dc1.net", ["m"], []),
    ("{role:[a-z]+}{n}.dc1.net", ["n"], ["role"]), ("{name:.*}", [], ["name"]),
    ("{r:sp|lf}{n}.{dc:dc\\d}.net", ["n"], ["r", "dc"]), ("lf{n:[12]}.dc1.net", [], ["n"]),
    ("rr{n}.dc2.net", ["n"], []), ("sp1.dc1.net", [], []), ("{x:[a-z]+}{n}.dc{d}.net", ["n", "d"], ["x"]),
]
TEMPLATES_SHORT = [("sp{n}", ["n"], []), ("lf{n}", ["n"], []), ("{x:.*}", [], ["x"]), ("{role:[a-z]+}{n}", ["n"], ["role"]),
                   ("rr{n}", ["n"], [])]
NAMES = ["sp1.dc1.net", "sp2.dc1.net", "lf1.dc1.net", "lf2.dc1.net", "lf3.dc1.net", "rr1.dc2.net"]


def _gen_topology(rng):
    n = rng.choice([2, 2, 3, 3, 3, 4, 5])
    names = rng.sample(NAMES, n)
    ifaces = {nm: [["lo0", None, None]] for nm in names}
    cnt = {nm: 0 for nm in names}
    links = {}
    total = 0
    for i in range(n):
        for j in range(i + 1, n):
            k = rng.choice([0, 0, 1, 1, 1, 2, 3])
            if i == 0 and j == 1 and k == 0 and rng.random() < 0.8:
                k = 1
            links[(i, j)] = k
            for _ in range(k):
                cnt[names[i]] += 1
                cnt[names[j]] += 1
                a, b = "e%d" % cnt[names[i]], "e%d" % cnt[names[j]]
                ifaces[names[i]].append([a, names[j], b])
                ifaces[names[j]].append([b, names[i], a])
                total += 1
    for nm in names:
        if rng.random() < 0.3:
            rng.shuffle(ifaces[nm])
    return [{"fqdn": nm, "ifaces": ifaces[nm]} for nm in names], links


def _gen_filters(rng, lt, rt):
    fl = []
    if rng.random() < 0.35:
        li, ri = lt[1], rt[1] if rt else []
        r = rng.random()
        if rt is not None and li and ri and r < 0.5:
            fl.append({"a": ["L", rng.choice(li)], "op": rng.choice(["==", "!=", "<", "<=", ">", ">="]),
                       "b": ["R", rng.choice(ri)]})
        elif li and r < 0.8:
            side = "L" if rt is not None else "M"
            fl.append({"a": [side, rng.choice(li)], "op": rng.choice(["==", "<", ">=", "in"]),
                       "b": {"const": rng.choice([1, 2])}})
            if fl[-1]["op"] == "in":
                fl[-1]["b"] = {"const": [1, 2]}
        elif rt is not None and rt[2] and r < 0.9:
            fl.append({"a": ["R", rng.choice(rt[2])], "op": "!=", "b": {"const": "zz"}})
        else:
            fl.append({"a": ["L" if rt is not None else "M", "nosuch"], "op": "==", "b": {"const": 1}})
    return fl


def _extras(rng, plan_key, side):
    """optional attributes; values agree between rules with high probability."""
    h = random.Random(zlib.crc32(repr(plan_key).encode()))
    out = {}
    menu = {
        "mtu": [1500, 9000], "description": ["d1", "d2"], "hold_time": [30, 90], "pod": [1, 2],
        "send_community": [True, False], "bfd": [True, False], "listen_network": [{"seq": ["10.0.0.0/8"]}, {"seq": ["10.0.0.0/8", "11.0.0.0/8"]}],
        "af_rib_group": ["rg1", None], "update_source": ["lo0", "lo1"], "bfd_timers": [{"bfd": [300, 3]}, {"bfd": [500, 4]}],
        "import_policy": ["IMP1", "IMP2"], "export_policy": ["EXP1", "EXP2"], "group_name": ["G1", "G2"],
        "add_path": [True, False], "bmp_monitor": [True, False], "multipath": [True, False],
    }
    session_only = {"group_name", "bmp_monitor"}
    side_only = {"mtu", "description", "hold_time", "pod", "listen_network", "af_rib_group", "update_source"}
    for f, vals in menu.items():
        planned = vals[h.randrange(len(vals))]
        if side == "session" and f in side_only:
            continue
        if side != "session" and f in session_only:
            continue
        if rng.random() < 0.07:
            out[f] = planned if rng.random() < 0.92 else rng.choice(vals)
    return out


def _asn_plan(i, style):
    if style == 1:
        return "1.%d" % (i + 1)
    return 65001 + i


def _gen_pair_entry(rng, case_ctx, kind, li, ri, l, r, ports, gi, malformed):
    """one handler table entry for the application (l, r, ports)."""
    i, j = min(li, ri), max(li, ri)
    variant = 0 if rng.random() < 0.8 else 1
    v6 = case_ctx["v6"]
    if kind == "direct":
        k = gi if variant == 0 else 9
        if v6:
            lo, hi = "fd00:%d:%d::0/127" % (10 * i + j, k), "fd00:%d:%d::1/127" % (10 * i + j, k)
        else:
            lo, hi = "10.%d.%d.0/31" % (10 * i + j, k), "10.%d.%d.1/31" % (10 * i + j, k)
        laddr, raddr = (lo, hi) if li < ri else (hi, lo)
    else:
        laddr = "10.255.%d.%d" % (variant if rng.random() < 0.5 else 0, li + 1)
        raddr = "10.255.%d.%d" % (variant if rng.random() < 0.5 else 0, ri + 1)
    e = {"l": l, "r": r, "ports": ports, "left": {"addr": laddr}, "right": {"addr": raddr}, "session": {}}
    mode = case_ctx["asn_mode"]
    style = case_ctx["asn_style"]
    if mode < 0.55:
        e["left"]["asnum"] = _asn_plan(li, style)
        e["right"]["asnum"] = _asn_plan(ri, style)
    elif mode < 0.95:
        e["session"]["asnum"] = 65000
    else:
        e["left"]["asnum"] = _asn_plan(li, style)
        e["session"]["asnum"] = _asn_plan(li, style)
        e["right"]["asnum"] = _asn_plan(li, style)
    fam_plan = FAMILIES[(i + j) % 3]
    if rng.random() < 0.7:
        fams = [fam_plan] if rng.random() < 0.7 else sorted(rng.sample(FAMILIES, rng.randint(1, 2)))
        e["session"]["families"] = {"set": fams}
    if rng.random() < 0.04:
        e[rng.choice(["left", "right"])]["families"] = {"set": [rng.choice(FAMILIES)]}
    if case_ctx["vrf"] and rng.random() < 0.8:
        e["session"]["vrf"] = case_ctx["vrf"] if rng.random() < 0.9 else "v2"
    if rng.random() < 0.03:
        e[rng.choice(["left", "right"])]["vrf"] = "v9"
    for side in ("left", "right", "session"):
        e[side].update(_extras(rng, (side, min(l, r), max(l, r), l < r if side != "session" else 0), side))
    # interface selection on each side
    for side in ("left", "right"):
        multi = kind == "direct" and ports is not None and len(ports) > 1
        if kind == "direct":
            if rng.random() < (0.96 if multi else 0.1):
                e[side]["lag"] = rng.choice([1, 1, 1, 1, 1, 1, 1, 2, 0])       # 0: a legal number that is falsy
                if rng.random() < 0.3:
                    e[side]["lag_links_min"] = 1
            if rng.random() < 0.1:
                e[side]["subif"] = rng.choice([10, 10, 10, 10, 11, 0, 0])
            if rng.random() < (0.02 if "lag" in e[side] else 0.06) and "subif" not in e[side] or rng.random() < 0.01:
                e[side]["svi"] = rng.choice([100, 100, 100, 100, 101, 0])
        else:
            r0 = rng.random()
            if r0 < 0.6:
                e[side]["ifname"] = "lo0"
            elif r0 < 0.75 and case_ctx.get("bad_ifname"):
                e[side]["ifname"] = rng.choice(["nope", "", None, "e1", "Vlan100"])
            if rng.random() < 0.08:
                e[side]["svi"] = rng.choice([100, 100, 0])
            if rng.random() < 0.06:
                e[side]["subif"] = rng.choice([10, 10, 0])
    if malformed:
        r0 = rng.random()
        if r0 < 0.2:
            del e[rng.choice(["left", "right"])]["addr"]
        elif r0 < 0.35:
            e[rng.choice(["left", "right"])]["addr"] = rng.choice(["zzz", "10.0.0.300", None])
        elif r0 < 0.55:
            for side in ("left", "right", "session"):
                e[side].pop("asnum", None)
            if rng.random() < 0.5:
                e["left"]["asnum"] = 65001
        elif r0 < 0.7:
            e["session"]["asnum"] = rng.choice([4294967296, -1, "70000.1", "x", None, "65000"])
        elif r0 < 0.8:
            e["left"] = {}
            e["right"] = {}
            e["session"] = {} if rng.random() < 0.5 else {"asnum": 1}
    return e


def _gen_rule(rng, ctx, devices, links, malformed):
    from annet.mesh.match_args import PairMatcher
    names = [d["fqdn"] for d in devices]
    short = ctx["short"]
    pool = TEMPLATES_SHORT if short else TEMPLATES
    norm = (lambda h: h.split(".", 1)[0]) if short else (lambda h: h)
    kind = rng.choices(["direct", "indirect", "virtual", "device"], [46, 30, 9, 15])[0]
    if rng.random() < 0.08:
        ctx = dict(ctx, asn_mode=rng.random())
    ctx = dict(ctx, bad_ifname=rng.random() < 0.12)
    if kind in ("direct", "indirect"):
        for _ in range(30):
            lt, rt = rng.choice(pool), rng.choice(pool)
            flt = _gen_filters(rng, lt, rt)
            m = PairMatcher(lt[0], rt[0], [build_filter(f) for f in flt])
            pairs = [(a, b) for a in range(len(names)) for b in range(len(names))
                     if m.match_pair(norm(names[a]), norm(names[b]))]
            if kind == "direct":
                pairs = [(a, b) for a, b in pairs if a != b and links.get((min(a, b), max(a, b)), 0) > 0]
            if pairs or rng.random() < 0.05:
                break
        rule = {"kind": kind, "left": lt[0], "right": rt[0], "filters": flt, "h": []}
        if kind == "direct":
            rule["pp"] = "separate" if rng.random() < 0.3 else "united"
            st = FStorage(devices)
            for a, b in pairs:
                conns = [[x.name, y.name] for x, y in st.search_connections(st.devices[a], st.devices[b])]
                groups = [[c] for c in conns] if rule["pp"] == "separate" else [conns]
                if rule["pp"] == "united" and rng.random() < 0.15:
                    groups = [None]
                for gi, g in enumerate(groups):
                    if rng.random() < 0.1:
                        continue
                    key = None if g is None else sorted(g)
                    gidx = gi
                    if g is not None and rule["pp"] == "separate":
                        # link index independent of the interface order of this end
                        gidx = int(g[0][0][1:]) % 7 if a < b else int(g[0][1][1:]) % 7
                    rule["h"].append(_gen_pair_entry(rng, ctx, kind, a, b, names[a], names[b], key, gidx, malformed))
        else:
            for a, b in pairs:
                if rng.random() < 0.1:
                    continue
                rule["h"].append(_gen_pair_entry(rng, ctx, kind, a, b, names[a], names[b], None, 0, malformed))
        return rule
    lt = rng.choice(pool)
    flt = _gen_filters(rng, lt, None)
    if kind == "virtual":
        num = list(range(1, rng.randint(1, 3) + 1))
        rule = {"kind": "virtual", "mask": lt[0], "num": num, "filters": flt, "h": []}
        for di, nm in enumerate(names):
            for k in num:
                if rng.random() < 0.1:
                    continue
                e = {"dev": nm, "num": k, "left": {"svi": 200 + (k if rng.random() < 0.3 else 0), "addr": "10.200.%d.1/24" % di},
                     "right": {"addr": "10.200.%d.%d" % (di, 10 + k)}, "session": {"asnum": 65100}}
                if rng.random() < 0.5:
                    e["session"]["families"] = {"set": [rng.choice(FAMILIES)]}
                if rng.random() < 0.3:
                    e["left"]["asnum"] = 65001 + di
                if rng.random() < 0.3:
                    e["left"]["mtu"] = 1500
                if rng.random() < 0.2:
                    e["left"]["listen_network"] = {"seq": ["10.200.0.0/16"]}
                if malformed and rng.random() < 0.3:
                    e["left"].pop("svi")
                rule["h"].append(e)
        return rule
    rule = {"kind": "device", "mask": lt[0], "filters": flt, "h": []}
    menu = [
        (["local_as"], lambda di: 65001 + di), (["router_id"], lambda di: "1.1.1.%d" % (di + 1)),
        (["multipath"], lambda di: rng.choice([4, 4, 4, 8])), (["loops"], lambda di: rng.choice([1, 1, 1, 2])),
        (["as_path_relax"], lambda di: True),
        (["ipv4_unicast", "aggregate", "routes"], lambda di: {"tup": [rng.choice(["10.0.0.0/8", "11.0.0.0/8"])]}),
        (["ipv4_unicast", "aggregate", "policy"], lambda di: "AGG"),
        (["ipv4_unicast", "redistributes"], lambda di: {"tup": [{"redist": [rng.choice(["static", "connected"]), "P"]}]}),
        (["ipv6_unicast", "multipath"], lambda di: 2),
        (["vrf", "v1", "rt_import"], lambda di: {"tup": [rng.choice(["65000:1", "65000:2"])]}),
        (["vrf", "v1", "import_policy"], lambda di: "VIMP"),
        (["vrf", "v1", "groups", "G1", "families"], lambda di: {"set": [rng.choice(FAMILIES)]}),
        (["vrf", "v1", "groups", "G1", "remote_as"], lambda di: 65002),
        (["vrf", "v1", "ipv4_unicast", "aggregate", "routes"], lambda di: {"tup": ["12.0.0.0/8"]}),
        (["vrf", "v2", "l3vni"], lambda di: 5000),
        (["groups", "G1", "remote_as"], lambda di: 65001), (["groups", "G1", "families"], lambda di: {"set": [rng.choice(FAMILIES)]}),
        (["groups", "G1", "mtu"], lambda di: rng.choice([1500, 1500, 9000])), (["groups", "G2", "send_community"], lambda di: True),
        (["groups", "G1", "listen_network"], lambda di: {"seq": ["10.0.0.0/8"]}),
        (["l2vpn", "e1", "rt_import"], lambda di: {"tup": [rng.choice(["1:1", "1:2"])]}),
    ]
    per_dev = rng.random() < 0.5
    targets = list(enumerate(names)) if per_dev else [(0, None)]
    for di, nm in targets:
        sets = []
        for path, f in menu:
            if rng.random() < 0.18:
                sets.append({"path": path, "val": f(di)})
        if any(a["path"][0] == "l2vpn" for a in sets) and rng.random() < 0.97 or rng.random() < 0.1:
            sets.append({"path": ["l2vpn", "e1", "vid"], "val": "100"})
            sets.append({"path": ["l2vpn", "e1", "l2vni"], "val": 1000 if rng.random() < 0.95 else 1001})
        rule["h"].append({"dev": nm, "set": sets})
    return rule


def _links_of(devices):
    idx = {d["fqdn"]: i for i, d in enumerate(devices)}
    links = {}
    for d in devices:
        for f in d["ifaces"]:
            if f[1] is not None and f[1] in idx and idx[d["fqdn"]] < idx[f[1]]:
                k = (idx[d["fqdn"]], idx[f[1]])
                links[k] = links.get(k, 0) + 1
    return links


def gen_exec_case(rng, malformed=False, topo=None):
    devices, links = topo if topo is not None else _gen_topology(rng)
    ctx = {"short": rng.random() < 0.15, "v6": rng.random() < 0.2, "asn_style": 1 if rng.random() < 0.15 else 0,
           "vrf": "v1" if rng.random() < 0.2 else None, "asn_mode": rng.random()}
    nrules = rng.choice([1, 2, 2, 3, 3, 4, 5])
    rules = [_gen_rule(rng, ctx, devices, links, malformed and rng.random() < 0.6) for _ in range(nrules)]
    case = {"kind": "exec", "devices": devices, "rules": rules}
    if ctx["short"]:
        case["short"] = True
    return case


def _rand_value(rng, hint, depth):
    """value spec for a field of the given type hint (tiny domains so that values collide)."""
    import typing
    from typing import get_args, get_origin
    from annet.bgp_models import BFDTimers, Redistribute
    from annet.mesh.basemodel import BaseMeshModel
    origin = get_origin(hint)
    if hint is bool:
        return rng.choice([True, False])
    if hint is int:
        return rng.choice([1, 2])
    if hint is str:
        return rng.choice(["a", "b"])
    if hint is BFDTimers:
        return {"bfd": [rng.choice([300, 500]), 3]}
    if hint is Redistribute:
        return {"redist": [rng.choice(["static", "connected"]), "P"]}
    if origin is typing.Literal:
        return rng.choice(list(get_args(hint))[:2])
    if origin is typing.Union or (origin is not None and origin.__name__ == "UnionType") or type(hint).__name__ == "UnionType":
        args = get_args(hint)
        a = rng.choice(args)
        return None if a is type(None) else _rand_value(rng, a, depth)
    if origin in (set, frozenset):
        el = get_args(hint)[0]
        dom = list(get_args(el))[:3] if get_origin(el) is typing.Literal else ["x", "y", "z"]
        return {"set": sorted(rng.sample(dom, rng.randint(0, len(dom))))}
    if origin is tuple:
        el = get_args(hint)[0]
        return {"tup": [_rand_value(rng, el, depth) for _ in range(rng.randint(0, 2))]}
    if origin is list:
        return {"seq": [rng.choice(["p", "q"]) for _ in range(rng.randint(0, 2))]}
    raise ValueError("no generator for %r" % (hint,))


def rand_spec(rng, cls, depth=0, p=0.5):
    from typing import get_type_hints, get_args, get_origin, Annotated
    from annet.mesh import basemodel as bm
    hints = get_type_hints(cls, include_extras=True)
    spec = {}
    for f, m in cls._field_mergers.items():
        if f == "vrf_name" and cls.__name__ == "VrfOptions":
            spec[f] = "v"
            continue
        if f == "name" and cls.__name__ in ("MeshPeerGroup", "L2VpnOptions"):
            spec[f] = "g"
            continue
        if rng.random() > p:
            continue
        base = get_args(hints[f])[0] if get_origin(hints[f]) is Annotated else hints[f]
        if isinstance(m, bm.Merge):
            if depth < 3:
                spec[f] = {"model": rand_spec(rng, base, depth + 1, p)}
        elif isinstance(m, bm.DictMerge):
            vt = get_args(base)[1]
            keys = rng.sample(["k1", "k2", "k3"], rng.randint(0, 3))
            if isinstance(m.value_merger, bm.Merge):
                if depth < 2:
                    spec[f] = {"dict": {k: {"model": rand_spec(rng, vt, depth + 1, p)} for k in keys}}
            else:
                spec[f] = {"dict": {k: _rand_value(rng, vt, depth) for k in keys}}
        else:
            spec[f] = _rand_value(rng, base, depth)
    return spec


MERGE_CLASSES = ["Leafy", "Sym", "Nest", "Dicty", "DirectPeerDTO", "IndirectPeerDTO", "MeshSession", "VirtualPeerDTO",
                 "VirtualLocalDTO", "MeshPeerGroup", "Aggregate", "FamilyOptions", "L2VpnOptions", "VrfOptions",
                 "GlobalOptionsDTO"]


def gen_merge_case(rng):
    name = rng.choice(MERGE_CLASSES)
    cls = merge_class(name)
    big = len(cls._field_mergers) > 20
    n = rng.choice([2, 3, 3])
    return {"kind": "merge", "cls": name, "objs": [rand_spec(rng, cls, 0, 0.12 if big else 0.55) for _ in range(n)]}


def shards(tier, seed):
    out = []
    if tier == "quick":
        for i in range(48):
            out.append(dict(kind="exec", seed=seed * 100003 + i, n=40))
        for i in range(16):
            out.append(dict(kind="merge", seed=seed * 100003 + 500 + i, n=400))
        for i in range(16):
            out.append(dict(kind="glue", seed=seed * 100003 + 900 + i, n=40))
    else:
        for i in range(256):
            out.append(dict(kind="exec", seed=seed * 100003 + i, n=80, allperms=True))
        for i in range(64):
            out.append(dict(kind="merge", seed=seed * 100003 + 500 + i, n=1000))
        for i in range(64):
            out.append(dict(kind="glue", seed=seed * 100003 + 900 + i, n=120, allperms=True))
    return out


def gen(desc):
    rng = random.Random(desc["seed"])
    for k in range(desc["n"]):
        if desc["kind"] == "merge":
            yield gen_merge_case(rng)
        elif desc["kind"] == "glue":
            from harness import c15glue
            c = c15glue.gen_glue_case(rng, "twins" if k % 2 == 0 else "multi")
            if desc.get("allperms"):
                c["allperms"] = True
            c["pseed"] = rng.randrange(1 << 30)
            yield c
        else:
            c = gen_exec_case(rng, malformed=rng.random() < 0.1)
            if desc.get("allperms"):
                c["allperms"] = True
            c["pseed"] = rng.randrange(1 << 30)
            yield c


# ----------------------------------------------------------------------------------------------
# oracle (real code only)
# ----------------------------------------------------------------------------------------------

def _ip(a):
    import ipaddress
    try:
        return str(ipaddress.ip_interface(a).ip)
    except ValueError:
        return None


def _per_side(case, field):
    """does some pair handler assign `field` on one side only (not through the session)?"""
    for r in case["rules"]:
        if r["kind"] in ("direct", "indirect"):
            for e in r["h"]:
                if field in e.get("left", {}) or field in e.get("right", {}):
                    return True
    return False


def _desc(p, with_fam, with_vrf):
    """what one end says about a session: (own ip, peer ip, own AS, peer AS[, families][, vrf])."""
    la = p["laddr"]
    la = _ip(la[1:]) if isinstance(la, str) and la.startswith("s") else None
    las = p["options"].get("local_as", {"atom": "i0"})["atom"]
    t = [la, p["addr"], int(las[1:]), p["remote_as"]]
    if with_fam:
        t.append(tuple(p["families"]))
    if with_vrf:
        t.append(p["vrf_name"])
    return tuple(t)


def _swap(t):
    return (t[1], t[0], t[3], t[2]) + tuple(t[4:])


def _restrict(case, a, b):
    """the sub-case of the pair (a, b) alone: the two devices, their mutual links, and only the
    handler table rows that concern the pair (no self pairs, no virtual/device rules)."""
    devs = []
    for d in case["devices"]:
        if d["fqdn"] in (a, b):
            devs.append(dict(d, ifaces=[i for i in d["ifaces"] if i[1] is None or i[1] in (a, b)]))
    rules = []
    for rl in case["rules"]:
        if rl["kind"] in ("direct", "indirect"):
            rules.append(dict(rl, h=[e for e in rl["h"] if {e["l"], e["r"]} == {a, b}]))
    return dict(case, devices=devs, rules=rules)


def _pair_stage_conflict(case, fqdn):
    """does the pair-merging stage (_execute_direct / _execute_indirect) itself raise ValueError?"""
    storage = FStorage(case["devices"])
    ex = _executor_class()(build_registry(case), storage)
    dev = storage.get_device(fqdn)
    try:
        ex._execute_direct(dev)
        ex._execute_indirect(dev, storage.resolve_all_fdnds())
    except ValueError:
        return True
    except Exception:  # noqa
        return False
    return False


def _asym_groups(peers):
    """two sessions computed at one end that the other end (which keys pairs by *this* end's
    address and vrf) files under one key"""
    seen = {}
    for p in peers:
        seen.setdefault((p["laddr"], p["lvrf"] or "s"), []).append(p["addr"])
    return {k: v for k, v in seen.items() if len(v) > 1}


def _key_compat(case, a, b):
    """the hypothesis of the mirroring theorems (Lean `KeyCompat`): two handler results of the pair get the same key at `a`
    (b's address and vrf) iff they get the same key at `b` (a's address and vrf); read off the case's handler table"""
    keys = []
    for rule in case.get("rules", []):
        for h in rule.get("h", []):
            if {h.get("l"), h.get("r")} != {a, b}:
                continue
            sa, sb = (h.get("left") or {}, h.get("right") or {}) if h.get("l") == a else (h.get("right") or {}, h.get("left") or {})
            keys.append(((sa.get("addr"), sa.get("vrf")), (sb.get("addr"), sb.get("vrf"))))
    return all((k1[0] == k2[0]) == (k1[1] == k2[1]) for k1 in keys for k2 in keys)


def oracle_mirror(case, r):
    out = []
    devs = [d["fqdn"] for d in case["devices"]]
    res = r.get("dev", {})
    with_fam = not _per_side(case, "families")
    with_vrf = not _per_side(case, "vrf")
    for a, b in itertools.combinations(devs, 2):
        ra, rb = res[a]["exec"], res[b]["exec"]
        if "ok" in ra and "ok" in rb:
            pa = [p for p in ra["ok"]["peers"] if p["hostname"] == b]
            pb = [p for p in rb["ok"]["peers"] if p["hostname"] == a]
            sa = sorted((_desc(p, with_fam, with_vrf) for p in pa), key=repr)
            sb = sorted((_swap(_desc(p, with_fam, with_vrf)) for p in pb), key=repr)
            if any(t[0] is None for t in sa) or any(t[1] is None for t in sb):
                continue   # an address that is not an IP address: outside the property's domain
            if sa != sb:
                asym = _asym_groups(pa) or _asym_groups(pb)
                if not asym and not _key_compat(case, a, b):
                    asym = {"handler results of the pair are not key-compatible": True}
                if asym:
                    out.append(dict(sig="mirror-asym-peerkey",
                                    what="%s and %s group the same handler results differently (%d vs %d sessions): pairs are keyed "
                                         "by the remote address/vrf only; shared own (addr, vrf): %s" % (a, b, len(pa), len(pb), sorted(asym))))
                else:
                    out.append(dict(sig="mirror-mismatch", what="sessions %s<->%s differ between the ends: %s sees %s, %s sees (swapped) %s"
                                    % (a, b, a, sa, b, sb)))
        elif ("ok" in ra) != ("ok" in rb):
            # one end raised.  It only contradicts the property when the two ends grouped the same
            # handler results differently; look at the pair in isolation.
            x, y = (a, b) if "ok" in ra else (b, a)
            sub = _restrict(case, x, y)
            rx = run_device(sub, x, want_globals=False)["exec"]
            if "ok" in rx and _pair_stage_conflict(sub, y):
                px = [p for p in rx["ok"]["peers"] if p["hostname"] == y]
                asym = _asym_groups(px)
                if asym:
                    out.append(dict(sig="mirror-asym-peerkey",
                                    what="%s computes %d sessions to %s while %s raises ValueError: pairs are keyed by the remote "
                                         "address/vrf only; shared own (addr, vrf): %s" % (x, len(px), y, y, sorted(asym))))
    return out


def _asn(v):
    """reference reading of an AS number: int, "high.low", decimal string, None = 0"""
    if v is None:
        return 0
    if isinstance(v, int):
        return v
    if "." in v:
        hi, lo = v.split(".")
        return (int(hi) << 16) + int(lo)
    return int(v)


def oracle_sides(case, r):
    """every peer of A towards B points at an address and AS that a handler of the pair assigned to
    B's side (or to the session), and A's own address/AS come from A's side (or the session)."""
    out = []
    for d in case["devices"]:
        a = d["fqdn"]
        ex = r["dev"][a]["exec"]
        if "ok" not in ex:
            continue
        for p in ex["ok"]["peers"]:
            b = p["hostname"]
            if not b or b == a:
                continue
            mine, theirs, sess = [], [], []
            for rl in case["rules"]:
                if rl["kind"] in ("direct", "indirect"):
                    for e in rl["h"]:
                        if (e["l"], e["r"]) == (a, b):
                            mine.append(e.get("left", {})); theirs.append(e.get("right", {})); sess.append(e.get("session", {}))
                        elif (e["l"], e["r"]) == (b, a):
                            mine.append(e.get("right", {})); theirs.append(e.get("left", {})); sess.append(e.get("session", {}))
            try:
                their_ips = {_ip(x["addr"]) for x in theirs if isinstance(x.get("addr"), str)}
                my_addrs = {enc_atom(x["addr"]) for x in mine if "addr" in x}
                their_as = {_asn(x["asnum"]) for x in theirs + sess if "asnum" in x}
                my_as = {_asn(x["asnum"]) for x in mine + sess if "asnum" in x}
            except (ValueError, TypeError):
                continue   # malformed AS numbers: outside the domain
            if p["addr"] not in their_ips:
                out.append(dict(sig="peer-addr-not-remote-side", what="%s: peer towards %s has addr %s, handlers gave %s the addresses %s"
                                % (a, b, p["addr"], b, sorted(x for x in their_ips if x))))
            elif p["laddr"] not in my_addrs:
                out.append(dict(sig="peer-local-addr-not-own-side", what="%s: session to %s uses own addr %s, handlers gave %s: %s"
                                % (a, b, p["laddr"], a, sorted(my_addrs))))
            elif p["remote_as"] not in their_as:
                out.append(dict(sig="peer-as-not-remote-side", what="%s: peer %s towards %s has remote_as %s, handlers gave %s / the session %s"
                                % (a, p["addr"], b, p["remote_as"], b, sorted(their_as))))
            else:
                las = p["options"].get("local_as")
                if las is not None and int(las["atom"][1:]) not in my_as:
                    out.append(dict(sig="peer-local-as-not-own-side", what="%s: session to %s has local_as %s, handlers gave %s"
                                    % (a, b, las["atom"], sorted(my_as))))
    return out


def _canon_any(x):
    import dataclasses
    if dataclasses.is_dataclass(x) and not isinstance(x, type):
        return {"dc": type(x).__name__, "f": {f.name: _canon_any(getattr(x, f.name)) for f in dataclasses.fields(x)}}
    if isinstance(x, dict):
        return {"d": sorted(([k, _canon_any(v)] for k, v in x.items()), key=_jkey)}
    if isinstance(x, (list, tuple, set, frozenset)):
        return {"l": sorted((_canon_any(v) for v in x), key=_jkey)}
    if isinstance(x, (int, str, bool)) or x is None:
        return enc_atom(x)
    return "o" + repr(x)


def _outcome(case, fqdn, order):
    """canonical observable outcome of execute_for under one registration order."""
    r = run_device(case, fqdn, order=order, want_globals=False)
    if "ok" not in r["exec"]:
        return {"err": True}
    ex = r["_ex"]
    res = r["_res"]
    g = _canon_any(res.global_options) if res.global_options is not None else {"gconv": ex.gconv_err}
    peers = []
    for p in r["exec"]["ok"]["peers"]:
        peers.append(p)
    return {"peers": peers, "calls": sorted(r["exec"]["ok"]["calls"], key=_jkey), "globals": g}


def perms_for(case):
    n = len(case["rules"])
    allp = list(itertools.permutations(range(n)))[1:]
    if case.get("allperms") or len(allp) <= 23:
        return allp
    rng = random.Random(case.get("pseed", 0))
    return rng.sample(allp, 23)


def oracle_order(case, r):
    out = []
    perms = perms_for(case)
    if not perms:
        return out
    for d in case["devices"]:
        base = _outcome(case, d["fqdn"], None)
        for pm in perms:
            o = _outcome(case, d["fqdn"], pm)
            if o == base:
                continue
            if ("err" in o) != ("err" in base):
                sig, what = "order-dep-error", "raises under one registration order and not under another"
            elif o["peers"] != base["peers"]:
                sig, what = "order-dep-peers", "peers differ between registration orders"
            elif o["globals"] != base["globals"]:
                sig, what = "order-dep-globals", "global options differ between registration orders"
            else:
                sig, what = "order-dep-calls", "interface calls differ between registration orders"
            # the one order dependence that is a property of the Device adapter, not of the mesh code:
            # an indirect peer names (ifname) an interface that another handler creates
            if sig == "order-dep-error" and _names_created_iface(case, d["fqdn"]):
                sig = "order-dep-ifname-created"
            out.append(dict(sig=sig, what="%s: %s (order %s vs registration order)" % (d["fqdn"], what, list(pm))))
            break
    return out


def _names_created_iface(case, fqdn):
    created, named = set(), set()
    for rl in case["rules"]:
        if rl["kind"] in ("direct", "indirect", "virtual"):
            for e in rl["h"]:
                for side in ("left", "right"):
                    f = e.get(side, {})
                    if f.get("svi") is not None:
                        created.add("Vlan%s" % f["svi"])
                    if f.get("lag") is not None:
                        created.add("Trunk%s" % f["lag"])
                    if isinstance(f.get("ifname"), str):
                        named.add(f["ifname"])
    return bool(created & named)


def oracle_iface(case, r):
    """the interface of every peer, recomputed from the local DTO by the documented decision table."""
    out = []
    for d in case["devices"]:
        fq = d["fqdn"]
        if "ok" not in r["dev"][fq]["exec"]:
            continue
        rr = run_device(case, fq, want_globals=False)
        if "ok" not in rr["exec"]:
            continue
        ex = rr["_ex"]
        calls = rr["exec"]["ok"]["calls"]
        for peer in rr["_res"].peers:
            info = ex.rec.get(id(peer))
            if info is None:
                continue
            lag, subif, svi, ports = info["lag"], info["subif"], info["svi"], info["ports"]
            if info["kind"] == "direct":
                if len(ports) > 1 and lag is None and svi is None:
                    out.append(dict(sig="iface-multi-no-lag", what="%s: peer %s over %d ports without LAG/SVI" % (fq, peer.addr, len(ports))))
                    continue
                if lag is not None:
                    exp = "Trunk%s" % lag + (".%s" % subif if subif is not None else "")
                elif subif is not None:
                    exp = "%s.%s" % (ports[0], subif)
                elif svi is not None:
                    exp = "Vlan%s" % svi
                else:
                    exp = ports[0]
            elif info["kind"] == "indirect":
                ifn = info["ifname"]
                if subif is not None:
                    exp = "%s.%s" % (ifn, subif)
                elif svi is not None:
                    exp = "Vlan%s" % svi
                elif not ifn:
                    exp = None
                else:
                    exp = ifn
            else:
                exp = "Vlan%s" % svi
            if peer.interface != exp:
                out.append(dict(sig="iface-choice", what="%s: peer %s sits on %r, the rule selected %r" % (fq, peer.addr, peer.interface, exp)))
            elif exp is not None and info["kind"] != "virtual":
                want = {"c": "addr", "iface": exp, "addr": enc_atom(info["laddr"]),
                        "vrf": None if info["lvrf"] is None else enc_atom(info["lvrf"])}
                if want not in calls:
                    out.append(dict(sig="iface-addr", what="%s: %s was not given the address %r" % (fq, exp, info["laddr"])))
    return out


def _py_eq_val(a, b):
    return canon_val(a) == canon_val(b)


def _ref_merge(table, a, b):
    """reference semantics of the property's merge laws on Val JSON (a, b: {"model": [...]})."""
    da, db = dict(a["model"]), dict(b["model"])
    out = []
    for f, m in table:
        x, y = da.get(f), db.get(f)
        if x is None and y is None:
            continue
        if x is None or y is None:
            out.append([f, x if y is None else y])       # unset never overrides set
            continue
        out.append([f, _ref_merge_val(m, x, y)])
    return {"model": out}


class _Conflict(Exception):
    pass


def _ref_merge_val(m, x, y):
    if m == "forbidChange":
        if canon_val(x) != canon_val(y):
            raise _Conflict()
        return x
    if m == "useFirst":
        return x
    if m == "useLast":
        return y
    if m == "forbid":
        raise _Conflict()
    if m == "unite":
        return {"set": sorted(set(x["set"]) | set(y["set"]))}
    if m == "concat":
        return {"seq": x["seq"] + y["seq"]}
    if "merge" in m:
        return _ref_merge(m["merge"], x, y)
    if "dictMerge" in m:
        dx, dy = dict(x["dict"]), dict(y["dict"])
        out = []
        for k, v in x["dict"]:
            out.append([k, _ref_merge_val(m["dictMerge"], v, dy[k]) if k in dy else v])
        for k, v in y["dict"]:
            if k not in dx:
                out.append([k, v])
        return {"dict": out}
    raise ValueError(m)


def _has_order_merger(t):
    for f, m in t:
        if m in ("useFirst", "useLast"):
            return True
        if isinstance(m, dict):
            sub = m.get("merge") or ([["v", m["dictMerge"]]])
            if _has_order_merger(sub):
                return True
    return False


def oracle_merge(case, r):
    out = []
    cls = merge_class(case["cls"])
    t = table_of(cls)
    objs = [to_val(build_obj(cls, s)) for s in case["objs"]]

    def ref(f):
        try:
            return {"ok": canon_val(f())}
        except _Conflict:
            return {"err": "forbidden"}
    exp_ab = ref(lambda: _ref_merge(t, objs[0], objs[1]))
    if r["ab"] != exp_ab:
        out.append(dict(sig="merge-law", what="merge(a,b) of %s is not the field-by-field combination: %s, expected %s"
                        % (case["cls"], _jkey(r["ab"])[:300], _jkey(exp_ab)[:300])))
    if ("ok" in r["ab"]) != ("ok" in r["ba"]):
        out.append(dict(sig="merge-comm-definedness", what="merge(a,b) and merge(b,a) of %s: one conflicts, the other does not" % case["cls"]))
    elif "ok" in r["ab"] and not _has_order_merger(t):
        if canon_val(r["ab"]["ok"], True) != canon_val(r["ba"]["ok"], True):
            out.append(dict(sig="merge-comm", what="merge(a,b) != merge(b,a) up to Concat order for %s" % case["cls"]))
    if "abc" in r:
        if r["abc"] != r["a_bc"]:
            out.append(dict(sig="merge-assoc", what="merge(a,b,c) != merge(a,merge(b,c)) for %s: %s vs %s"
                            % (case["cls"], _jkey(r["abc"])[:200], _jkey(r["a_bc"])[:200])))
    return out


# ----------------------------------------------------------------------------------------------
# glue families: the property's clauses against a reference reading of the case (harness/c15glue.py)
# ----------------------------------------------------------------------------------------------

def _is_glue(case):
    return str(case.get("fam", "")).startswith("glue")


def _expected_peer(s, opt_fields):
    """what the property promises for one session (reference union `s` of harness/c15glue.expect), in dump_peer form"""
    from harness import c15glue as G
    loc, rem = s["local"], s["remote"]
    opts = {}
    for f, v in loc.items():
        if f in opt_fields:
            opts[f] = canon_val(to_val(from_spec(v)))
    opts["local_as"] = {"atom": "i%d" % G.asn(loc["asnum"])}
    return {"remote_as": G.asn(rem["asnum"]), "families": sorted(rem.get("families", {"set": []})["set"]),
            "group_name": enc_atom(rem.get("group_name", "")), "description": enc_atom(rem.get("description", "")),
            "import_policy": enc_atom(loc.get("import_policy", "")), "export_policy": enc_atom(loc.get("export_policy", "")),
            "update_source": enc_atom(loc.get("update_source")), "options": opts, "laddr": enc_atom(loc["addr"]),
            "lvrf": enc_atom(loc["vrf"]) if "vrf" in loc else None}


def oracle_glue(case, r):
    """(1) every session the rules define for a device is computed there, once, and nothing else;
    (2) it carries every field some matching handler set (field-by-field union, nothing lost);
    (3) no error unless a single-valued field gets two different values -- and then an error;
    (4) every session computed at one end is computed at the other end with the mirrored (addr, vrf)."""
    from harness import c15glue as G
    out = []
    exp = G.expect(case)
    res = r.get("dev", {})
    short = bool(case.get("short"))
    optf = set(_opt_fields())
    byname = {d["fqdn"]: d for d in case["devices"]}
    for a, e in exp.items():
        if e is None or a not in res:
            continue
        ex = res[a]["exec"]
        if e["conflict"]:
            if "ok" in ex:
                out.append(dict(sig="conflict-not-raised", what="%s: rows of one peer key give two different values to %s, "
                                "execute_for returned %d peers instead of raising" % (a, e["conflict"], len(ex["ok"]["peers"]))))
            continue
        if "err" in ex:
            several = [s for s in e["sessions"] if len(s["idents"]) > 1]
            if ex["err"] == "ValueError" and several:
                # which way one key is reached more than once: rules written with different name templates, one rule
                # matching the pair in both orientations, or rules with the same templates (read off the case)
                def _tpl(s):
                    return {(case["rules"][ri]["left"], case["rules"][ri]["right"]) for ri, _ in s["idents"]}
                diff = [s for s in several if len(_tpl(s)) > 1]
                both = [s for s in several if len({ri for ri, _ in s["idents"]}) < len(s["idents"])]
                s0, how = (diff[0], "different-templates") if diff else (both[0], "both-orientations") if both else \
                    (several[0], "same-templates")
                out.append(dict(sig="merge-error-without-field-conflict:" + how,
                                what="%s: execute_for raises ValueError although no single-valued field gets two values; the key "
                                     "(%s, %s, %r) is hit by %d (rule, orientation) matches %s whose rows set equal or disjoint fields"
                                     % (a, s0["b"], s0["addr"], s0["vrf"], len(s0["idents"]), s0["idents"])))
            else:
                out.append(dict(sig="exec-error-without-conflict", what="%s: execute_for raises %s on a conflict-free, complete "
                                "handler table (%d sessions expected)" % (a, ex["err"], len(e["sessions"]))))
            continue
        peers = ex["ok"]["peers"]
        used = set()
        for s in e["sessions"]:
            cand = [i for i, p in enumerate(peers) if p["hostname"] == s["b"] and p["addr"] == s["addr"]
                    and p["vrf_name"] == enc_atom(s["vrf"])]
            if not cand:
                twins = [n for n in G.neighbours(byname[a]) if n != s["b"] and G.short_of(n) == G.short_of(s["b"])]
                if short and s["kind"] == "direct" and twins:
                    out.append(dict(sig="session-lost-short-name-twin",
                                    what="%s: no session towards %s (%s) although a direct rule matches the pair and its handler "
                                         "assigns it; %s is also a neighbour and has the same short name (match_short_name)"
                                         % (a, s["b"], s["addr"], twins)))
                else:
                    out.append(dict(sig="session-missing", what="%s: no %s session towards %s (%s, vrf %r) although rule(s) %s "
                                    "match the pair and assign it" % (a, s["kind"], s["b"], s["addr"], s["vrf"], s["idents"])))
                continue
            if len(cand) > 1:
                out.append(dict(sig="session-duplicated", what="%s: %d peers for the key (%s, %s, %r)"
                                % (a, len(cand), s["b"], s["addr"], s["vrf"])))
                continue
            used.add(cand[0])
            p = peers[cand[0]]
            want = _expected_peer(s, optf)
            bad = sorted(k for k, v in want.items() if p.get(k) != v)
            if bad:
                lost = {k: (want[k], p.get(k)) for k in bad}
                out.append(dict(sig="merge-field-lost", what="%s: session to %s (%s): the rows of %d matches %s combine field by "
                                "field to something else than the computed peer: {field: (expected, got)} = %s"
                                % (a, s["b"], s["addr"], len(s["idents"]), s["idents"], _jkey(lost)[:600])))
        for i, p in enumerate(peers):
            if i not in used and p["hostname"] in byname:
                out.append(dict(sig="session-from-no-rule", what="%s: peer %s towards %s is not the result of any matching rule's rows"
                                % (a, p["addr"], p["hostname"])))
    # (4) mirroring, on the real results alone
    for a in byname:
        if exp.get(a) is None or a not in res or "ok" not in res[a]["exec"]:
            continue
        for p in res[a]["exec"]["ok"]["peers"]:
            b = p["hostname"]
            if b == a or b not in byname or exp.get(b) is None or "ok" not in res[b]["exec"]:
                continue
            if exp[a]["conflict"] or exp[b]["conflict"] or not G.key_partitions_agree(case, a, b):
                continue
            la = p["laddr"]
            la = _ip(la[1:]) if isinstance(la, str) and la.startswith("s") else None
            mirrored = [q for q in res[b]["exec"]["ok"]["peers"] if q["hostname"] == a and q["addr"] == la
                        and isinstance(q["laddr"], str) and _ip(q["laddr"][1:]) == p["addr"] and q["vrf_name"] == p["vrf_name"]]
            if len(mirrored) != 1:
                out.append(dict(sig="session-not-mirrored", what="%s has a session to %s (own %s, peer %s, vrf %s); %s has %d sessions "
                                "with the mirrored key (peers of %s towards %s: %s)"
                                % (a, b, la, p["addr"], p["vrf_name"], b, len(mirrored), b, a,
                                   [(q["laddr"], q["addr"]) for q in res[b]["exec"]["ok"]["peers"] if q["hostname"] == a])))
            else:
                q = mirrored[0]
                las = lambda x: int(x["options"].get("local_as", {"atom": "i0"})["atom"][1:])  # noqa
                if las(p) != q["remote_as"] or las(q) != p["remote_as"]:
                    out.append(dict(sig="session-as-not-mirrored", what="%s<->%s (%s/%s): local_as/remote_as %s/%s vs %s/%s"
                                    % (a, b, la, p["addr"], las(p), p["remote_as"], las(q), q["remote_as"])))
    return out


def oracle(case, r):
    if "err" in r and str(r.get("err", "")).startswith("Unexpected"):
        return [dict(sig="impl-crash", what="harness could not run the case: %s" % r)]
    if case["kind"] == "merge":
        return oracle_merge(case, r)
    out = oracle_mirror(case, r) + oracle_sides(case, r) + oracle_order(case, r) + oracle_iface(case, r)
    if _is_glue(case):
        out += oracle_glue(case, r)
    return out


# ----------------------------------------------------------------------------------------------
# bookkeeping
# ----------------------------------------------------------------------------------------------

def nontrivial(case, r):
    if case["kind"] == "merge":
        keys = [set(o.keys()) for o in case["objs"]]
        return len(keys[0] & keys[1]) >= 2
    n = sum(1 for v in r.get("dev", {}).values() if "ok" in v["exec"] and v["exec"]["ok"]["peers"])
    return n >= 2


def stats(case, r):
    if case["kind"] == "merge":
        lab = ["merge:" + case["cls"], "merge:ab=" + ("ok" if "ok" in r["ab"] else r["ab"]["err"]), "merge:n=%d" % len(case["objs"])]
        if "abc" in r:
            lab.append("merge:abc=" + ("ok" if "ok" in r["abc"] else "conflict"))
        return lab
    lab = ["exec:devices=%d" % len(case["devices"]), "exec:rules=%d" % len(case["rules"]), "exec:perms=%d" % len(perms_for(case))]
    for rl in case["rules"]:
        lab.append("rule:" + rl["kind"] + (":" + rl.get("pp", "united") if rl["kind"] == "direct" else ""))
        if rl.get("filters"):
            lab.append("rule:filtered")
    if case.get("short"):
        lab.append("exec:short-names")
    if _is_glue(case):
        lab += _glue_stats(case, r)
    for v in r.get("dev", {}).values():
        e = v["exec"]
        lab.append("dev:" + ("peers=%d" % min(len(e["ok"]["peers"]), 6) if "ok" in e else e["err"]))
        lab.append("dev:globals=" + ("ok" if "ok" in v["globals"] else v["globals"]["err"]))
        if "ok" in e:
            for c in e["ok"]["calls"]:
                if c["c"] != "addr":
                    lab.append("iface:" + c["c"])
    return lab


def _glue_stats(case, r):
    from harness import c15glue as G
    lab = ["glue:" + case["fam"]]
    if any(d.get("nbr_dup") for d in case["devices"]):
        lab.append("glue:neighbour-listed-once-per-link")
    if "injected" in case:
        lab.append("glue:conflicting-value-injected")
    twin_hub = par = False
    for d in case["devices"]:
        nb = G.neighbours(d)
        if len({G.short_of(n) for n in nb}) < len(nb):
            twin_hub = True
        if any(len(G.conns(case["devices"], d["fqdn"], n)) > 1 for n in nb if any(x["fqdn"] == n for x in case["devices"])):
            par = True
    if twin_hub:
        lab.append("glue:device-with-neighbours-sharing-a-short-name" + ("(match_short_name)" if case.get("short") else "(fqdn matching)"))
    if par:
        lab.append("glue:parallel-links")
    exp = G.expect(case)
    if any(e is None for e in exp.values()):
        lab.append("glue:device-outside-reference-domain")
    nid = 0
    both = difft = False
    for a, e in exp.items():
        if e is None:
            continue
        lab.append("glue:expect=" + ("conflict" if e["conflict"] else "sessions=%d" % min(len(e["sessions"]), 6)))
        for s in e["sessions"]:
            nid = max(nid, len(s["idents"]))
            rules_hit = [ri for ri, _ in s["idents"]]
            both = both or len(set(rules_hit)) < len(rules_hit)
            if len({(case["rules"][ri]["left"], case["rules"][ri]["right"]) for ri in rules_hit}) > 1:
                difft = True
    lab.append("glue:max-matches-per-key=%d" % nid)
    if difft:
        lab.append("glue:key-hit-through-different-templates")
    if both:
        lab.append("glue:key-hit-in-both-orientations-of-one-rule")
    return lab


def _without(lst, i):
    return lst[:i] + lst[i + 1:]


def _drop_link_candidates(case):
    """remove one physical link: both interface entries and the port pair in the handler rows' keys"""
    for di, d in enumerate(case["devices"]):
        for f in d["ifaces"]:
            if f[1] is None or d["fqdn"] > f[1]:
                continue
            a, pa, b, pb = d["fqdn"], f[0], f[1], f[2]
            devs = []
            for x in case["devices"]:
                if x["fqdn"] == a:
                    devs.append(dict(x, ifaces=[g for g in x["ifaces"] if not (g[0] == pa and g[1] == b)]))
                elif x["fqdn"] == b:
                    devs.append(dict(x, ifaces=[g for g in x["ifaces"] if not (g[0] == pb and g[1] == a)]))
                else:
                    devs.append(x)
            rules = []
            for rl in case["rules"]:
                h = []
                for e in rl.get("h", []):
                    if e.get("ports") and {e.get("l"), e.get("r")} == {a, b}:
                        gone = [pa, pb] if e["l"] == a else [pb, pa]
                        ports = [p for p in e["ports"] if p != gone]
                        if not ports:
                            continue
                        e = dict(e, ports=ports)
                    h.append(e)
                rules.append(dict(rl, h=h))
            yield dict(case, devices=devs, rules=rules)


def shrink_candidates(case):
    if case["kind"] == "merge":
        for i, o in enumerate(case["objs"]):
            for k in o:
                objs = [dict(x) for x in case["objs"]]
                del objs[i][k]
                yield dict(case, objs=objs)
        return
    for i in range(len(case["rules"])):
        if len(case["rules"]) > 1:
            yield dict(case, rules=_without(case["rules"], i))
    if _is_glue(case):
        if any(d.get("nbr_dup") for d in case["devices"]):
            yield dict(case, devices=[{k: v for k, v in d.items() if k != "nbr_dup"} for d in case["devices"]])
    for i, d in enumerate(case["devices"]):
        if len(case["devices"]) > 2:
            gone = d["fqdn"]
            devs = [dict(x, ifaces=[f for f in x["ifaces"] if f[1] != gone]) for x in _without(case["devices"], i)]
            rules = []
            for rl in case["rules"]:
                h = [e for e in rl["h"] if gone not in (e.get("l"), e.get("r"), e.get("dev"))]
                rules.append(dict(rl, h=h))
            yield dict(case, devices=devs, rules=rules)
    for ri, rl in enumerate(case["rules"]):
        for ei in range(len(rl["h"])):
            rules = list(case["rules"])
            rules[ri] = dict(rl, h=_without(rl["h"], ei))
            yield dict(case, rules=rules)
    for ri, rl in enumerate(case["rules"]):
        if rl.get("filters"):
            rules = list(case["rules"])
            rules[ri] = dict(rl, filters=[])
            yield dict(case, rules=rules)
        for ei, e in enumerate(rl["h"]):
            for side in ("left", "right", "session"):
                for k in list(e.get(side, {})):
                    if k == "addr":
                        continue
                    e2 = dict(e)
                    e2[side] = {a: b for a, b in e[side].items() if a != k}
                    rules = list(case["rules"])
                    rules[ri] = dict(rl, h=rl["h"][:ei] + [e2] + rl["h"][ei + 1:])
                    yield dict(case, rules=rules)
            if rl["kind"] == "device":
                for si in range(len(e["set"])):
                    e2 = dict(e, set=_without(e["set"], si))
                    rules = list(case["rules"])
                    rules[ri] = dict(rl, h=rl["h"][:ei] + [e2] + rl["h"][ei + 1:])
                    yield dict(case, rules=rules)
    if _is_glue(case):
        yield from _drop_link_candidates(case)
    for di, d in enumerate(case["devices"]):
        for fi, f in enumerate(d["ifaces"]):
            if f[1] is None:
                devs = list(case["devices"])
                devs[di] = dict(d, ifaces=_without(d["ifaces"], fi))
                yield dict(case, devices=devs)


def search(case):
    """neighbours of a disagreeing case: same topology, freshly drawn handler tables."""
    if case["kind"] != "exec":
        rng = random.Random(len(_jkey(case)))
        for _ in range(100):
            yield gen_merge_case(rng)
        return
    rng = random.Random(len(_jkey(case)))
    topo = (case["devices"], _links_of(case["devices"]))
    for _ in range(40):
        yield gen_exec_case(rng, topo=topo)


# ----------------------------------------------------------------------------------------------
# the hypotheses of the theorems, checked against the shipped classes on every run
# ----------------------------------------------------------------------------------------------

def _mergers_in(t):
    for f, m in t:
        yield m if isinstance(m, str) else ("merge" if "merge" in m else "dictMerge")
        if isinstance(m, dict):
            if "merge" in m:
                yield from _mergers_in(m["merge"])
            else:
                vm = m["dictMerge"]
                while isinstance(vm, dict) and "dictMerge" in vm:
                    yield "dictMerge"
                    vm = vm["dictMerge"]
                if isinstance(vm, dict):
                    yield "merge"
                    yield from _mergers_in(vm["merge"])
                else:
                    yield vm


def extra(tier, seed, ctx):
    """`(Merger.merge dto).WF/.Sym/.DictFree`, `("addr", forbidChange) ∈ dto`, … are hypotheses of the
    executor theorems; `.WF/.SymD` of the merge-fold theorem.  They are facts about the shipped classes."""
    from annet.mesh.peer_models import DirectPeerDTO, IndirectPeerDTO
    from annet.mesh.device_models import GlobalOptionsDTO
    fails = []
    checked = {}
    for cls in (DirectPeerDTO, IndirectPeerDTO):
        t = table_of(cls)
        ms = set(_mergers_in(t))
        d = dict((f, m) for f, m in t)
        ok = {"Sym (no UseFirst/UseLast)": not ({"useFirst", "useLast"} & ms),
              "DictFree": "dictMerge" not in ms,
              "WF (distinct field names)": len(d) == len(t),
              "addr: ForbidChange": d.get("addr") == "forbidChange",
              "asnum: ForbidChange": d.get("asnum") == "forbidChange",
              "vrf: ForbidChange": d.get("vrf") == "forbidChange",
              "families: Unite": d.get("families") == "unite"}
        checked[cls.__name__] = ok
        for k, v in ok.items():
            if not v:
                fails.append("hypothesis of the C15 executor theorems no longer holds for %s: %s" % (cls.__name__, k))
    t = table_of(GlobalOptionsDTO)
    ms = set(_mergers_in(t))
    ok = {"SymD (no UseFirst/UseLast)": not ({"useFirst", "useLast"} & ms)}
    checked["GlobalOptionsDTO"] = ok
    if not ok["SymD (no UseFirst/UseLast)"]:
        fails.append("hypothesis of C15_merge_many_order_independent no longer holds for GlobalOptionsDTO: SymD")
    from annet.mesh.executor import Pair
    pt = dict(table_of_pair(Pair))
    okp = {"local: Merge": pt.get("local") == "merge", "connected: Merge": pt.get("connected") == "merge",
           "device: UseLast": pt.get("device") == "useLast", "ports: ForbidChange": pt.get("ports") == "forbidChange"}
    checked["Pair"] = okp
    for k, v in okp.items():
        if not v:
            fails.append("Model.mergePair no longer mirrors executor.Pair: %s" % k)
    return {"violations": [], "tie_failures": fails, "coverage": {"theorem_hypotheses_checked": checked}}


def table_of_pair(cls):
    from annet.mesh import basemodel as bm
    names = {bm.ForbidChange: "forbidChange", bm.UseLast: "useLast", bm.UseFirst: "useFirst", bm.Merge: "merge",
             bm.Forbid: "forbid", bm.Unite: "unite", bm.Concat: "concat", bm.DictMerge: "dictMerge"}
    return [[f, names.get(type(m), type(m).__name__)] for f, m in cls._field_mergers.items()]
