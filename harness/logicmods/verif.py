"""Test-only %logic functions served to annet through RulebookProvider.get_root_modules() (no edit of /repo).
They stand for the vendor logics that look at buckets other than ADDED/REMOVED (huawei vlan lists and prefix lists,
aruba ap-env): C16 and C20 quantify over such logics."""
from annet.annlib.types import Op


def sensitive(rule, key, diff, **_):
    """removes one of several lines of a key by name, but the whole key ('… all') when no unchanged sibling is left"""
    if diff[Op.REMOVED] and not diff[Op.ADDED] and not diff[Op.AFFECTED] and not diff[Op.MOVED]:
        if diff[Op.UNCHANGED]:
            for it in diff[Op.REMOVED]:
                yield (False, rule["reverse"].format(*key) + " only " + it["row"].split(" ")[-1], None)
        else:
            yield (False, rule["reverse"].format(*key) + " all", None)
        return
    for op in (Op.ADDED, Op.MOVED, Op.AFFECTED):
        for it in diff[op]:
            yield (True, it["row"], it["children"])
    if diff[Op.REMOVED]:
        yield (False, rule["reverse"].format(*key), None)


def always(rule, key, diff, **_):
    """re-sends a refresh command for a key even when all its lines are unchanged (cf. aruba.ap_env.wifi_arm)"""
    rows = [it["row"] for op in (Op.UNCHANGED, Op.ADDED, Op.AFFECTED, Op.MOVED) for it in diff[op]]
    if rows:
        yield (True, "refresh " + rows[0], None)
    if diff[Op.REMOVED] and not rows:
        yield (False, rule["reverse"].format(*key), None)


def mutating(rule, key, diff, **_):
    """a badly behaved logic: writes into its rule and diff arguments (C20: must not leak into later jobs)"""
    rule["reverse"] = rule["reverse"].replace("{}", "{}") + ""
    rule["comment"] = list(rule.get("comment", [])) + ["touched"]
    if diff[Op.REMOVED]:
        diff[Op.AFFECTED] = list(diff[Op.AFFECTED])
        yield (False, rule["reverse"].format(*key), None)
        diff[Op.REMOVED] = []
    for op in (Op.ADDED, Op.MOVED, Op.AFFECTED):
        for it in diff[op]:
            yield (True, it["row"], it["children"])
