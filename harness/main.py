import argparse
import os
import sys

sys.path.insert(0, os.environ.get("ANNET_REPO", "/repo"))
sys.setrecursionlimit(10000)


def main():
    ap = argparse.ArgumentParser()
    ap.add_argument("prop")
    ap.add_argument("--tier", default=os.environ.get("VERIF_TIER", "quick"), choices=["quick", "thorough"])
    ap.add_argument("--replay")
    a = ap.parse_args()
    seed = int(os.environ.get("VERIF_SEED", "0") or 0)
    from harness.core import runner
    try:
        rc = runner.run(a.prop.upper(), a.tier, seed, a.replay)
    except Exception as exc:
        import traceback
        tb = traceback.format_exc()
        sys.stdout.write(tb)
        repo = os.path.realpath(os.environ.get("ANNET_REPO", "/repo"))
        frames = traceback.extract_tb(exc.__traceback__)
        in_repo = any(os.path.realpath(f.filename).startswith(repo + os.sep) for f in frames) or (repo + os.sep) in tb
        if in_repo and not a.replay:
            # the code under test raised where the harness has no case to blame (set-up, generation, translation, a
            # helper process): the correspondence cannot be established, so the property is not shown to hold
            from harness.core import runner as _r
            path = _r.write_replay(a.prop.upper(), "unproved", dict(
                property=a.prop.upper(), kind="no-failing-input-found",
                correspondence="the check could not run: the code under test raised outside a generated case",
                traceback=tb[-4000:]))
            print("\nVIOLATION property=%s replay=%s no-failing-input-found" % (a.prop.upper(), path))
            rc = 1
        else:
            print("INFRA-ERROR: check crashed")
            rc = 2
    sys.stdout.flush()
    os._exit(rc)


if __name__ == "__main__":
    main()
