import argparse
import os
import sys

sys.path.insert(0, os.environ.get("ANNET_REPO", "/repo"))
sys.setrecursionlimit(10000)


def main():
    ap = argparse.ArgumentParser()
    ap.add_argument("prop")
    ap.add_argument("--tier", default=os.environ.get("VERIF_TIER", "quick"), choices=["quick", "thorough"])
    ap.add_argument("--replay")
    a = ap.parse_args()
    seed = int(os.environ.get("VERIF_SEED", "0") or 0)
    from harness.core import runner
    try:
        rc = runner.run(a.prop.upper(), a.tier, seed, a.replay)
    except Exception:
        import traceback
        traceback.print_exc()
        print("INFRA-ERROR: check crashed")
        rc = 2
    sys.stdout.flush()
    os._exit(rc)


if __name__ == "__main__":
    main()
