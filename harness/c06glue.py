"""C06 — the glue around apply_acl: the filter ACL of `ann gen/diff/patch` and the merged ACL text of the generators.

Two families of cases, both evaluated on the REAL glue code:

kind "fglue" (filter ACL): annet.gen.build_filter_text / build_filter_acl inside annet.gen._old_new_per_device, with a
    Filterer stub, --filter-acl as a file / a directory with <host>.acl / stdin text, -i / -fp / -frp parts, texts that
    are empty, blank, comment-only or hold rules (margins, comments, blank lines, ignore rules, %global children).
    Oracle: with A = the filter text that was requested, the old / new trees that leave the glue are ref_filter(t, A),
    t = what leaves the same glue when no filter is requested; an empty A passes nothing.

kind "aglue" (merged generator ACL): RunGeneratorResult.acl_text() / _combine_acl_text over 1-3 generator results whose
    ACL texts are written the ways generators write them (triple-quoted with a margin, with / without the leading
    newline, first line unindented, tabs, blank and whitespace-only lines, comments, pieces with different margins),
    applied directly or through _old_new_per_device.  Oracle: apply_acl(t, compile(acl_text())) contains everything
    apply_acl(t, compile(dedent(text_i))) passes (merge law) and equals ref_filter(t, union of the texts' rules).

ref_filter is an independent reading (own offside parser of the ACL text, own word matcher, 'a path is covered iff every
row on it matches a rule of the level it is at, %global rules reaching every depth below the level they stand at') that
is defined on the unambiguous part of the ACL language only (see ref_filter); outside it the direct expression of the
property's observation point, apply_acl(t, compile_acl_text(dedent(A))), is the reference for the glue.
"""
import json
import os
import re
import shutil
import tempfile
import textwrap
import types
from collections import OrderedDict as odict

# vendor -> (hardware model, negation word, juniper?, indent unit of the device config text)
VENDORS = {
    "huawei": ("Huawei", "undo", False, " "),
    "arista": ("Arista", "no", False, "   "),
    "nexus": ("Cisco Nexus", "no", False, "  "),
    "b4com": ("B4com", "no", False, " "),
}
NOUNS = ["interface", "vlan", "ip", "description", "mtu", "bgp", "peer", "address", "shutdown", "port", "snmp-agent"]
VALS = ["Eth1", "Eth2", "10", "20", "foo", "1.1.1.1", "x", "10GE1/0/1", "9000"]


class OutOfDomain(Exception):
    """the text is outside the part of the ACL language the reference reads (or is not an ACL text at all)"""


class Ambiguous(Exception):
    """two readings of 'covered' are possible (competing rules / negated forms): ref_filter is not defined here"""


# ===================================================================== reference reading of an ACL text
_WORD = re.compile(r"^[A-Za-z0-9_/:-]+$")


def _ref_rule(stripped):
    parts = re.split(r"\s%", stripped, maxsplit=1)
    body = parts[0]
    node = dict(glob=False, ignore=False, prio=0, cd=None, names=[], children=[])
    if len(parts) > 1:
        for tok in ("%" + parts[1]).split():
            if not tok.startswith("%"):
                raise OutOfDomain("text after a parameter: %r" % stripped)
            key, _, val = tok[1:].partition("=")
            if key == "global":
                if val not in ("", "0", "1"):
                    raise OutOfDomain(tok)
                node["glob"] = val != "0"
            elif key == "prio":
                if not val.isdigit():
                    raise OutOfDomain(tok)
                node["prio"] = int(val)
            elif key == "cant_delete":
                if not val or any(x not in ("0", "1") for x in val.split(",")):
                    raise OutOfDomain(tok)
                node["cd"] = [x == "1" for x in val.split(",")]
            elif key == "generator_names":
                node["names"] = [x for x in val.split(",") if x]
            else:
                raise OutOfDomain(tok)
    elif "%" in body:
        raise OutOfDomain(stripped)
    row = re.sub(r"\s+", " ", body.strip())
    if row.startswith("!"):
        node["ignore"] = True
        row = row[1:].strip()
        if not row:
            return None
    words = row.split(" ")
    for i, w in enumerate(words):
        if w == "*" or (w == "~" and i == len(words) - 1) or _WORD.match(w):
            continue
        raise OutOfDomain("rule word %r" % w)
    node["words"] = words
    return node


def ref_parse_acl(text):
    """An ACL text (already dedented) -> rule forest [{words, glob, ignore, prio, cd, names, children}].
    Offside rule: a rule line indented deeper than the line before it is its child, an equally indented one its sibling,
    a shallower one closes blocks and must meet an open level exactly.  Blank lines and lines whose first non-blank
    character is '#' are skipped.  A '#' in column 0 closes every block; the reference only reads texts where the next
    rule is at the text's left margin anyway.  Rules below a %global or an ignore rule are outside the language."""
    roots = []
    stack = []          # [(indent, list the rules of this indent go to)]
    prev = None
    margin = None
    closed = False
    for raw in text.split("\n"):
        s = raw.strip()
        if not s:
            continue
        if s.startswith("#"):
            if raw.startswith("#"):
                closed = True
            continue
        ind = len(raw) - len(raw.lstrip(" \t"))
        if margin is None:
            margin = ind
        if ind < margin:
            raise OutOfDomain("line left of the first line: %r" % raw)
        if closed and ind != margin:
            raise OutOfDomain("a block continues after a column-0 comment")
        closed = False
        if not stack:
            stack = [(ind, roots)]
        elif ind > stack[-1][0]:
            if prev is None or prev["glob"] or prev["ignore"]:
                raise OutOfDomain("rules below a %global / ignore rule")
            stack.append((ind, prev["children"]))
        else:
            while stack and stack[-1][0] > ind:
                stack.pop()
            if not stack or stack[-1][0] != ind:
                raise OutOfDomain("inconsistent indentation: %r" % raw)
        node = _ref_rule(s)
        if node is None:
            prev = None
            continue
        stack[-1][1].append(node)
        prev = node
    return roots


def rule_matches(words, rw):
    """rule words against the words of a config row: literal words one by one, * = any one word, a final ~ = a
    non-empty rest; a rule without ~ matches every row it is a word-prefix of"""
    if words[-1] == "~":
        words = words[:-1]
        if len(rw) < len(words) + 1:
            return False
    elif len(rw) < len(words):
        return False
    return all(w == "*" or w == r for w, r in zip(words, rw))


def _walk_rules(rules):
    for r in rules:
        yield r
        yield from _walk_rules(r["children"])




def ref_filter(tree, rules, reverse, _inherited=None):
    """THE reference filter of the property: the order-preserving sub-tree of `tree` holding precisely the rows whose
    whole path is covered - every row on the path matches a (non-ignore) rule of the level it is at, where the rules of
    a level are the children of the rules the parent row matched plus every %global rule met on the way down.
    Defined (else Ambiguous) when no row is in negated form, no rule row starts with the negation word, no row matches
    both an ignore and a normal rule, and no row with children matches both a %global rule and a local rule that has
    children rules (which of the two readings applies is what F06a/F06d are about)."""
    if _inherited is None:
        for r in _walk_rules(rules):
            if r["words"][0] == reverse:
                raise Ambiguous("rule in negated form")
    globs = list(_inherited or []) + [r for r in rules if r["glob"]]
    locs = [r for r in rules if not r["glob"]]
    out = []
    for row, ch in tree:
        rw = row.split()
        if " ".join(rw) != row:
            raise Ambiguous("row not in normal form")
        if rw[0] == reverse:
            raise Ambiguous("row in negated form")
        lm = [r for r in locs if rule_matches(r["words"], rw)]
        gm = [r for r in globs if rule_matches(r["words"], rw)]
        normal = [r for r in lm + gm if not r["ignore"]]
        if not normal:
            continue
        if len(normal) != len(lm) + len(gm):
            raise Ambiguous("ignore rule and normal rule match the same row")
        below = [c for r in lm for c in r["children"]]
        if gm and below:
            if ch:
                raise Ambiguous("%global rule and local rule with children match the same row")
            below = []
        out.append([row, ref_filter(ch, below, reverse, globs) if ch else []])
    return out


def forest_sig(rules):
    return [[" ".join(r["words"]), r["glob"], r["ignore"], r["prio"], r["cd"], list(r["names"]), forest_sig(r["children"])]
            for r in rules]


def tag(rules, name):
    return [dict(r, names=[name], children=tag(r["children"], name)) for r in rules]


def count_rules(rules):
    return sum(1 + count_rules(r["children"]) for r in rules)


# ===================================================================== small tree helpers
def to_odict(t):
    return odict((k, to_odict(c)) for k, c in t)


def to_list(d):
    return [[k, to_list(c)] for k, c in d.items()]


def paths(t, pre=()):
    out = []
    for k, c in t:
        out.append(pre + (k,))
        out.extend(paths(c, pre + (k,)))
    return out


def render_config(tree, unit, depth=0):
    out = []
    for row, ch in tree:
        out.append(unit * depth + row)
        out.extend(render_config(ch, unit, depth + 1))
    return out


def _key(case):
    return json.dumps(case, sort_keys=True)


# ===================================================================== generation: rule forests, texts, trees
def gen_rule_row(rng, prof, pre):
    ws = [rng.choice(NOUNS)]
    for _ in range(rng.choice([0, 1, 1, 2])):
        ws.append(rng.choice(NOUNS + [v for v in VALS if "." not in v] + ["*", "*", "*"]))
    r = rng.random()
    if r < 0.22:
        ws.append("~")
    elif r < 0.27:
        ws = ["~"]
    if rng.random() < prof["neg"]:
        ws.insert(0, pre)
    return " ".join(ws)


def gen_rules(rng, prof, pre, depth=0, maxdepth=3):
    """rule forest as nodes {row, params, children}"""
    out = []
    seen = set()
    for _ in range(rng.randint(1, 3 if depth == 0 else 2) + (1 if rng.random() < 0.3 else 0)):
        row = gen_rule_row(rng, prof, pre)
        if row in seen:
            continue
        seen.add(row)
        params = []
        is_global = rng.random() < prof["global"]
        if is_global:
            params.append(rng.choice(["%global", "%global", "%global=1"]))
        if rng.random() < prof["cd"]:
            params.append("%cant_delete=" + rng.choice(["0", "1"]))
        if rng.random() < prof["prio"]:
            params.append("%prio=" + str(rng.randint(0, 3)))
        ch = []
        if not is_global and depth < maxdepth - 1 and rng.random() < prof["nest"]:
            ch = gen_rules(rng, prof, pre, depth + 1, maxdepth)
        out.append(dict(row=row, params=params, children=ch))
    return out


def rule_lines(nodes, depth=0):
    out = []
    for n in nodes:
        out.append((depth, n["row"] + ("  " + " ".join(n["params"]) if n["params"] else "")))
        out.extend(rule_lines(n["children"], depth + 1))
    return out


ACL_STYLES = ["tq", "tq", "tq", "tq-first-unindented", "tq-first-unindented", "flat", "flat", "flat-nonl", "flat-blank",
              "tabs", "ws-first-line", "comments", "pieces", "trailing-ws"]


def render_acl(rng, lines, style):
    """an ACL text the way generators write them; lines = [(depth, rule text)]"""
    if not lines:
        return rng.choice(["", "", "\n", "\n        "])
    unit = rng.choice(["    ", "    ", "  "])
    margin = rng.choice(["        ", "        ", "    ", "            "])
    if style == "tq":
        return "\n" + "\n".join(margin + unit * d + t for d, t in lines) + "\n" + margin[:-4]
    if style == "tq-first-unindented":
        # """interface *
        #        description ~
        #    """
        return lines[0][1] + "\n" + "".join(margin + unit * d + t + "\n" for d, t in lines[1:]) + margin[:-4]
    if style == "flat":
        return "".join(unit * d + t + "\n" for d, t in lines)
    if style == "flat-nonl":
        return "\n".join(unit * d + t for d, t in lines)
    if style == "flat-blank":
        body = [unit * d + t for d, t in lines]
        for _ in range(rng.randint(1, 2)):
            body.insert(rng.randint(0, len(body)), rng.choice(["", "   ", "\t", "      "]))
        return "\n".join(body) + "\n"
    if style == "tabs":
        return "\n" + "".join("\t\t" + "\t" * d + t + "\n" for d, t in lines) + "\t"
    if style == "ws-first-line":
        return rng.choice(["  ", "                ", "\t"]) + "\n" + "".join(margin + unit * d + t + "\n" for d, t in lines)
    if style == "comments":
        body = []
        for d, t in lines:
            r = rng.random()
            if r < 0.25 and d == 0:
                body.append(margin + "# " + rng.choice(["owned by this generator", "see NOC-1", "interface *"]))
            elif r < 0.4:
                body.append(margin + unit * (d + 1) + "# " + rng.choice(["x", "description ~", "%global"]))
            body.append(margin + unit * d + t)
        return "\n" + "\n".join(body) + "\n" + margin[:-4]
    if style == "pieces":
        # two pieces written with different margins (the second one deeper by one unit)
        k = rng.choice([i for i in range(1, len(lines) + 1) if i == len(lines) or lines[i][0] == 0])
        return "\n" + "".join(margin + "    " * d + t + "\n" for d, t in lines[:k]) + \
            "".join(margin + "    " + "    " * d + t + "\n" for d, t in lines[k:])
    if style == "trailing-ws":
        return "\n" + "".join(margin + unit * d + t.replace("  %", rng.choice(["\t%", "   %", " %"]), 1) + rng.choice(["", " ", "  ", "\t"]) + "\n"
                              for d, t in lines) + margin
    raise ValueError(style)


def inst(rng, words):
    ws = []
    for w in words:
        if w == "*":
            ws.append(rng.choice(VALS))
        elif w == "~":
            ws.extend(rng.choice(VALS + NOUNS) for _ in range(rng.randint(1, 2)))
        else:
            ws.append(w)
    return " ".join(ws)


def tree_from_rules(rng, level, globs, pre, noise, depth=0):
    """a configuration that walks the rule forest: rows instantiate rules of the level they are at (children below them
    instantiate the children rules), plus uncovered rows, rows that are longer than a rule, negated rows"""
    globs = globs + [r for r in level if r["glob"]]
    cands = [r for r in level if not r["glob"]] + globs
    t = []
    seen = set()
    for _ in range(rng.randint(1, 4 if depth == 0 else 3)):
        r = rng.random()
        rule = None
        if cands and r < 0.72:
            rule = rng.choice(cands)
            row = inst(rng, rule["words"])
            if rng.random() < 0.15 and rule["words"][-1] != "~":
                row += " " + rng.choice(VALS + NOUNS)       # a row the rule is a word-prefix of
        elif cands and r < 0.72 + noise["neg"]:
            rule = rng.choice(cands)
            row = pre + " " + inst(rng, rule["words"])
        else:
            row = " ".join([rng.choice(NOUNS)] + [rng.choice(NOUNS + VALS) for _ in range(rng.randint(0, 2))])
        if row in seen:
            continue
        seen.add(row)
        ch = []
        if depth < 3 and rng.random() < (0.65 if rule and rule["children"] else 0.3):
            below = rule["children"] if rule and not rule["glob"] and not row.startswith(pre + " ") else []
            ch = tree_from_rules(rng, below, globs, pre, noise, depth + 1)
        t.append([row, ch])
    return t


PROFILES = {
    "simple": dict(neg=0.0, cd=0.1, prio=0.0, nest=0.6, **{"global": 0.06}),
    "full": dict(neg=0.06, cd=0.3, prio=0.15, nest=0.5, **{"global": 0.15}),
}


def gen_aglue(rng):
    vendor = rng.choice(["huawei", "huawei", "arista", "nexus", "b4com"])
    pre = VENDORS[vendor][1]
    pname = "simple" if rng.random() < 0.65 else "full"
    prof = PROFILES[pname]
    ngen = rng.choice([1, 2, 2, 2, 3])
    forests = [gen_rules(rng, prof, pre) for _ in range(ngen)]
    for k in range(1, ngen):
        if rng.random() < 0.45:
            # overlapping generators: the same top-level row with other children rules
            src = rng.choice(forests[0])
            if "%global" not in " ".join(src["params"]):
                forests[k].insert(rng.randint(0, len(forests[k])),
                                  dict(row=src["row"], params=[], children=gen_rules(rng, prof, pre, 1)))
    texts, styles = [], []
    for f in forests:
        if ngen > 1 and rng.random() < 0.04:
            f = []
        st = rng.choice(ACL_STYLES)
        if st == "tq-first-unindented" and f and f[0]["children"]:
            f = f[:1]           # the first line is at column 0, its block is indented by the margin: one block only
        styles.append(st if f else "empty")
        texts.append(render_acl(rng, rule_lines(f), st))
    union = []
    for t in texts:
        try:
            union += ref_parse_acl(textwrap.dedent(t))
        except OutOfDomain:
            pass
    noise = dict(neg=0.0 if pname == "simple" else 0.08)
    tree = tree_from_rules(rng, union, [], pre, noise)
    via = "oldnew" if rng.random() < 0.3 and not _has_odd_rows(tree) else rng.choice(["result", "result", "result", "result-safe"])
    return dict(kind="aglue", vendor=vendor, texts=texts, names=["G%d" % i for i in range(ngen)], tree=tree, via=via,
                styles=styles, profile=pname)


def _has_odd_rows(tree):
    return any(p[-1] != " ".join(p[-1].split()) for p in paths(tree))


# ---------------------------------------------------------------------- filter glue cases
def gen_cfg_tree(rng, pool, depth=0):
    t = []
    seen = set()
    for _ in range(rng.randint(2, 4) if depth == 0 else rng.randint(1, 3)):
        if pool[depth] and rng.random() < 0.6:
            row = rng.choice(pool[depth])
        else:
            row = " ".join([rng.choice(NOUNS)] + [rng.choice(VALS + NOUNS) for _ in range(rng.choice([0, 1, 1, 2]))])
            pool[depth].append(row)
        if row in seen:
            continue
        seen.add(row)
        ch = gen_cfg_tree(rng, pool, depth + 1) if depth < 2 and rng.random() < (0.6 if depth == 0 else 0.3) else []
        t.append([row, ch])
    return t


def _generalise(rng, row, p_star=0.4):
    ws = row.split(" ")
    out = [ws[0]]
    for w in ws[1:]:
        out.append("*" if rng.random() < p_star or not _WORD.match(w) else w)
    r = rng.random()
    if r < 0.15 and len(out) > 1:
        out = out[:rng.randint(1, len(out) - 1)] + ["~"]
    elif r < 0.2 and len(out) > 1:
        out = out[:-1]
    return " ".join(out)


def rules_from_tree(rng, tree, opts, depth=0):
    """rule nodes that cover (a part of) a configuration tree"""
    groups = odict()
    for row, ch in tree:
        if rng.random() < opts["drop"]:
            continue
        groups.setdefault(_generalise(rng, row), []).extend(ch)
    out = []
    for rr, ch in groups.items():
        params = []
        r = rng.random()
        if rng.random() < opts["cd"]:
            params.append("%cant_delete=" + rng.choice(["0", "1"]))
        if rng.random() < opts["prio"]:
            params.append("%prio=" + str(rng.randint(1, 3)))
        if r < opts["ignore"]:
            # both spellings of the ignore mark: `!row` and `! row` (the shipped arista.rul / cisco.rul use the latter)
            out.append(dict(row=("! " if rng.random() < 0.4 else "!") + rr, params=[], children=[]))
            continue
        if ch and r < opts["ignore"] + opts["allbelow"]:
            out.append(dict(row=rr, params=params, children=[dict(row="~", params=[rng.choice(["%global", "%global=1"])], children=[])]))
            continue
        out.append(dict(row=rr, params=params, children=rules_from_tree(rng, ch, opts, depth + 1) if ch else []))
    if rng.random() < opts["extra"]:
        out.append(dict(row=_generalise(rng, " ".join(rng.choice(NOUNS + VALS[:3]) for _ in range(2))), params=[], children=[]))
    return out


def render_filter_text(rng, nodes, margin=None):
    lines = rule_lines(nodes)
    if not lines:
        return ""
    unit = rng.choice(["    ", "    ", "  ", " ", "\t"])
    if margin is None:
        margin = rng.choice(["", "", "", "    ", "        "])
    body = []
    for d, t in lines:
        r = rng.random()
        if r < 0.06:
            body.append(margin + unit * (d + 1) + "# " + rng.choice(["comment", "interface *", "~ %global"]))
        elif r < 0.1:
            body.append(rng.choice(["", "   "]))
        elif r < 0.14 and d == 0:
            body.append(margin + "# " + rng.choice(["roll out today", "snmp-agent"]))
        body.append(margin + unit * d + t)
    text = "\n".join(body) + rng.choice(["\n", "\n", ""])
    if margin and rng.random() < 0.5:
        text = "\n" + text + margin[:-4]
    return text


NO_RULE_TEXTS = ["\n", "   \n\n", "# nothing to roll out today\n", "\n    # interface *\n", "#\n", "\n\n# a\n# b\n"]


def gen_fglue(rng):
    vendor = rng.choice(["huawei", "huawei", "arista", "nexus", "b4com"])
    pool = [[], [], []]
    old = gen_cfg_tree(rng, pool)
    ngen = rng.choice([1, 1, 2])
    use_acl = rng.random() < 0.5
    gens = []
    new = []
    for gi in range(ngen):
        rows = [x for x in gen_cfg_tree(rng, pool) if x[0] not in [y[0] for y in new]]
        new += rows
        cover = rows + [x for x in old if rng.random() < 0.7]
        acl_nodes = rules_from_tree(rng, cover, dict(drop=0.0, cd=0.1, prio=0.0, ignore=0.0, allbelow=0.1, extra=0.1))
        gens.append(dict(name="G%d" % gi, acl=render_acl(rng, rule_lines(acl_nodes), rng.choice(["tq", "tq", "flat", "comments"])),
                         ops=_ops(rows)))
    # the filter
    both = merge_trees(old, new)
    opts = dict(drop=0.35, cd=0.08, prio=0.06, ignore=0.05, allbelow=0.3, extra=0.2)
    roll = rng.random()
    flt = dict(src="none", text=None, ifaces=None, peers=None, policies=None)
    fkeys = ["ifaces", "peers", "policies"]
    if roll < 0.05:
        kind = "not-requested"
    elif roll < 0.25:
        kind = "empty"                  # requested, every part empty
        flt["src"] = rng.choice(["file", "file", "dir", "none", "none"])
        if flt["src"] != "none":
            flt["text"] = ""
        for k in fkeys:
            if rng.random() < (0.5 if flt["src"] != "none" else 0.8):
                flt[k] = ""
        if flt["src"] == "none" and all(flt[k] is None for k in fkeys):
            flt[rng.choice(fkeys)] = ""
    elif roll < 0.35:
        kind = "no-rules"               # blank / comment-only
        flt["src"] = rng.choice(["file", "stdin", "dir", "none"])
        if flt["src"] != "none":
            flt["text"] = rng.choice(NO_RULE_TEXTS)
        for k in fkeys:
            if rng.random() < (0.25 if flt["src"] != "none" else 0.7):
                flt[k] = rng.choice(NO_RULE_TEXTS + [""])
        if flt["src"] == "none" and all(flt[k] is None or flt[k] == "" for k in fkeys):
            flt[rng.choice(fkeys)] = rng.choice(NO_RULE_TEXTS)
    else:
        kind = "rules"
        nodes = rules_from_tree(rng, both, opts)
        r = rng.random()
        if r < 0.45:
            # one source text, any margin
            flt["src"] = rng.choice(["file", "stdin", "dir"])
            flt["text"] = render_filter_text(rng, nodes)
            if flt["src"] == "stdin" and not flt["text"]:
                flt["src"] = "file"
        else:
            # several parts (file / stdin text and what the Filterer makes of -i / -fp / -frp), all at the left margin
            slots = ["text"] + fkeys if r < 0.8 else fkeys
            use = [s for s in slots if rng.random() < 0.6] or [rng.choice(slots)]
            share = {s: [] for s in use}
            for n in nodes:
                share[rng.choice(use)].append(n)
            for s in use:
                flt[s] = render_filter_text(rng, share[s], margin="")
            if "text" in use:
                flt["src"] = rng.choice(["file", "stdin", "dir"]) if flt["text"] else rng.choice(["file", "dir"])
    return dict(kind="fglue", vendor=vendor, tree=old, gens=gens, new=new, use_acl=use_acl, filter=flt, fkind=kind)


def _ops(rows):
    return [["b", [row], None, _ops(ch)] if ch else ["y", row] for row, ch in rows]


def merge_trees(a, b):
    out = odict()
    for t in (a, b):
        for row, ch in t:
            out.setdefault(row, [])
            out[row] = merge_trees(out[row], ch)
    return [[k, v] for k, v in out.items()]


def requested_parts(flt):
    parts = []
    if flt.get("src", "none") != "none":
        parts.append(flt["text"] or "")
    for k in ("ifaces", "peers", "policies"):
        if flt.get(k) is not None:
            parts.append(flt[k])
    return parts


def filter_text(flt):
    """the filter ACL text A that was requested (None = no filter requested)"""
    parts = requested_parts(flt)
    return "\n".join(p for p in parts if p) if parts else None


# ===================================================================== the real glue
def _setup():
    from harness.props import c10
    c10.setup_worker()
    return c10


def run_filter_glue(case, with_filter=True):
    """annet.gen._old_new_per_device with the filter options of the case -> {"ok": {"old", "new"}} | {"err"}"""
    c10 = _setup()
    from annet import gen as agen
    from annet.filtering import Filterer
    v = VENDORS[case["vendor"]]
    flt = case["filter"] if with_filter else dict(src="none")

    class StubFilterer(Filterer):
        def for_ifaces(self, device, ifnames):
            return flt["ifaces"]

        def for_peers(self, device, peers_allowed):
            return flt["peers"]

        def for_policies(self, device, policies_allowed):
            return flt["policies"]

    dev = c10.StubDevice(v[0])
    dev.id = None
    dev.tags = []
    gens = [c10.make_generator(g["name"], case["vendor"], g["acl"], g["ops"])(dev.storage) for g in case["gens"]]
    cfg_text = "\n".join(render_config(case["tree"], v[3])) + "\n"
    tmp = None
    try:
        src = flt.get("src", "none")
        config, stdin, filter_acl = "-", {"config": cfg_text, "filter_acl": None}, ""
        if src in ("file", "dir"):
            tmp = tempfile.mkdtemp(prefix="c06glue_")
        if src == "file":
            filter_acl = os.path.join(tmp, "filter.acl")
            with open(filter_acl, "w") as f:
                f.write(flt["text"])
        elif src == "stdin":
            filter_acl = "-"
            stdin["filter_acl"] = flt["text"]
        elif src == "dir":
            with open(os.path.join(tmp, dev.hostname + ".cfg"), "w") as f:
                f.write(cfg_text)
            with open(os.path.join(tmp, dev.hostname + ".acl"), "w") as f:
                f.write(flt["text"])
            config, filter_acl = tmp, tmp
            stdin = {"config": None, "filter_acl": None}
        args = types.SimpleNamespace(
            fail_on_empty_config=False, no_acl=not case["use_acl"], acl_safe=False, generators_context=None,
            profile=False, no_acl_exclusive=True, required_packages_check=False, filter_acl=filter_acl,
            filter_ifaces=["x"] if flt.get("ifaces") is not None else [],
            filter_peers=["x"] if flt.get("peers") is not None else [],
            filter_policies=["x"] if flt.get("policies") is not None else [])
        dg = agen.DeviceGenerators(partial={dev: gens}, ref={dev: []})
        ctx = agen.OldNewDeviceContext(
            config=config, args=args, downloaded_files={}, failed_files={}, running={}, failed_running={},
            no_new=False, stdin=stdin, add_annotations=False, add_implicit=False, do_files_download=False,
            gens=dg, fetched_packages={}, failed_packages={}, device_count=1, do_print_perf=False)
        try:
            res = agen._old_new_per_device(ctx, dev, StubFilterer())
        except Exception as e:  # noqa
            c = e.__cause__
            return {"err": type(e).__name__, "msg": (str(c) if c is not None else str(e))[:200]}
        if res.err:
            return {"err": "result.err", "msg": repr(res.err)[:200]}
        return {"ok": {"old": to_list(res.old), "new": to_list(res.new)}}
    finally:
        if tmp:
            shutil.rmtree(tmp, ignore_errors=True)


_BASE = [None, None]


def baseline(case):
    """what leaves the same glue when no filter is requested (one-slot cache: impl, oracle and requests of one case
    follow each other)"""
    k = _key(case)
    if _BASE[0] != k:
        _BASE[0], _BASE[1] = k, run_filter_glue(case, with_filter=False)
    return _BASE[1]


def _partial_result(name, text, vendor, safe):
    from annet.annlib.rbparser.acl import compile_acl_text
    from annet.types import GeneratorPartialResult
    rules = compile_acl_text(textwrap.dedent(text), vendor)
    empty = compile_acl_text("", vendor)
    if safe:
        return GeneratorPartialResult(name=name, tags=[], acl="", acl_rules=empty, acl_safe=text, acl_safe_rules=rules,
                                      output="", config=odict(), safe_config=odict(), perf=None)
    return GeneratorPartialResult(name=name, tags=[], acl=text, acl_rules=rules, acl_safe="", acl_safe_rules=empty,
                                  output="", config=odict(), safe_config=odict(), perf=None)


def real_acl_text(case):
    """RunGeneratorResult.acl_text() (via "result-safe": acl_safe_text()) over the generators' results"""
    _setup()
    from annet.generators.result import RunGeneratorResult
    safe = case["via"] == "result-safe"
    res = RunGeneratorResult()
    for name, text in zip(case["names"], case["texts"]):
        res.add_partial(_partial_result(name, text, case["vendor"], safe))
    return res.acl_safe_text() if safe else res.acl_text()


def run_acl_glue(case):
    c10 = _setup()
    from annet import generators, patching
    vendor = case["vendor"]
    v = VENDORS[vendor]
    try:
        if case["via"] == "oldnew":
            gens = [c10.make_generator(n, vendor, t, []) for n, t in zip(case["names"], case["texts"])]
            cfg_text = "\n".join(render_config(case["tree"], v[3])) + "\n"
            res = c10.run_old_new(v[0], gens, config_text=cfg_text, exclusive=False)
            if res.err:
                return {"err": "result.err", "msg": repr(res.err)[:200]}
            return {"ok": to_list(res.old)}
        text = real_acl_text(case)
        rules = generators.compile_acl_text(text, vendor)        # annet/gen.py: acl_rules of _old_new_per_device
        return {"ok": to_list(patching.apply_acl(to_odict(case["tree"]), rules))}
    except Exception as e:  # noqa
        c = e.__cause__
        return {"err": type(e).__name__, "msg": (str(c) if c is not None else str(e))[:200]}


def combine_ref(texts, names):
    """the merged ACL text as the property reads it: every rule line of dedent(text_i), tagged with its generator"""
    out = ""
    for name, t in zip(names, texts):
        for line in textwrap.dedent(t).split("\n"):
            if line and not line.isspace():
                out += line.rstrip() + "  %%generator_names=%s\n" % name
    return out


# ===================================================================== oracles
def _direct(tree, text, vendor, allow_ignore):
    """the property's observation point: apply_acl(config, compile_acl_text(text, vendor)); None = text rejected"""
    from annet.annlib import patching
    from annet.annlib.rbparser import acl
    try:
        rules = acl.compile_acl_text(text, vendor, allow_ignore=allow_ignore)
    except Exception:  # noqa
        return None
    return to_list(patching.apply_acl(to_odict(tree), rules, fatal_acl=False))


def _ref(tree, text, reverse):
    """(ref_filter(tree, text), number of rules) or (None, why)"""
    try:
        rules = ref_parse_acl(text)
        return ref_filter(tree, rules, reverse), count_rules(rules)
    except OutOfDomain as e:
        return None, "out-of-domain: %s" % e
    except Ambiguous as e:
        return None, "ambiguous: %s" % e


def first_diff(got, want, pre=()):
    g, w = dict((k, c) for k, c in got), dict((k, c) for k, c in want)
    for k, c in got:
        if k not in w:
            return "%r is passed but is not covered" % (" / ".join(pre + (k,)),)
    for k, c in want:
        if k not in g:
            return "%r is covered but is not passed" % (" / ".join(pre + (k,)),)
    for k, c in got:
        d = first_diff(c, w[k], pre + (k,))
        if d:
            return d
    if [k for k, _ in got] != [k for k, _ in want]:
        return "rows below %r are reordered" % (" / ".join(pre),)
    return None


def oracle_fglue(case, r):
    out = []
    base = baseline(case)
    if "ok" not in base:
        return out
    flt = case["filter"]
    a_text = filter_text(flt)
    v = VENDORS[case["vendor"]]
    if a_text is None:
        # no filter requested: nothing is filtered; without generator ACLs the glue hands the configuration through
        if "ok" in r and not case["use_acl"]:
            for side, want in (("old", case["tree"]), ("new", case["new"])):
                if r["ok"][side] != want:
                    out.append(dict(sig="glue-without-acl-and-filter-changes-the-configuration",
                                    what="%s: %s" % (side, first_diff(r["ok"][side], want))))
                    break
        return out
    text = textwrap.dedent(a_text)
    for side in ("old", "new"):
        t = base["ok"][side]
        want, nrules = _ref(t, text, v[1])
        direct = _direct(t, text, case["vendor"], True)
        if direct is None:
            break                               # the filter text is not an ACL text: nothing stated
        if "ok" not in r:
            out.append(dict(sig="filter-glue-raises-on-a-readable-filter",
                            what="filter text %r compiles, the glue returns %r" % (a_text, r)))
            break
        got = r["ok"][side]
        if want is not None and want != direct:
            out.append(dict(sig="apply-acl-differs-from-ref-filter",
                            what="filter text %r on the %s tree: %s" % (a_text, side, first_diff(direct, want))))
            want = None
        if want is not None and got != want:
            if nrules == 0:
                out.append(dict(sig="filter-glue-empty-filter-passes-lines",
                                what="a filter was requested and its text %r holds no rule, so nothing is covered; the %s "
                                     "tree that leaves the glue still holds %d rows: %s"
                                     % (a_text, side, len(paths(got)), first_diff(got, want))))
            else:
                out.append(dict(sig="filter-glue-differs-from-ref-filter",
                                what="filter text %r, %s tree: %s" % (a_text, side, first_diff(got, want))))
            break
        if want is None and got != direct:
            out.append(dict(sig="filter-glue-differs-from-apply-acl-of-the-filter-text",
                            what="filter text %r, %s tree: %s" % (a_text, side, first_diff(got, direct))))
            break
    return out


def oracle_aglue(case, r, classify_merge_loss):
    from annet.annlib import patching
    from annet.annlib.rbparser import acl
    out = []
    vendor, tree, texts, names = case["vendor"], case["tree"], case["texts"], case["names"]
    reverse = VENDORS[vendor][1]
    singles = []
    for t in texts:
        try:
            singles.append(acl.compile_acl_text(textwrap.dedent(t), vendor))
        except Exception:  # noqa
            return out                          # not an ACL text: nothing stated
    try:
        combined = real_acl_text(case)
    except Exception as e:  # noqa
        return [dict(sig="acl-text-merge-raises", what="every text is an ACL text, acl_text() raised %r" % e)]
    if "ok" not in r:
        if r.get("err") in ("ParserError", "GeneratorError", "result.err") or r.get("err", "").startswith("Unexpected"):
            out.append(dict(sig="acl-text-merge-raises",
                            what="every generator's text is an ACL text, the merged text %r gives %r" % (combined, r)))
        return out
    merged = r["ok"]
    # is the merged text's rule forest the union of the generators' rule forests?  (independent reading)
    try:
        union = []
        for n, t in zip(names, texts):
            union += tag(ref_parse_acl(textwrap.dedent(t)), n)
        same = forest_sig(ref_parse_acl(combined)) == forest_sig(union)
    except OutOfDomain:
        union, same = None, None
    # merge law: everything a generator's ACL passes alone, the merged ACL passes
    mset = set(paths(merged))
    for i, rules in enumerate(singles):
        alone = to_list(patching.apply_acl(to_odict(tree), rules))
        lost = [p for p in paths(alone) if p not in mset]
        if lost:
            if same is False:
                sig = "acl-text-merge-drops-lines-a-generator-passes"
                what = ("%r passes the ACL of generator %s alone (text %r) but not the merged ACL: the rule tree of "
                        "acl_text() = %r is not the union of the generators' rule trees" % (lost[0], names[i], texts[i], combined))
            else:
                sig = classify_merge_loss(lost[0], combined, vendor, [combine_ref([t], [n]) for n, t in zip(names, texts)])
                what = "path %r passes generator %s's ACL alone but not the merged ACL" % (lost[0], names[i])
            out.append(dict(sig=sig, what=what))
            break
    # the merged ACL filters like the reference filter of the union of the rules
    if union is not None:
        try:
            want = ref_filter(tree, union, reverse)
        except Ambiguous:
            want = None
        if want is not None and merged != want:
            if same:
                out.append(dict(sig="apply-acl-differs-from-ref-filter",
                                what="merged ACL %r: %s" % (combined, first_diff(merged, want))))
            elif not out:
                out.append(dict(sig="acl-text-merge-differs-from-ref-filter-of-the-union",
                                what="generator texts %r, acl_text() = %r: %s" % (texts, combined, first_diff(merged, want))))
    if out and case["via"] == "oldnew":
        # attribute correctly: the device text must have been read back as the case's tree
        c10 = _setup()
        v = VENDORS[vendor]
        res = c10.run_old_new(v[0], [c10.make_generator("G0", vendor, "", [])],
                              config_text="\n".join(render_config(tree, v[3])) + "\n", acl=False)
        if to_list(res.old) != tree:
            return [dict(sig="harness-config-text-does-not-round-trip", what="%r is read back as %r" % (tree, to_list(res.old)))]
    return out


# ===================================================================== model requests
def raw_trees(text):
    from annet.annlib.rbparser import acl, syntax
    tree = syntax.parse_text(text, acl._PARAMS_SCHEME)

    def conv(t):
        return [dict(row=a["row"], ignore=a["type"] == "ignore", **{"global": bool(a["params"]["global"])},
                     cant_delete=[bool(x) for x in a["params"]["cant_delete"]], prio=int(a["params"]["prio"]),
                     generator_names=list(a["params"]["generator_names"]), children=conv(a["children"]))
                for a in t.values()]
    return [conv(tree)]


def _apply_req(text, vendor, tree):
    v = VENDORS[vendor]
    return dict(op="c06.apply", trees=raw_trees(text), vendor=dict(reverse=v[1], juniper=v[2]), fatal=False,
                exclusive=False, config=tree)


def requests(case, impl_result):
    """the Lean model of compile + apply on the reference reading of the glue's input"""
    if "ok" not in impl_result:
        return []
    try:
        if case["kind"] == "aglue":
            return [_apply_req(combine_ref(case["texts"], case["names"]), case["vendor"], case["tree"])]
        a_text = filter_text(case["filter"])
        base = baseline(case)
        if a_text is None or "ok" not in base:
            return []
        text = textwrap.dedent(a_text)
        return [_apply_req(text, case["vendor"], base["ok"][side]) for side in ("old", "new")]
    except Exception:  # noqa
        return []


def model(case, resp):
    if any(r.get("grammar") is False for r in resp):
        return {"skip": True}
    if any("ok" not in r for r in resp):
        return {"err": "model", "raw": resp}
    if case["kind"] == "aglue":
        return {"ok": resp[0]["ok"]}
    return {"ok": {"old": resp[0]["ok"], "new": resp[1]["ok"]}}


# ===================================================================== evidence labels, shrinking
def nontrivial(case, r):
    if "ok" not in r:
        return False
    if case["kind"] == "aglue":
        n, k = len(paths(case["tree"])), len(paths(r["ok"]))
        return n >= 3 and 0 < k < n and sum(len([l for l in t.split("\n") if l.strip()]) for t in case["texts"]) >= 2
    if filter_text(case["filter"]) is None:
        return False
    base = baseline(case)
    if "ok" not in base:
        return False
    n = len(paths(base["ok"]["old"])) + len(paths(base["ok"]["new"]))
    k = len(paths(r["ok"]["old"])) + len(paths(r["ok"]["new"]))
    return n >= 3 and k < n


def stats(case, r):
    kind = case["kind"]
    lab = ["kind=" + kind, kind + ":vendor=" + case["vendor"], kind + ":result=" + ("ok" if "ok" in r else r["err"])]
    if kind == "aglue":
        lab += ["aglue:via=" + case["via"], "aglue:generators=%d" % len(case["texts"]), "aglue:profile=" + case.get("profile", "?")]
        lab += ["aglue:style=" + s for s in sorted(set(case.get("styles", [])))]
        try:
            union = []
            for t in case["texts"]:
                union += ref_parse_acl(textwrap.dedent(t))
            ref_filter(case["tree"], union, VENDORS[case["vendor"]][1])
            lab.append("aglue:ref-filter=defined")
        except OutOfDomain:
            lab.append("aglue:ref-filter=text-outside-the-reference-reading")
        except Ambiguous:
            lab.append("aglue:ref-filter=ambiguous(apply_acl-of-dedent-texts-only)")
        if "ok" in r:
            lab.append("aglue:kept=%d%%" % (10 * (10 * len(paths(r["ok"])) // max(1, len(paths(case["tree"]))))))
        return lab
    flt = case["filter"]
    a_text = filter_text(flt)
    lab += ["fglue:source=" + flt.get("src", "none"), "fglue:generator-acl=" + ("on" if case["use_acl"] else "off"),
            "fglue:parts=" + ("+".join(k for k in ("text", "ifaces", "peers", "policies")
                                        if (flt.get(k) is not None and (k != "text" or flt.get("src", "none") != "none"))) or "none")]
    if a_text is None:
        lab.append("fglue:filter=not-requested")
    elif a_text == "" or not a_text.strip("\n"):
        lab.append("fglue:filter=requested-and-empty" if not any(requested_parts(flt)) else "fglue:filter=blank")
    else:
        try:
            n = count_rules(ref_parse_acl(textwrap.dedent(a_text)))
            lab.append("fglue:filter=%s" % ("comment-or-blank-only" if n == 0 else "rules"))
        except OutOfDomain:
            lab.append("fglue:filter=text-outside-the-reference-reading")
    base = baseline(case)
    if a_text is not None and "ok" in base and "ok" in r:
        refd = all(_ref(base["ok"][s], textwrap.dedent(a_text), VENDORS[case["vendor"]][1])[0] is not None for s in ("old", "new"))
        lab.append("fglue:ref-filter=" + ("defined" if refd else "ambiguous-or-outside(apply_acl-of-the-text-only)"))
        n = len(paths(base["ok"]["old"])) + len(paths(base["ok"]["new"]))
        k = len(paths(r["ok"]["old"])) + len(paths(r["ok"]["new"]))
        lab.append("fglue:passed=" + ("nothing" if k == 0 else "all" if k == n else "some"))
    return lab


def _drops(tree):
    for i in range(len(tree)):
        yield tree[:i] + tree[i + 1:]
        for sub in _drops(tree[i][1]):
            yield tree[:i] + [[tree[i][0], sub]] + tree[i + 1:]


def _line_drops(text):
    ls = text.split("\n")
    for i in range(len(ls)):
        if ls[i].strip():
            yield "\n".join(ls[:i] + ls[i + 1:])


def shrink_candidates(case):
    if case["kind"] == "aglue":
        n = len(case["texts"])
        if n > 1:
            for i in range(n):
                yield dict(case, texts=case["texts"][:i] + case["texts"][i + 1:], names=case["names"][:i] + case["names"][i + 1:],
                           styles=(case.get("styles") or [None] * n)[:i] + (case.get("styles") or [None] * n)[i + 1:])
        if case["via"] != "result":
            yield dict(case, via="result")
        for nt in _drops(case["tree"]):
            yield dict(case, tree=nt)
        for i, t in enumerate(case["texts"]):
            for nt in _line_drops(t):
                yield dict(case, texts=case["texts"][:i] + [nt] + case["texts"][i + 1:])
        return
    flt = case["filter"]
    for k in ("ifaces", "peers", "policies"):
        if flt.get(k) is not None and len(requested_parts(flt)) > 1:
            yield dict(case, filter=dict(flt, **{k: None}))
    if flt.get("src", "none") != "none" and len(requested_parts(flt)) > 1:
        yield dict(case, filter=dict(flt, src="none", text=None))
    if case["use_acl"]:
        yield dict(case, use_acl=False)
    elif any(g["acl"] for g in case["gens"]):
        yield dict(case, gens=[dict(g, acl="") for g in case["gens"]])
    if len(case["gens"]) > 1:
        g = case["gens"][:-1]
        yield dict(case, gens=g, new=[x for x in case["new"] if any(_yields(op, x[0]) for gg in g for op in gg["ops"])])
    for nt in _drops(case["tree"]):
        if nt:
            yield dict(case, tree=nt)
    for gi, g in enumerate(case["gens"]):
        rows = _rows_of_ops(g["ops"])
        for nr in _drops(rows):
            ng = case["gens"][:gi] + [dict(g, ops=_ops(nr))] + case["gens"][gi + 1:]
            if case["use_acl"]:
                continue
            yield dict(case, gens=ng, new=[x for gg in ng for x in _rows_of_ops(gg["ops"])])
    for k in ("text", "ifaces", "peers", "policies"):
        if flt.get(k):
            for nt in _line_drops(flt[k]):
                if k == "text" and flt["src"] == "stdin" and not nt:
                    continue
                yield dict(case, filter=dict(flt, **{k: nt}))


def _yields(op, row):
    return (op[0] == "y" and op[1] == row) or (op[0] == "b" and op[1] == [row])


def _rows_of_ops(ops):
    return [[op[1], []] if op[0] == "y" else [op[1][0], _rows_of_ops(op[3])] for op in ops]
