"""C03, kind "multiline": the `%multiline` diff logic `common.multiline_diff` (annet/annlib/rulebook/common.py:177-200) behind the
shipped Huawei rule `*/[rd]sa/ peer-public-key * %multiline` (annet/rulebook/texts/huawei.rul:171).

cases   generated old/new Huawei configs (trees; rendered to text and read by the vendor formatter / tabparser.parse_to_tree)
        holding several `rsa|dsa peer-public-key <name>` blocks with 0-3 levels of body rows, blocks removed / added / changed /
        reordered / unchanged, EMPTY bodies with decent frequency, plus a few ordinary rows
impl    patching.make_diff(old, new, shipped Huawei rulebook, []) restricted to the entries of the multiline rows, and the direct
        call common.multiline_diff(group of old, group of new, diff_pre)
model   Annet.Multiline.multilineDiffWith (Model/Multiline.lean) through the driver op `c03.multiline`, rule MULTILINE_RULE
oracle  every block present in exactly one configuration is reported with that op; a block present in both with different bodies
        is reported and its reported body reads back to the new body; unchanged blocks are not reported; all descendants of an
        entry carry one op (REMOVED under a removed entry, ADDED otherwise)
"""
import copy
import re

from harness import rbgen

# "fixed": the model of the code as it is (since the repair 870061c in /repo); "head": the model of the code before it (`old.get(row, {}) == new.get(row, {})`)
# (`row in old and row in new and old[row] == new[row]`)
MULTILINE_RULE = "fixed"

KIND = "multiline"
MODEL = "Huawei CE6870"
ML_ROW = re.compile(r"^[rd]sa peer-public-key \S+$")     # the harness's own reading of `*/[rd]sa/ peer-public-key *`

HEX = ["30820122", "300D0609", "2A864886", "F70D0101", "01050003", "82010F00", "3082010A", "02820101", "00C2F5A1", "9B3D77E0",
       "ABCD0123", "0203", "010001"]
ORDINARY = ["sysname sw1", "sysname sw2", "vlan batch 10 20", "vlan batch 30", "ntp-service source-interface LoopBack0",
            "info-center loghost 10.0.0.1", "undo telnet server enable", "stelnet server enable"]


def is_ml(row):
    return bool(ML_ROW.match(row))


# ------------------------------------------------------------------ generator
def _hexline(rng):
    return " ".join(rng.sample(HEX, rng.randint(1, 3)))


def _uniq_rows(rows):
    seen, out = set(), []
    for r, ch in rows:
        if r not in seen:
            seen.add(r)
            out.append([r, ch])
    return out


def gen_body(rng, p_empty=0.3):
    """0-3 levels of rows below the block header"""
    if rng.random() < p_empty:
        return []
    depth = rng.choice([1, 2, 2, 2, 3])
    if depth == 1:
        rows = [[r, []] for r in ["public-key-code begin", "public-key-code end", "peer-public-key end"] if rng.random() < 0.8]
        return rows or [["peer-public-key end", []]]
    hexes = _uniq_rows([[_hexline(rng), []] for _ in range(rng.randint(0, 4))])
    if depth == 3 and hexes:
        for h in hexes:
            if rng.random() < 0.5:
                h[1] = _uniq_rows([[_hexline(rng), []] for _ in range(rng.randint(1, 2))])
    body = [["public-key-code begin", hexes]]
    if rng.random() < 0.85:
        body.append(["public-key-code end", []])
    if rng.random() < 0.85:
        body.append(["peer-public-key end", []])
    return body


def change_body(rng, body):
    body = copy.deepcopy(body)
    r = rng.random()
    if not body:
        return gen_body(rng, p_empty=0.0)
    if r < 0.2:
        return []                                     # the body disappears, the header stays
    if r < 0.35:
        body.pop(rng.randrange(len(body)))
        return body
    if r < 0.5 and len(body) > 1:
        i = rng.randrange(len(body) - 1)
        body[i], body[i + 1] = body[i + 1], body[i]   # same rows, other order
        return body
    # a change somewhere below
    node = rng.choice(body)
    if node[1] and rng.random() < 0.8:
        sub = node[1]
        q = rng.random()
        if q < 0.4:
            sub[rng.randrange(len(sub))] = [_hexline(rng) + " FF", []]
        elif q < 0.7:
            sub.pop(rng.randrange(len(sub)))
        else:
            sub.insert(rng.randint(0, len(sub)), [_hexline(rng) + " EE", []])
        node[1] = _uniq_rows(sub)
    else:
        node[1] = _uniq_rows(node[1] + [[_hexline(rng) + " DD", []]])
    return body


def gen_case(rng):
    names = rng.sample(["K1", "K2", "K3", "K4", "K5", "K6", "backup", "noc"], rng.randint(1, 5))
    old_blocks = [["%s peer-public-key %s" % (rng.choice(["rsa", "rsa", "dsa"]), n), gen_body(rng)] for n in names]
    new_blocks = []
    for row, body in old_blocks:
        r = rng.random()
        if r < 0.3:
            new_blocks.append([row, copy.deepcopy(body)])        # unchanged
        elif r < 0.55:
            continue                                             # removed
        else:
            new_blocks.append([row, change_body(rng, body)])     # changed
    for n in rng.sample(["N1", "N2", "N3"], rng.choice([0, 0, 1, 1, 2])):
        new_blocks.insert(rng.randint(0, len(new_blocks)), ["%s peer-public-key %s" % (rng.choice(["rsa", "dsa"]), n), gen_body(rng, 0.4)])
    if rng.random() < 0.3:
        rng.shuffle(new_blocks)
    if rng.random() < 0.1:
        old_blocks = []
    if rng.random() < 0.05:
        new_blocks = copy.deepcopy(old_blocks)

    def with_ordinary(blocks):
        rows = list(blocks)
        for o in rng.sample(ORDINARY, rng.randint(0, 3)):
            rows.insert(rng.randint(0, len(rows)), [o, []])
        return _uniq_rows(rows)
    return dict(kind=KIND, old=with_ordinary(old_blocks), new=with_ordinary(new_blocks))


# ------------------------------------------------------------------ the real code
def render(tree, lvl=0):
    lines = []
    for row, ch in tree:
        lines.append(" " * lvl + row)
        lines.extend(render(ch, lvl + 1))
    return lines


def parsed(tree):
    from annet import tabparser
    from annet.vendors import registry_connector
    fmt = registry_connector.get()["huawei"].make_formatter()
    return tabparser.parse_to_tree("\n".join(render(tree)) + "\n", fmt.split)


def rulebook():
    from annet import rulebook as rb_mod
    from annet.annlib.netdev.views.hardware import HardwareView
    return rb_mod.get_rulebook(HardwareView(MODEL, ""))


def triples(items):
    return [[it[0], it[1], triples(it[2])] for it in items]


def group(tree):
    """the rows of the %multiline group of one side, as call_diff_logic hands them over"""
    return [[r, ch] for r, ch in tree if is_ml(r)]


def impl(case):
    from annet.annlib import patching
    from annet.annlib.rulebook import common
    from harness import c03glue
    c03glue.setup()
    rb = rulebook()
    old, new = parsed(case["old"]), parsed(case["new"])
    out = {"old_ml": group(rbgen.to_list(old)), "new_ml": group(rbgen.to_list(new))}
    d = patching.make_diff(old, new, rb, [])
    ml = [it for it in d if is_ml(it[1])]
    out["diff"] = triples(ml)
    out["logic"] = sorted(set(it[3]["attrs"]["diff_logic"].__name__ for it in ml))
    # the diff logic itself, on the group of its rows
    o2, n2 = copy.deepcopy(old), copy.deepcopy(new)
    pre = patching.apply_diff_rb(o2, n2, rb)
    og = type(o2)((r, o2[r]) for r in o2 if is_ml(r))
    ng = type(n2)((r, n2[r]) for r in n2 if is_ml(r))
    try:
        out["raw"] = triples(common.multiline_diff(og, ng, pre))
    except KeyError:
        out["raw"] = {"err": "KeyError"}
    return out


def requests(case):
    return [dict(op="c03.multiline", rule=MULTILINE_RULE, old=group(case["old"]), new=group(case["new"]))]


def model(case, resp):
    r = resp[0]
    out = {"old_ml": group(case["old"]), "new_ml": group(case["new"])}
    if "err" in r:
        out["raw"] = {"err": r["err"]}
        return out
    out["raw"] = r["ok"]
    out["diff"] = r["marked"]
    out["logic"] = ["multiline_diff"] if r["marked"] else []
    return out


# ------------------------------------------------------------------ oracle (the real output only)
def tree_of(children):
    return [[row, tree_of(ch)] for (_op, row, ch) in children]


def ops_below(children, acc=None):
    acc = set() if acc is None else acc
    for op, _row, ch in children:
        acc.add(op)
        ops_below(ch, acc)
    return acc


def oracle(case, r):
    out = []
    if "diff" not in r:
        if "err" in r:
            out.append(dict(sig="multiline-raises", what="make_diff raised %s %s" % (r["err"], r.get("msg", ""))))
        return out
    old = dict((row, ch) for row, ch in group(case["old"]))
    new = dict((row, ch) for row, ch in group(case["new"]))
    # what is reported: make_diff's entries that survive strip_unchanged
    reported = [e for e in r["diff"] if e[0] != "unchanged"]
    by_row = {}
    for e in reported:
        if e[1] in by_row or not (e[1] in old or e[1] in new):
            out.append(dict(sig="multiline-spurious-entry", what="entry %r for a block that is in neither configuration, or a second "
                            "entry for one block" % (e[:2],)))
        by_row[e[1]] = e
    if r.get("logic") not in ([], ["multiline_diff"]):
        out.append(dict(sig="multiline-row-compared-by-other-logic", what="block rows are compared by %r" % (r["logic"],)))
    for row in list(old) + [x for x in new if x not in old]:
        e = by_row.get(row)
        if row in old and row in new:
            if old[row] == new[row]:
                if e is not None:
                    out.append(dict(sig="multiline-unchanged-block-reported", what="%r has the same body on both sides but is "
                                    "reported: %r" % (row, e)))
                continue
            if e is None:
                if not new[row]:
                    out.append(dict(sig="multiline-body-emptied-not-reported", what="%r keeps its header and loses its whole body "
                                    "%r: nothing is reported (AFFECTED entry without children, turned UNCHANGED by mark_unchanged)"
                                    % (row, old[row])))
                else:
                    out.append(dict(sig="multiline-changed-block-not-reported", what="%r: body %r -> %r, nothing is reported"
                                    % (row, old[row], new[row])))
                continue
            if e[0] in ("added", "removed"):
                out.append(dict(sig="multiline-common-block-reported-%s" % e[0], what="%r is in both configurations but is "
                                "reported %s" % (row, e[0])))
            if tree_of(e[2]) != new[row]:
                out.append(dict(sig="multiline-body-readback-differs", what="%r: the reported body reads back to %r, new has %r"
                                % (row, tree_of(e[2]), new[row])))
            want = {"added"}
        else:
            op = "removed" if row in old else "added"
            body = old[row] if row in old else new[row]
            if e is None:
                if not body:
                    out.append(dict(sig="multiline-empty-block-not-reported:%s" % op, what="block %r (empty body) is only in %s "
                                    "and is not reported %s: the diff has no entry for it" % (row, "old" if op == "removed" else "new", op)))
                else:
                    out.append(dict(sig="multiline-block-not-reported:%s" % op, what="block %r with body %r is only in %s and is "
                                    "not reported" % (row, body, "old" if op == "removed" else "new")))
                continue
            if e[0] != op:
                out.append(dict(sig="multiline-one-sided-block-wrong-op", what="%r should be %s, is %s" % (row, op, e[0])))
            if tree_of(e[2]) != body:
                out.append(dict(sig="multiline-body-readback-differs", what="%r (%s): the reported body reads back to %r, the "
                                "configuration has %r" % (row, op, tree_of(e[2]), body)))
            want = {op}
        below = ops_below(e[2])
        if below - want:
            out.append(dict(sig="multiline-mixed-ops", what="below %r (%s) the descendants carry %r, expected only %r"
                            % (row, e[0], sorted(below), sorted(want))))
    return out


def nontrivial(case, r):
    d = r.get("diff") or []
    return len(d) >= 2 and len(set(e[0] for e in d)) >= 2 and any(e[2] for e in d)


def _depth(tree):
    return 1 + max([_depth(ch) for _r, ch in tree] or [0]) if tree else 0


def stats(case, r):
    lab = ["kind=multiline", "multiline:rule=" + MULTILINE_RULE]
    old = dict((row, ch) for row, ch in group(case["old"]))
    new = dict((row, ch) for row, ch in group(case["new"]))
    for row in set(old) | set(new):
        if row in old and row in new:
            lab.append("multiline:block=" + ("unchanged" if old[row] == new[row] else
                                             "body-emptied" if not new[row] else "changed"))
        else:
            body = old.get(row, new.get(row))
            lab.append("multiline:block=%s%s" % ("removed" if row in old else "added", "" if body else "(empty body)"))
    lab.append("multiline:body-depth=%d" % max([_depth(ch) for ch in list(old.values()) + list(new.values())] or [0]))
    co = [x for x in old if x in new]
    cn = [x for x in new if x in old]
    if co != cn:
        lab.append("multiline:blocks-reordered")
    if isinstance(r.get("diff"), list):
        for e in r["diff"]:
            lab.append("multiline:op=" + e[0])
        lab.append("multiline:diff=" + ("empty" if not [e for e in r["diff"] if e[0] != "unchanged"] else "nonempty"))
    if "err" in r:
        lab.append("multiline:result=" + r["err"])
    return sorted(set(lab))


def shrink(case):
    def drops(tree):
        for i in range(len(tree)):
            yield tree[:i] + tree[i + 1:]
            for sub in drops(tree[i][1]):
                yield tree[:i] + [[tree[i][0], sub]] + tree[i + 1:]
    for side in ("old", "new"):
        for nt in drops(case[side]):
            yield dict(case, **{side: nt})
