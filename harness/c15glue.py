"""C15 glue families: generated inputs and a reference reading for the registry/executor glue of annet.mesh.

Nothing in this module imports annet.  It provides

  gen_glue_case(rng, flavour)   topologies whose devices share short names (same first label, other domain),
                                parallel links, registries with match_short_name, several rules with different
                                name templates (generic `{name:.*}` pairs, role specific `spine{n}`/`leaf{n}` pairs,
                                pairs matched in both orientations) whose handler rows give one peer key DISJOINT
                                or EQUAL fields (a small stream gets one conflicting value injected);
  expect(case)                  what the property promises for such a case, read off the case alone: which
                                sessions every device has (a reference reading of the name templates and filters,
                                the handler tables grouped by peer key), the field-by-field union of the rows of
                                every key, and whether some single-valued field gets two different values.

The case format is the one of harness/props/c15.py (kind "exec") plus `"fam": "glue-…"`; the handler rows are
looked up by the same table-driven handlers, so impl/requests/model of c15.py apply unchanged.
"""
import ipaddress
import re

SPINES = ["spine1.pod1.net", "spine1.pod2.net", "spine2.pod1.net", "spine2.pod3.net"]
LEAVES = ["leaf1.pod1.net", "leaf1.pod2.net", "leaf1.pod3.net", "leaf2.pod1.net", "leaf2.pod2.net"]
FAMILIES = ["ipv4_unicast", "ipv6_unicast", "l2vpn_evpn"]

# single-valued fields a row may assign (DirectPeerDTO/IndirectPeerDTO: default merger = equal-or-conflict);
# "families" is the one set-valued (Unite) field used here
SHARED = {"add_path": [True, False], "multipath": [True, False], "bfd": [True, False], "send_community": [True, False]}
SIDE = {"mtu": [1500, 9000], "hold_time": [30, 90], "rr_client": [True, False], "next_hop_self": [True, False],
        "passive": [True, False], "af_loops": [1, 2], "description": ["d1", "d2"], "update_source": ["lo0", "lo1"],
        "pod": [1, 2]}
SESSION = {"group_name": ["G1", "G2"], "import_policy": ["IMP1", "IMP2"], "export_policy": ["EXP1", "EXP2"],
           "bmp_monitor": [True, False]}
IFACE_FIELDS = ("lag", "lag_links_min", "subif", "svi", "ifname")
SET_FIELDS = ("families",)


def short_of(fqdn):
    return fqdn.split(".", 1)[0]


# ----------------------------------------------------------------------------------------------
# reference reading of name templates and filters
# ----------------------------------------------------------------------------------------------

def parse_template(t):
    """`{n}` is a decimal number (int group), `{n:regex}` a named string group, the rest is regex text; the
    whole name has to match.  -> (compiled regex, names of the int groups)"""
    out, ints, i = [], [], 0
    while i < len(t):
        c = t[i]
        if c == "{":
            j = t.index("}", i)
            body = t[i + 1:j]
            if ":" in body:
                name, rx = body.split(":", 1)
                out.append("(?P<%s>%s)" % (name, rx))
            else:
                ints.append(body)
                out.append("(?P<%s>[0-9]+)" % body)
            i = j + 1
        else:
            out.append(c)
            i += 1
    return re.compile("".join(out)), ints


def match_name(t, name):
    rx, ints = parse_template(t)
    m = rx.fullmatch(name)
    if m is None:
        return None
    return {k: (int(v) if k in ints else v) for k, v in m.groupdict().items()}


def _operand(x, l, r):
    if isinstance(x, dict):
        return x["const"]
    side, name = x
    src = l if side in ("L", "M") else r
    return src[name]          # KeyError = the group does not exist = no match


def filter_holds(f, l, r):
    try:
        a, b = _operand(f["a"], l, r), _operand(f["b"], l, r)
        op = f["op"]
        if op == "==":
            return a == b
        if op == "!=":
            return a != b
        if op == "<":
            return a < b
        if op == ">":
            return a > b
        if op == "<=":
            return a <= b
        if op == ">=":
            return a >= b
        if op == "in":
            return a in b
    except (KeyError, TypeError):
        return False
    raise ValueError(f)


def rule_matches(rule, left, right):
    l = match_name(rule["left"], left)
    if l is None:
        return False
    r = match_name(rule["right"], right)
    if r is None:
        return False
    return all(filter_holds(f, l, r) for f in rule.get("filters", []))


# ----------------------------------------------------------------------------------------------
# topology helpers (on the case's device list)
# ----------------------------------------------------------------------------------------------

def conns(devices, a, b):
    """[(port of a, port of b)] in a's interface order (the storage contract: search_connections)"""
    da = next(d for d in devices if d["fqdn"] == a)
    db = next(d for d in devices if d["fqdn"] == b)
    out = []
    for lp in da["ifaces"]:
        if lp[1] == b:
            for rp in db["ifaces"]:
                if rp[0] == lp[2]:
                    out.append((lp[0], rp[0]))
    return out


def neighbours(dev):
    out = []
    for f in dev["ifaces"]:
        if f[1] and f[1] not in out:
            out.append(f[1])
    return out


def port_key(pairs):
    """handler-table key of a port group given as [(left port, right port)]"""
    return sorted([a, b] for a, b in pairs)


def find_row(table, l, r, key):
    for e in table:
        if e["l"] == l and e["r"] == r and (e.get("ports") is None or e["ports"] == key):
            return e
    return None


# ----------------------------------------------------------------------------------------------
# the reference: applications -> peer keys -> field-wise union
# ----------------------------------------------------------------------------------------------

def _ip(a):
    try:
        return str(ipaddress.ip_interface(a).ip)
    except (ValueError, TypeError):
        return None


def asn(v):
    if isinstance(v, bool) or v is None:
        raise ValueError(v)
    if isinstance(v, int):
        return v
    if "." in v:
        hi, lo = v.split(".")
        return (int(hi) << 16) + int(lo)
    return int(v)


def _jk(v):
    return repr(v) if not isinstance(v, dict) else repr(sorted((k, repr(x)) for k, x in v.items()))


class _U:
    """field-by-field combination of rows; remembers single-valued fields that got two different values"""

    def __init__(self):
        self.f = {}
        self.conflicts = []

    def add(self, fields):
        for k, v in fields.items():
            if k in SET_FIELDS:
                cur = self.f.get(k, {"set": []})["set"]
                self.f[k] = {"set": sorted(set(cur) | set(v["set"]))}
            elif k in self.f and _jk(self.f[k]) != _jk(v):
                self.conflicts.append(k)
            else:
                self.f[k] = v


def applications(case, a):
    """every (rule, orientation, port group) whose handler row assigns something, seen from device `a`:
    dicts {kind, rule, fwd, b, ports (own ports), mine, theirs, session}"""
    devices = case["devices"]
    names = [d["fqdn"] for d in devices]
    norm = short_of if case.get("short") else (lambda h: h)
    me = next(d for d in devices if d["fqdn"] == a)
    apps = []
    for ri, rule in enumerate(case["rules"]):
        if rule["kind"] == "direct":
            others = [b for b in neighbours(me) if b in names]
        elif rule["kind"] == "indirect":
            others = list(names)
        else:
            continue
        for b in others:
            for fwd in (True, False):
                l, r = (a, b) if fwd else (b, a)
                if not rule_matches(rule, norm(l), norm(r)):
                    continue
                if rule["kind"] == "direct":
                    allc = conns(devices, a, b)
                    groups = [[c] for c in allc] if rule.get("pp") == "separate" else [allc]
                else:
                    groups = [None]
                for g in groups:
                    if g is None:
                        key, own = None, None
                    else:
                        key = port_key(g if fwd else [(y, x) for x, y in g])
                        own = [x for x, _ in g]
                    row = find_row(rule["h"], l, r, key)
                    if row is None:
                        continue
                    mine = row.get("left", {}) if fwd else row.get("right", {})
                    theirs = row.get("right", {}) if fwd else row.get("left", {})
                    sess = row.get("session", {})
                    if not mine and not theirs and not sess:
                        continue
                    apps.append(dict(kind=rule["kind"], rule=ri, fwd=fwd, b=b, ports=own, mine=mine, theirs=theirs,
                                     session=sess, row=(ri, rule["h"].index(row))))
    return apps


def groups_of(case, a):
    """peer keys of device a -> group dict; None when some application is outside the property's domain
    (no/ill-formed peer address)"""
    out = {}
    for ap in applications(case, a):
        loc, rem = _U(), _U()
        loc.add(ap["mine"]); loc.add(ap["session"])
        rem.add(ap["theirs"]); rem.add(ap["session"])
        raddr = rem.f.get("addr")
        if not isinstance(raddr, str) or _ip(raddr) is None or _ip(loc.f.get("addr")) is None:
            return None
        key = (ap["kind"], ap["b"], raddr, rem.f.get("vrf", ""))
        g = out.setdefault(key, dict(kind=ap["kind"], b=ap["b"], raddr=raddr, vrf=rem.f.get("vrf", ""), loc=_U(), rem=_U(),
                                     idents=set(), ports=[], apps=[]))
        g["loc"].conflicts += loc.conflicts
        g["rem"].conflicts += rem.conflicts
        g["loc"].add(loc.f)
        g["rem"].add(rem.f)
        g["idents"].add((ap["rule"], ap["fwd"]))
        g["apps"].append(ap["row"])
        if ap["ports"] is not None and ap["ports"] not in g["ports"]:
            g["ports"].append(ap["ports"])
    return out


def _iface_defined(g):
    """does the combined local side select an interface the executor can build?"""
    f = g["loc"].f
    lag, svi, subif = f.get("lag"), f.get("svi"), f.get("subif")
    if g["kind"] == "direct":
        if len(g["ports"]) != 1:
            return False            # rows of one key that name different port sets: not generated here
        if lag is not None and svi is not None or svi is not None and subif is not None:
            return False
        if len(g["ports"][0]) > 1 and lag is None and svi is None:
            return False
        return len(g["ports"][0]) >= 1
    if lag is not None or svi is not None and subif is not None:
        return False
    if subif is None and svi is None and f.get("ifname") not in (None, "", "lo0"):
        return False
    if subif is not None and not f.get("ifname"):
        return False
    return True


def _as_defined(g):
    try:
        return 0 < asn(g["loc"].f.get("asnum")) < (1 << 32) and 0 < asn(g["rem"].f.get("asnum")) < (1 << 32)
    except (ValueError, TypeError, AttributeError):
        return False


def expect(case):
    """{fqdn: None (outside the domain) | {"conflict": [fields], "sessions": [ {b, addr, vrf, local, remote, idents} ]}}"""
    res = {}
    only_pairs = all(r["kind"] in ("direct", "indirect") for r in case["rules"])
    for d in case["devices"]:
        a = d["fqdn"]
        gs = groups_of(case, a) if only_pairs else None
        if gs is None:
            res[a] = None
            continue
        # two keys of one kind at this end that the far end files under one key (or the reverse) are the recorded
        # finding mirror-asym-peerkey; two kinds sharing (b, addr, vrf) would make the peer ambiguous.  Not generated.
        seen = {}
        amb = False
        for (kind, b, raddr, vrf), g in gs.items():
            k = (b, _ip(raddr), vrf)
            amb = amb or k in seen
            seen[k] = kind
        if amb or not all(_iface_defined(g) and _as_defined(g) for g in gs.values()):
            res[a] = None
            continue
        conflict = sorted(set(f for g in gs.values() for f in g["loc"].conflicts + g["rem"].conflicts))
        sessions = []
        for g in gs.values():
            sessions.append(dict(kind=g["kind"], b=g["b"], addr=_ip(g["raddr"]), vrf=g["vrf"], local=g["loc"].f, remote=g["rem"].f,
                                 idents=sorted(g["idents"]), ports=g["ports"][0] if g["ports"] else None, napps=len(g["apps"])))
        res[a] = dict(conflict=conflict, sessions=sessions)
    return res


def key_partitions_agree(case, a, b):
    """both ends split the handler results of the pair into the same groups (hypothesis of the mirroring clause)"""
    ga, gb = groups_of(case, a), groups_of(case, b)
    if ga is None or gb is None:
        return False

    def parts(gs, other):
        # an application is identified by the handler row it used: (rule, row)
        return sorted(tuple(sorted(set(g["apps"]))) for g in gs.values() if g["b"] == other)
    return parts(ga, b) == parts(gb, a)


# ----------------------------------------------------------------------------------------------
# generator
# ----------------------------------------------------------------------------------------------

def _flt(a, op, b):
    return {"a": list(a), "op": op, "b": list(b) if isinstance(b, (list, tuple)) else {"const": b}}


def rule_pool(short):
    """(label, left template, right template, filters)"""
    if short:
        sp, lf, lfm, role, anyn = "spine{n}", "leaf{n}", "leaf{m}", "{role:[a-z]+}{n}", "{name:.*}"
    else:
        sp, lf, lfm, role, anyn = "spine{n}.{pod:pod[0-9]}.net", "leaf{n}.{pod:pod[0-9]}.net", "leaf{m}.pod{p}.net", \
            "{role:[a-z]+}{n}.pod{p}.net", "{name:.*}"
    return [
        ("generic-lt", anyn, anyn, [_flt(("L", "name"), "<", ("R", "name"))]),
        ("generic-both", "{a:.*}", "{b:.*}", []),
        ("generic-ne", anyn, anyn, [_flt(("L", "name"), "!=", ("R", "name"))]),
        ("role", sp, lf, []),
        ("role-m", sp, lfm, []),
        ("role-rev", lf, sp, []),
        ("role-any", role, role, [_flt(("L", "role"), "!=", ("R", "role"))]),
        ("role-gt", role, role, [_flt(("L", "role"), ">", ("R", "role"))]),
        ("role-eqn", sp, lf, [_flt(("L", "n"), "==", ("R", "n"))]),
        ("role-len", sp, lfm, [_flt(("L", "n"), "<=", ("R", "m"))]),
        ("leaf-leaf", lf, lfm, []),
    ]


def gen_topology(rng, flavour):
    names = []
    twins = []
    if flavour == "twins":
        hub_role_spine = rng.random() < 0.6
        hubs = SPINES if hub_role_spine else LEAVES
        others = LEAVES if hub_role_spine else SPINES
        if rng.random() < 0.12:
            others = hubs          # twins of the hub's own role (leaf1.pod1 linked to leaf2.pod1 / leaf2.pod2)
        hub = rng.choice(hubs)
        byshort = {}
        for o in others:
            if o != hub and short_of(o) != short_of(hub):
                byshort.setdefault(short_of(o), []).append(o)
        cands = [v for v in byshort.values() if len(v) >= 2]
        grp = rng.choice(cands)
        twins = rng.sample(grp, rng.choice([2, 2, 2, 3]) if len(grp) >= 3 else 2)
        names = [hub] + twins
        rest = [x for x in SPINES + LEAVES if x not in names]
        for x in rng.sample(rest, rng.choice([0, 0, 1, 1, 2])):
            names.append(x)
        if rng.random() < 0.5:
            rng.shuffle(names)
    else:
        n = rng.choice([2, 2, 3, 3, 4])
        sp = rng.sample(SPINES, rng.randint(1, min(2, n - 1)))
        lf = rng.sample(LEAVES, n - len(sp))
        names = sp + lf
        rng.shuffle(names)
        hub = None
    n = len(names)
    ifaces = {nm: [["lo0", None, None]] for nm in names}
    cnt = {nm: 0 for nm in names}
    for i in range(n):
        for j in range(i + 1, n):
            a, b = names[i], names[j]
            if flavour == "twins" and hub in (a, b) and (a in twins or b in twins):
                k = rng.choice([1, 1, 1, 2, 2, 3])
            elif short_of(a)[:2] != short_of(b)[:2]:
                k = rng.choice([0, 1, 1, 1, 2, 3])
            else:
                k = rng.choice([0, 0, 0, 1, 2])
            for _ in range(k):
                cnt[a] += 1
                cnt[b] += 1
                pa, pb = "e%d" % cnt[a], "e%d" % cnt[b]
                ifaces[a].append([pa, b, pb])
                ifaces[b].append([pb, a, pa])
    if flavour != "twins" and not any(f[1] for nm in names for f in ifaces[nm]):
        a = next(x for x in names if x.startswith("spine"))
        b = next(x for x in names if x.startswith("leaf"))
        ifaces[a].append(["e1", b, "e1"])
        ifaces[b].append(["e1", a, "e1"])
    for nm in names:
        if rng.random() < 0.3:
            rng.shuffle(ifaces[nm])
    devs = [{"fqdn": nm, "ifaces": ifaces[nm]} for nm in names]
    if rng.random() < 0.25:
        for d in devs:
            d["nbr_dup"] = True        # the adapter lists a neighbour once per link (netbox does)
    return devs, hub, twins


def _pick(rng, menu, p):
    return {k: rng.choice(v) for k, v in menu.items() if rng.random() < p}


def gen_glue_case(rng, flavour):
    """flavour: "twins" (match_short_name, one device linked to several devices of one short name) or
    "multi" (several rules with different templates / both orientations for one peer key)."""
    short = True if flavour == "twins" else rng.random() < 0.3
    devices, hub, twins = gen_topology(rng, flavour)
    names = [d["fqdn"] for d in devices]
    idx = {nm: i for i, nm in enumerate(names)}
    norm = short_of if short else (lambda h: h)
    pool = rule_pool(short)
    v6 = rng.random() < 0.2
    as_session = rng.random() < 0.35
    use_vrf = rng.random() < 0.2

    def linked(a, b):
        return bool(conns(devices, a, b))

    # ---- rules
    nrules = rng.choice([1, 2, 2, 3]) if flavour == "twins" else rng.choice([2, 2, 3, 3, 4])
    rules = []
    for k in range(nrules):
        kind = "direct" if (k == 0 or rng.random() < 0.65) else "indirect"
        for _ in range(40):
            lab, lt, rt, fl = rng.choice(pool)
            rule = {"kind": kind, "left": lt, "right": rt, "filters": fl, "h": []}
            if kind == "direct":
                rule["pp"] = "separate" if rng.random() < 0.25 else "united"
            hit = [(a, b) for a in names for b in names if a != b and rule_matches(rule, norm(a), norm(b))
                   and (kind == "indirect" or linked(a, b))]
            if flavour == "twins" and k == 0:
                ok = any({a, b} == {hub, t} for a, b in hit for t in twins)
            elif flavour == "multi" and k == 1:
                # share a pair (and the port processor) with the first rule so that one key is hit twice
                first = rules[0]
                rule["kind"] = kind = first["kind"]
                if kind == "direct":
                    rule["pp"] = first["pp"]
                else:
                    rule.pop("pp", None)
                hit = [(a, b) for a in names for b in names if a != b and rule_matches(rule, norm(a), norm(b))
                       and (kind == "indirect" or linked(a, b))]
                prev = {frozenset(p) for p in first["_hit"]}
                ok = any(frozenset(p) in prev for p in hit) and (lt, rt) != (first["left"], first["right"])
            else:
                ok = bool(hit)
            if ok:
                break
        rule["_hit"] = hit
        rule["_lab"] = lab
        rules.append(rule)
    # port processors of direct rules agree per case with high probability (rows of one key then name one port set)
    if rng.random() < 0.85:
        pps = [r["pp"] for r in rules if r["kind"] == "direct"]
        if pps:
            for r in rules:
                if r["kind"] == "direct":
                    r["pp"] = pps[0]

    # ---- plan: what every (kind, pair, port group, device) is to end up with
    plan = {}

    def plan_for(kind, a, b, g):
        """g: group index (0 for united / indirect, else the port number of the lower-indexed device)"""
        i, j = sorted((idx[a], idx[b]))
        key = (kind, i, j, g)
        if key in plan:
            return plan[key]
        p = {"side": {}, "session": {}, "shared": {}}
        for nm, pos in ((names[i], 0), (names[j], 1)):
            if kind == "direct":
                addr = ("fd00:%d:%d::%d/127" if v6 else "10.%d.%d.%d/31") % (10 * i + j, g, pos)
            else:
                addr = "10.255.0.%d" % (idx[nm] + 1)
            side = {"addr": addr}
            side.update(_pick(rng, SIDE, 0.25))
            if not as_session:
                side["asnum"] = 65001 + idx[nm] if rng.random() < 0.85 else "1.%d" % (idx[nm] + 1)
            if kind == "indirect":
                if rng.random() < 0.7:
                    side["ifname"] = "lo0"
                side.pop("update_source", None)
            if rng.random() < 0.1:
                side["families"] = {"set": [rng.choice(FAMILIES)]}
            p["side"][nm] = side
        p["session"] = _pick(rng, SESSION, 0.3)
        if as_session:
            p["session"]["asnum"] = 65000
        if use_vrf:
            p["session"]["vrf"] = "v1"
        p["session"]["families"] = {"set": sorted(rng.sample(FAMILIES, rng.randint(1, 3)))}
        p["shared"] = _pick(rng, SHARED, 0.35)
        plan[key] = p
        return p

    # ---- rows
    rows_by_group = {}
    for ri, rule in enumerate(rules):
        for a, b in rule["_hit"]:
            if rng.random() < 0.04:
                continue
            if rule["kind"] == "direct":
                allc = conns(devices, a, b)
                if rule["pp"] == "separate":
                    groups = [[c] for c in allc]
                else:
                    groups = [allc]
            else:
                groups = [None]
            for g in groups:
                if g is None:
                    gi, key, nports = 0, None, 0
                else:
                    key, nports = port_key(g), len(g)
                    if rule["pp"] == "separate":
                        gi = int((g[0][0] if idx[a] < idx[b] else g[0][1])[1:])
                    else:
                        gi = 0
                p = plan_for(rule["kind"], a, b, gi)
                row = {"l": a, "r": b, "ports": key, "left": {"addr": p["side"][a]["addr"]},
                       "right": {"addr": p["side"][b]["addr"]}, "session": {}}
                for side, nm in (("left", a), ("right", b)):
                    for f, v in p["side"][nm].items():
                        if f != "addr" and rng.random() < 0.45:
                            row[side][f] = v
                for f, v in p["session"].items():
                    if f == "vrf":
                        row["session"][f] = v          # in every row: the key is the same for all of them
                    elif f == "families":
                        if rng.random() < 0.6:
                            row["session"][f] = {"set": sorted(rng.sample(v["set"], rng.randint(1, len(v["set"]))))}
                    elif rng.random() < 0.45:
                        row["session"][f] = v
                for f, v in p["shared"].items():
                    r0 = rng.random()
                    if r0 < 0.3:
                        row["session"][f] = v
                    elif r0 < 0.5:
                        row["left"][f] = v
                        row["right"][f] = v
                    elif r0 < 0.6:
                        row[rng.choice(["left", "right"])][f] = v
                rule["h"].append(row)
                rows_by_group.setdefault((rule["kind"], frozenset((a, b)), gi, nports), []).append(row)

    # ---- what has to be said by at least one row of every key: AS numbers, the LAG of a multi-port group
    for (kind, pair, gi, nports), rows in rows_by_group.items():
        a, b = sorted(pair, key=lambda x: idx[x])
        p = plan[(kind, idx[a], idx[b], gi)]
        lagplan = None
        if kind == "direct" and (nports > 1 or rng.random() < 0.1):
            lagplan = {"lag": rng.choice([1, 1, 2])}
            if rng.random() < 0.3:
                lagplan["lag_links_min"] = 1
            if rng.random() < 0.15:
                lagplan["subif"] = 10
        elif kind == "direct" and rng.random() < 0.1:
            lagplan = {"subif": 10} if rng.random() < 0.5 else {"svi": 100}
        for nm in (a, b):
            must = {}
            if not as_session:
                must["asnum"] = p["side"][nm]["asnum"]
            if lagplan:
                must.update(lagplan)
            for f, v in must.items():
                carriers = [rng.choice(rows)] + [r for r in rows if rng.random() < 0.3]
                for r in carriers:
                    r["left" if r["l"] == nm else "right"][f] = v
        if as_session:
            for r in [rng.choice(rows)] + [r for r in rows if rng.random() < 0.4]:
                r["session"]["asnum"] = 65000

    for rule in rules:
        del rule["_hit"]
        rule.pop("_lab")
    case = {"kind": "exec", "fam": "glue-" + flavour, "devices": devices, "rules": rules}
    if short:
        case["short"] = True

    # ---- a small stream with one conflicting value: the property demands an error there
    if rng.random() < 0.1:
        cands = []
        for ri, rule in enumerate(rules):
            for ei, e in enumerate(rule["h"]):
                for side in ("left", "right", "session"):
                    for f, v in e[side].items():
                        alt = (SIDE.get(f) or SHARED.get(f) or SESSION.get(f))
                        if alt and f not in ("update_source",):
                            cands.append((ri, ei, side, f, [x for x in alt if x != v][0]))
        if cands:
            ri, ei, side, f, v = rng.choice(cands)
            rules[ri]["h"][ei][side][f] = v
            case["injected"] = [ri, ei, side, f]
    return case
