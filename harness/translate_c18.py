"""C18 translator: regenerates lean/AnnetModel/Gen/DevDb.lean from the annet working tree.

What is extracted (every item is read from the code/data the running annet would use):
  * devdb            -- `annet.annlib.netdev.devdb._prepare_db()`: {tuple(seq): compiled regexp}, in dict order
  * vendors          -- `registry_connector.get().vendors`: NAME -> match() list, in registration order,
                        plus each vendor's canonical `hardware.model`
  * vendor aliases   -- `annet.annlib.rbparser.platform.VENDOR_ALIASES`
  * rule files       -- names present under annet/rulebook/texts
  * hw references    -- `hw.<path>` attribute chains in annet/**/*.py (AST) and in the Mako control lines /
                        `${...}` expressions of annet/rulebook/texts/*
  * logic names      -- `%logic= / %diff_logic= / %apply_logic=` values of every rule file (all Mako branches),
                        the built-in defaults of patching.py / deploying.py and every vendor's diff(True/False)
  * importable       -- every name `<module path under annet.rulebook>.<attr>` for which
                        `import_rulebook_function` would succeed (modules are really imported)

Names and regexp patterns are interned as natural numbers (kernel evaluation over `Nat` is cheap); the string
tables `names` / `patterns` are emitted next to them.
"""
import ast
import importlib
import json
import os
import pkgutil
import re

from harness.core.paths import LEAN, REPO

OUT = os.path.join(LEAN, "AnnetModel", "Gen", "DevDb.lean")

# attributes of HardwareView / HardwareLeaf that are ordinary python attributes, not devdb sequences
HW_PY_ATTRS = {"model", "soft", "_soft", "vendor", "match", "dump", "__class__", "__dict__"}

LOGIC_RE = re.compile(r"%(logic|diff_logic|apply_logic)=([^\s%]+)")
HW_RE = re.compile(r"\bhw((?:\.[A-Za-z_][A-Za-z0-9_]*)+)")


# ---------------------------------------------------------------- extraction
def extract_devdb():
    from annet.annlib.netdev.devdb import _prepare_db
    prepared = _prepare_db()
    return [(list(seq), rx.pattern) for seq, rx in prepared.items()]


def extract_vendors():
    from annet.vendors import registry_connector
    reg = registry_connector.get()
    out = []
    for name, v in reg.vendors.items():
        out.append(dict(name=name, match=list(v.match()), hardware=v.hardware.model,
                        diff=[v.diff(False), v.diff(True)]))
    return out


def extract_aliases():
    from annet.annlib.rbparser.platform import VENDOR_ALIASES
    return sorted(VENDOR_ALIASES.items())


def texts_dir():
    return os.path.join(REPO, "annet", "rulebook", "texts")


def extract_rule_files():
    return sorted(f for f in os.listdir(texts_dir()) if f.rsplit(".", 1)[-1] in ("rul", "order", "deploy"))


def _mako_code_fragments(text):
    """Mako control lines (`% if ...`) and `${...}` expressions of a rule text, after the same escaping
    DefaultRulebookProvider applies (so `%logic=...` lines are not control lines)."""
    from annet.rulebook import DefaultRulebookProvider
    esc = DefaultRulebookProvider._escape_mako(text)
    for line in esc.split("\n"):
        s = line.lstrip()
        if s.startswith("%") and not s.startswith("%%"):
            yield s
        for m in re.finditer(r"\$\{(.*?)\}", line):
            yield m.group(1)


def extract_hw_refs():
    """[(where, [path components])], de-duplicated, sorted."""
    refs = set()
    # rule texts
    for f in extract_rule_files():
        with open(os.path.join(texts_dir(), f), encoding="utf-8") as fh:
            text = fh.read()
        for frag in _mako_code_fragments(text):
            for m in HW_RE.finditer(frag):
                path = m.group(1).strip(".").split(".")
                path = _cut_py_attrs(path)
                if path:
                    refs.add(("texts/" + f, tuple(path)))
    # python sources
    for top in ("annet", "annet_generators"):
        root = os.path.join(REPO, top)
        for dirpath, dirs, files in os.walk(root):
            dirs[:] = [d for d in dirs if d != "__pycache__"]
            for f in files:
                if not f.endswith(".py"):
                    continue
                p = os.path.join(dirpath, f)
                try:
                    tree = ast.parse(open(p, encoding="utf-8").read())
                except SyntaxError:
                    continue
                rel = os.path.relpath(p, REPO)
                for path in _ast_hw_chains(tree):
                    path = _cut_py_attrs(path)
                    if path:
                        refs.add((rel, tuple(path)))
    return sorted(refs)


def _cut_py_attrs(path):
    out = []
    for name in path:
        if name in HW_PY_ATTRS or name.startswith("__"):
            break
        out.append(name)
    return out


def _ast_hw_chains(tree):
    """Maximal attribute chains rooted at a name `hw` or at an attribute `.hw` (device.hw, self.hw ...)."""
    inner = set()
    chains = []

    def chain_of(node):
        names = []
        cur = node
        while isinstance(cur, ast.Attribute):
            names.append(cur.attr)
            cur = cur.value
            if (isinstance(cur, ast.Name) and cur.id == "hw") or (isinstance(cur, ast.Attribute) and cur.attr == "hw"):
                return list(reversed(names))
        return None

    for node in ast.walk(tree):
        if isinstance(node, ast.Attribute):
            if isinstance(node.value, ast.Attribute):
                inner.add(id(node.value))
    for node in ast.walk(tree):
        if isinstance(node, ast.Attribute) and id(node) not in inner:
            c = chain_of(node)
            if c:
                chains.append(c)
    return chains


SOFT_RE = re.compile(r"\bhw\s*\.\s*(soft|_soft)\b|getattr\(\s*hw\b")


def extract_soft_refs():
    """rule files whose Mako code reads the software version (the provider caches by hw.model only)"""
    out = []
    for f in extract_rule_files():
        with open(os.path.join(texts_dir(), f), encoding="utf-8") as fh:
            text = fh.read()
        if any(SOFT_RE.search(frag) for frag in _mako_code_fragments(text)):
            out.append(f)
    return out


def extract_logic_used():
    """[(origin, dotted name)] sorted, de-duplicated."""
    used = set()
    for f in extract_rule_files():
        with open(os.path.join(texts_dir(), f), encoding="utf-8") as fh:
            for line in fh:
                if line.lstrip().startswith("#"):
                    continue
                for m in LOGIC_RE.finditer(line):
                    used.add(("texts/" + f, m.group(2)))
    from annet.rulebook import patching, deploying
    for c in ("DEFAULT_PATCH_LOGIC", "ORDERED_PATCH_LOGIC", "REWRITE_PATCH_LOGIC", "REWRITE_DIFF_LOGIC",
              "MULTILINE_DIFF_LOGIC"):
        used.add(("patching.py", getattr(patching, c)))
    used.add(("deploying.py", deploying.DEFAULT_APPLY_LOGIC))
    for v in extract_vendors():
        for d in v["diff"]:
            used.add(("vendor:" + v["name"], d))
    return sorted(used)


def extract_importable():
    """Every dotted name `a.b.f` such that import_rulebook_function('a.b.f') succeeds for the default provider:
    importlib.import_module('annet.rulebook.a.b') works and the module has attribute f (callable)."""
    import annet.rulebook as rb
    names = set()
    for mi in pkgutil.walk_packages(rb.__path__, rb.__name__ + "."):
        try:
            mod = importlib.import_module(mi.name)
        except Exception:  # noqa  a module that cannot be imported exports nothing
            continue
        rel = mi.name[len(rb.__name__) + 1:]
        for attr, val in vars(mod).items():
            if callable(val) and not attr.startswith("__"):
                names.add(rel + "." + attr)
    return sorted(names)


def extract_all():
    return dict(devdb=extract_devdb(), vendors=extract_vendors(), aliases=extract_aliases(),
                rule_files=extract_rule_files(), hw_refs=extract_hw_refs(),
                logic_used=extract_logic_used(), importable=extract_importable(),
                soft_refs=extract_soft_refs())


# ---------------------------------------------------------------- Lean emission
def lean_str(s):
    out = ['"']
    for ch in s:
        o = ord(ch)
        if ch == "\\":
            out.append("\\\\")
        elif ch == '"':
            out.append('\\"')
        elif ch == "\n":
            out.append("\\n")
        elif ch == "\t":
            out.append("\\t")
        elif 32 <= o < 127:
            out.append(ch)
        else:
            out.append("\\u{%x}" % o)
    out.append('"')
    return "".join(out)


def lean_list(items, per_line=1, indent="  "):
    if not items:
        return "[]"
    lines = []
    for i in range(0, len(items), per_line):
        lines.append(indent + ", ".join(items[i:i + per_line]))
    return "[\n" + ",\n".join(lines) + "]"


def nat_list(xs):
    return "[" + ", ".join(str(x) for x in xs) + "]"


class Interner:
    def __init__(self):
        self.ids = {}
        self.items = []

    def __call__(self, s):
        if s not in self.ids:
            self.ids[s] = len(self.items)
            self.items.append(s)
        return self.ids[s]


def split_expr(expr):
    """HardwareView.match: expr.split('.') with a leading 'hw' removed."""
    p = expr.split(".")
    if p and p[0] == "hw":
        p = p[1:]
    return p


def render(data):
    name = Interner()
    pat = Interner()
    lname = Interner()
    L = []
    w = L.append
    w("/-")
    w("GENERATED by harness/translate_c18.py from the annet working tree -- do not edit.")
    w("Regenerated before every Lean build; the file is rewritten only when its content changes.")
    w("Names and regexp patterns are interned: `names[i]`, `patterns[i]`.")
    w("-/")
    w("namespace Annet.Gen.DevDb")
    w("")
    devdb_rows = []
    for seq, pattern in data["devdb"]:
        devdb_rows.append("(%s, %d)" % (nat_list([name(x) for x in seq]), pat(pattern)))
    w("/-- devdb.json as `_prepare_db()` returns it: (sequence, regexp), dict order. "
      "%d entries. -/" % len(devdb_rows))
    w("def devdb : List (List Nat × Nat) := " + lean_list(devdb_rows, 4))
    w("")
    vend_rows = []
    for i, v in enumerate(data["vendors"]):
        exprs = "[" + ", ".join("(%s, %d)" % (nat_list([name(x) for x in split_expr(e)]), e.count("."))
                                for e in v["match"]) + "]"
        vend_rows.append("(%d, %s)" % (i, exprs))
    w("/-- Registered vendors in registration order: (vendor id, match() expressions as (path, expr.count('.'))),")
    w("path = expr.split('.') without a leading 'hw' (HardwareView.match). -/")
    w("def vendors : List (Nat × List (List Nat × Nat)) := " + lean_list(vend_rows, 1))
    w("")
    w("def vendorNames : List String := " + lean_list([lean_str(v["name"]) for v in data["vendors"]], 8))
    w("")
    w("/-- Canonical hardware model string of each vendor (`vendor.hardware.model`). -/")
    w("def vendorHardware : List String := " + lean_list([lean_str(v["hardware"]) for v in data["vendors"]], 8))
    w("")
    files = data["rule_files"]
    aliases = dict(data["aliases"])
    rf = []
    for i, v in enumerate(data["vendors"]):
        rul = aliases.get(v["name"], v["name"]) + ".rul"
        rf.append("(%d, %s)" % (i, "true" if rul in files else "false"))
    w("/-- (vendor id, does `<VENDOR_ALIASES.get(v, v)>.rul` exist under rulebook/texts). -/")
    w("def vendorRulExists : List (Nat × Bool) := " + lean_list(rf, 8))
    w("")
    refs = []
    seen = set()
    for where, path in data["hw_refs"]:
        if path in seen:
            continue
        seen.add(path)
        refs.append(nat_list([name(x) for x in path]))
    w("/-- Distinct `hw.<path>` references found in rule texts and python sources. -/")
    w("def hwRefs : List (List Nat) := " + lean_list(refs, 6))
    w("")
    w("/-- Where each reference was found (documentation only). -/")
    w("def hwRefSites : List (String × String) := " + lean_list(
        ["(%s, %s)" % (lean_str(where), lean_str(".".join(path))) for where, path in data["hw_refs"]], 2))
    w("")
    used = []
    seen = set()
    for origin, n in data["logic_used"]:
        if n in seen:
            continue
        seen.add(n)
        used.append(str(lname(n)))
    w("/-- Distinct logic-function names used by rule files / defaults (ids into `logicNames`). -/")
    w("def logicUsed : List Nat := " + lean_list(used, 20))
    w("")
    imp = [str(lname(n)) for n in data["importable"]]
    w("/-- Names for which `import_rulebook_function` succeeds (ids into `logicNames`). -/")
    w("def logicImportable : List Nat := " + lean_list(imp, 20))
    w("")
    w("def logicUsedSites : List (String × String) := " + lean_list(
        ["(%s, %s)" % (lean_str(o), lean_str(n)) for o, n in data["logic_used"]], 2))
    w("")
    w("/-- Rule files whose Mako control lines / expressions read `hw.soft` (the provider caches by model only). -/")
    w("def templateSoftRefs : List String := " + lean_list([lean_str(f) for f in data["soft_refs"]], 4))
    w("")
    w("def logicNames : List String := " + lean_list([lean_str(s) for s in lname.items], 4))
    w("")
    w("def names : List String := " + lean_list([lean_str(s) for s in name.items], 8))
    w("")
    w("def patterns : List String := " + lean_list([lean_str(s) for s in pat.items], 4))
    w("")
    w("end Annet.Gen.DevDb")
    return "\n".join(L) + "\n"


def regenerate():
    """Returns (path, changed)."""
    text = render(extract_all())
    os.makedirs(os.path.dirname(OUT), exist_ok=True)
    old = None
    if os.path.exists(OUT):
        with open(OUT, encoding="utf-8") as f:
            old = f.read()
    if old != text:
        tmp = OUT + ".tmp%d" % os.getpid()
        with open(tmp, "w", encoding="utf-8") as f:
            f.write(text)
        os.replace(tmp, OUT)
        return OUT, True
    return OUT, False


if __name__ == "__main__":
    import sys
    sys.path.insert(0, REPO)
    print(json.dumps({k: (len(v) if isinstance(v, list) else v) for k, v in extract_all().items()}))
    print(regenerate())
