"""C02, glue part: the WHOLE path of `annet patch` for one device, as `annet.api.res_diff_patch` walks it:
synthetic PartialGenerator classes (acl_<vendor>() literals written the way generators write them: indented
triple-quoted blocks; generators without the vendor, raising NotSupportedDevice, without acl_<vendor>, returning None or
blanks) -> real `annet.gen._old_new_per_device` (device config given as TEXT, parsed by the vendor's formatter) -> real
`annet.api._diff_and_patch(device, res.get_old(), res.get_new(), res.get_acl_rules(), res.filter_acl_rules, ...)`.

The reference side of this module never calls annet: which generators take part, what their ACL literal means
(own dedent), how the literals are combined (one tagged line per rule line, generator after generator), and what the
generators yield (harness.props.c10.spec_paths, the independent reading of the op lists).

Generator record: {"name": class name, "mode": MODE, "acl": literal | None, "ops": [op, ...]}  (ops as in c10: ["y", text],
["b", [row], None, ops]); MODE:
  ok            run_<vendor> + acl_<vendor>
  other-vendor  run_/acl_ exist for ANOTHER vendor only (supports_device() is false: the generator is skipped)
  raises        run_<vendor> raises NotSupportedDevice (skipped together with its ACL, unless --clear: then it is not run)
  no-acl-func   run_<vendor> yields nothing, there is no acl_<vendor>
  acl-none      acl_<vendor> returns None
  acl-blank     acl_<vendor> returns a literal of blanks only
"""
import types

from harness.props import c10

MODELS = {"huawei": "Huawei", "cisco": "Cisco Catalyst", "arista": "Arista", "nexus": "Cisco Nexus", "b4com": "B4com"}
OTHER = {"huawei": "cisco", "cisco": "huawei", "arista": "juniper", "nexus": "huawei", "b4com": "arista"}
EMPTY_MODES = ("no-acl-func", "acl-none", "acl-blank")


# ----------------------------------------------------------------------------- reference reading (no annet)
def ref_dedent(text):
    """what an indented triple-quoted literal means: the common margin of its non-blank lines is not part of it
    (literals here are indented with blanks only); blank lines carry nothing"""
    lines = text.split("\n")
    margin = None
    for l in lines:
        if l.strip(" ") == "":
            continue
        k = len(l) - len(l.lstrip(" "))
        margin = k if margin is None else min(margin, k)
    return [l[margin:].rstrip() for l in lines if l.strip(" ") != ""] if margin is not None else []


def participating(case):
    """the generators whose ACL is part of the device's combined ACL, in order"""
    out = []
    for g in case["gens"]:
        if g["mode"] == "other-vendor":
            continue
        if g["mode"] == "raises" and not case.get("no_new"):
            continue
        out.append(g)
    return out


def ref_acl_lines(g):
    if g["mode"] in ("no-acl-func", "acl-none") or g["acl"] is None:
        return []
    return ref_dedent(g["acl"])


def ref_combined(case):
    """the combined ACL of the selected generators as ONE text: every rule line of every participating generator, tagged
    with the generator's class name"""
    out = ""
    for g in participating(case):
        for l in ref_acl_lines(g):
            out += "%s  %%generator_names=%s\n" % (l, g["name"])
    return out


def ref_yielded(g, vendor):
    """tree of the lines generator g yields (None: outside the reference's domain)"""
    try:
        paths = c10.spec_paths(g["ops"], "huawei" if vendor == "huawei" else "removeSpaces")
    except (c10.SpecGeneratorRaises, c10.SpecOutOfDomain):
        return None
    if paths is None:
        return None
    return c10.tree_of_paths(paths)


def ref_new(case):
    """union (by path insertion, first occurrence keeps its place) of what the participating generators yield"""
    tree = []
    if case.get("no_new"):
        return tree
    for g in participating(case):
        if g["mode"] == "raises":
            continue
        t = ref_yielded(g, case["vendor"])
        if t is None:
            return None
        c10.tree_of_paths(c10.paths_of(t), tree)
    return tree


def margins(case):
    """margins of the participating generators' non-empty ACL literals"""
    out = []
    for g in participating(case):
        if ref_acl_lines(g):
            ls = [l for l in g["acl"].split("\n") if l.strip(" ") != ""]
            out.append(min(len(l) - len(l.lstrip(" ")) for l in ls))
    return out


# ----------------------------------------------------------------------------- literals and op lists
def literal(rng, plain, margin):
    """write a plain ACL text (margin 0) the way a generator method returns it: a triple-quoted block at the source's
    indentation, the closing quotes on their own, less indented line; sometimes blank lines and trailing blanks"""
    out = ["" if rng.random() < 0.85 else " " * margin]
    for l in plain.split("\n"):
        if not l.strip():
            continue
        out.append(" " * margin + l + (" " * rng.randint(1, 3) if rng.random() < 0.05 else ""))
        if rng.random() < 0.05:
            out.append(rng.choice(["", " " * rng.randint(0, margin + 4)]))
    out.append(" " * max(0, margin - rng.choice([0, 4])))
    return "\n".join(out)


def _text_of(tree, depth=0, unit="  "):
    out = []
    for row, ch in tree:
        out.append(unit * depth + row)
        out.extend(_text_of(ch, depth + 1, unit))
    return out


def config_text(tree):
    return "".join(l + "\n" for l in _text_of(tree))


def ops_of(rng, tree, depth=0):
    """op list that yields exactly `tree`: blocks + single yields, now and then a whole sub-tree as one indented
    multi-line text (as generators do)"""
    ops = []
    for row, ch in tree:
        if ch and rng.random() < 0.15:
            margin = " " * rng.choice([4, 8, 12])
            ops.append(["y", "\n" + "".join(margin + l + "\n" for l in _text_of([[row, ch]], 0, "    ")) + margin[4:]])
        elif ch:
            ops.append(["b", [row], None, ops_of(rng, ch, depth + 1)])
        else:
            ops.append(["y", row])
    return ops


# ----------------------------------------------------------------------------- real code
def make_class(g, vendor):
    from annet.generators import PartialGenerator, NotSupportedDevice
    ops, acl, mode = g["ops"], g["acl"], g["mode"]
    v = OTHER[vendor] if mode == "other-vendor" else vendor

    def run(self, device):
        if mode == "raises":
            raise NotSupportedDevice("not for this device")
        yield from c10._interp(self, ops)

    members = {"run_" + v: run}
    if mode == "acl-none":
        members["acl_" + v] = lambda self, device: None
    elif mode != "no-acl-func":
        members["acl_" + v] = lambda self, device: acl
    return type(str(g["name"]), (PartialGenerator,), members)


def run_old_new(case):
    """the real annet.gen._old_new_per_device for the case's device (exceptions propagate)"""
    from annet import gen as agen
    dev = c10.StubDevice(MODELS[case["vendor"]])
    dev.tags = []
    gens = [make_class(g, case["vendor"])(dev.storage) for g in case["gens"]]
    args = types.SimpleNamespace(
        fail_on_empty_config=False, no_acl=False, acl_safe=False, generators_context=None, profile=False,
        no_acl_exclusive=not case.get("exclusive", True), required_packages_check=False, filter_acl=None,
        filter_ifaces=None, filter_peers=None, filter_policies=None)
    dg = agen.DeviceGenerators(partial={dev: gens}, ref={dev: []})
    text = config_text(case["old"])
    if text:
        config, stdin = "-", {"config": text, "filter_acl": None}
    else:
        config, stdin = "empty", None
    ctx = agen.OldNewDeviceContext(
        config=config, args=args, downloaded_files={}, failed_files={}, running={}, failed_running={},
        no_new=bool(case.get("no_new")), stdin=stdin, add_annotations=False, add_implicit=False, do_files_download=False,
        gens=dg, fetched_packages={}, failed_packages={}, device_count=1, do_print_perf=False)
    return dev, agen._old_new_per_device(ctx, dev, None)


def parsed_old(case):
    """the device text as the vendor's formatter + tabparser read it (the case is in domain when that is case['old'])"""
    from annet.annlib import tabparser
    from annet.vendors import registry_connector
    text = config_text(case["old"])
    if not text:
        return []
    fmt = registry_connector.get()[case["vendor"]].make_formatter()
    return c10._tree(tabparser.parse_to_tree(text=text, splitter=fmt.split))
