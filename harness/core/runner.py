"""Runs one property check: proof part (P), tie (T), oracle/search (S); writes evidence.

Property modules (harness/props/cXX.py) provide:
  ID, RULE, TRUSTED_BASE, ASSUMPTIONS
  shards(tier, seed) -> [desc]            small JSON-able shard descriptors
  gen(desc) -> iterator of cases          deterministic from desc
  impl(case) -> canonical result          runs the REAL annet code
  requests(case) -> [driver requests]     ([] = case not sent to the model)
  model(case, responses) -> canonical result to compare with impl(case)
  oracle(case, impl_result) -> [ {"sig":..., "what":...} ]   direct property oracle (impl only)
  nontrivial(case, impl_result) -> bool
  stats(case, impl_result) -> [labels]
optional:
  setup_worker(), corpus_cases(), search(case) -> iterator of cases,
  shrink_candidates(case) -> iterator of smaller cases,
  extra(tier, seed, ctx) -> {"violations":[], "tie_failures":[], "coverage":{}}
"""
import collections
import hashlib
import importlib
import json
import multiprocessing as mp
import os
import sys
import time
import traceback

from . import bridge, leanproj
from .paths import EVIDENCE, KNOWN, REPLAYS, CORPUS, VERIF

MAX_KEEP = 20


def _h(obj):
    return hashlib.blake2b(json.dumps(obj, sort_keys=True, ensure_ascii=True).encode(), digest_size=8).digest()


def canon(obj):
    return json.loads(json.dumps(obj, sort_keys=True))


_MOD = None


def _init_worker(modname):
    global _MOD
    sys.setrecursionlimit(10000)
    _MOD = importlib.import_module(modname)
    if hasattr(_MOD, "setup_worker"):
        _MOD.setup_worker()


def safe_impl(mod, case):
    try:
        return mod.impl(case)
    except Exception as e:  # noqa  an unexpected exception is a result, never a crash of the check
        return {"err": "Unexpected:%s" % type(e).__name__, "msg": str(e)[:200]}


def eval_cases(mod, cases, use_model=True):
    """gen -> impl -> oracle -> model -> compare, for a list of cases."""
    out = dict(n=0, nontrivial=set(), stats=collections.Counter(), violations=[], disagreements=[],
               samples=[], model_evals=0, driver_fail=None)
    impl_res = []
    reqs = []
    spans = []
    for case in cases:
        r = canon(safe_impl(mod, case))
        impl_res.append(r)
        out["n"] += 1
        try:
            for v in mod.oracle(case, r) or []:
                if len(out["violations"]) < 200:
                    out["violations"].append(dict(case=case, impl=r, sig=v["sig"], what=v["what"]))
        except Exception as e:
            out["violations"].append(dict(case=case, impl=r, sig="oracle-crash", what="oracle raised %r" % e))
        try:
            if mod.nontrivial(case, r):
                out["nontrivial"].add(_h(case))
            for lab in mod.stats(case, r) or []:
                out["stats"][lab] += 1
        except Exception:
            out["stats"]["stats-crash"] += 1
        if len(out["samples"]) < 3:
            out["samples"].append(dict(case=case, impl=r))
        rq = mod.requests(case) if use_model else []
        spans.append((len(reqs), len(rq)))
        reqs.extend(rq)
    if reqs:
        try:
            resp = bridge.run_requests(reqs)
        except Exception as e:
            out["driver_fail"] = repr(e)[:300]
            resp = None
        if resp is not None:
            for case, r, (a, n) in zip(cases, impl_res, spans):
                if n == 0:
                    continue
                out["model_evals"] += 1
                try:
                    m = canon(mod.model(case, resp[a:a + n]))
                except Exception as e:
                    m = {"model-glue-error": repr(e)[:200], "raw": resp[a:a + n]}
                if isinstance(m, dict) and m.get("skip"):
                    out["model_evals"] -= 1
                    out["stats"]["model-skip(outside modelled domain)"] += 1
                    continue
                if m != r and len(out["disagreements"]) < 50:
                    out["disagreements"].append(dict(case=case, impl=r, model=m))
                elif m != r:
                    out["stats"]["more-disagreements"] += 1
    return out


def _work(desc):
    mod = _MOD
    try:
        cases = list(mod.gen(desc))
        # chunk so that request batches stay small
        res = None
        for i in range(0, len(cases), 5000):
            part = eval_cases(mod, cases[i:i + 5000])
            if res is None:
                res = part
            else:
                res["n"] += part["n"]
                res["nontrivial"] |= part["nontrivial"]
                res["stats"].update(part["stats"])
                res["violations"] = (res["violations"] + part["violations"])[:200]
                res["disagreements"] = (res["disagreements"] + part["disagreements"])[:50]
                res["model_evals"] += part["model_evals"]
                res["driver_fail"] = res["driver_fail"] or part["driver_fail"]
        if res is None:
            res = eval_cases(mod, [])
        return res
    except Exception:
        return dict(crash=traceback.format_exc(), desc=desc)


def load_known(prop_id):
    if not os.path.exists(KNOWN):
        return {}
    data = json.load(open(KNOWN))
    return {f["signature"]: f for f in data.get("findings", []) if f["property"] == prop_id}


def write_replay(prop_id, kind, payload):
    os.makedirs(REPLAYS, exist_ok=True)
    name = "%s-%s-%s.json" % (prop_id, kind, _h(payload).hex())
    p = os.path.join(REPLAYS, name)
    with open(p, "w") as f:
        json.dump(payload, f, indent=1, sort_keys=True)
    return os.path.relpath(p, VERIF)


def shrink(mod, viol):
    """Greedy shrinking: keep a candidate if the same signature still fails on the real code."""
    if not hasattr(mod, "shrink_candidates"):
        return viol
    best = viol
    budget = 400
    # wall-clock limit per signature (slow implementations, e.g. real process pools): the replay is then the
    # smallest failing case found so far
    deadline = time.time() + float(os.environ.get("VERIF_SHRINK_SECONDS", getattr(mod, "SHRINK_SECONDS", 120)))
    progress = True
    while progress and budget > 0 and time.time() < deadline:
        progress = False
        for cand in mod.shrink_candidates(best["case"]):
            budget -= 1
            if budget <= 0 or time.time() > deadline:
                break
            try:
                r = canon(safe_impl(mod, cand))
                vs = [v for v in (mod.oracle(cand, r) or []) if v["sig"] == best["sig"]]
            except Exception:  # noqa  a candidate the oracle cannot judge is simply not kept: the violation found stands
                continue
            if vs:
                best = dict(case=cand, impl=r, sig=best["sig"], what=vs[0]["what"])
                progress = True
                break
    return best


def run(prop_id, tier, seed, replay=None):
    t0 = time.time()
    modname = "harness.props.%s" % prop_id.lower()
    mod = importlib.import_module(modname)
    if hasattr(mod, "setup_worker"):
        mod.setup_worker()
    if replay:
        return do_replay(mod, prop_id, replay)

    # ---------------- translation (regenerate Lean tables from /repo), then P
    pregen_note = None
    if hasattr(mod, "pregen"):
        try:
            pregen_note = mod.pregen()
        except Exception as e:
            traceback.print_exc()
            pregen_note = "pregen failed: %r" % (e,)
    P = leanproj.proof_part(prop_id, tier, getattr(mod, "EXTRA_TARGETS", ()))
    use_model = P["driver_ok"]

    # ---------------- T + S
    total = dict(n=0, nontrivial=set(), stats=collections.Counter(), violations=[], disagreements=[],
                 samples=[], model_evals=0, driver_fail=None)
    crashes = []

    def merge(res):
        if "crash" in res:
            crashes.append(res)
            return
        total["n"] += res["n"]
        total["nontrivial"] |= res["nontrivial"]
        total["stats"].update(res["stats"])
        total["violations"].extend(res["violations"])
        total["disagreements"].extend(res["disagreements"])
        total["model_evals"] += res["model_evals"]
        total["driver_fail"] = total["driver_fail"] or res["driver_fail"]
        if len(total["samples"]) < 4:
            total["samples"].extend(res["samples"][:2])

    # corpus (minimised past failures and known-finding witnesses) runs first
    corpus = []
    cdir = os.path.join(CORPUS, prop_id)
    if os.path.isdir(cdir):
        for f in sorted(os.listdir(cdir)):
            if f.endswith(".json"):
                corpus.append(json.load(open(os.path.join(cdir, f)))["case"])
    if hasattr(mod, "corpus_cases"):
        corpus.extend(mod.corpus_cases())
    if corpus:
        merge(eval_cases(mod, corpus, use_model))

    descs = mod.shards(tier, seed)
    nproc = int(os.environ.get("VERIF_JOBS", "16"))
    if getattr(mod, "SERIAL", False) or nproc <= 1 or len(descs) <= 1:
        _init_worker(modname)
        for d in descs:
            merge(_work(d))
    else:
        ctx = mp.get_context("fork")
        with ctx.Pool(min(nproc, len(descs)), initializer=_init_worker, initargs=(modname,)) as pool:
            for res in pool.imap_unordered(_work, descs):
                merge(res)

    extra_cov = {}
    tie_failures = []
    if hasattr(mod, "extra"):
        ex = mod.extra(tier, seed, dict(P=P))
        total["violations"].extend(ex.get("violations", []))
        tie_failures.extend(ex.get("tie_failures", []))
        extra_cov = ex.get("coverage", {})
        total["n"] += ex.get("evaluations", 0)

    if pregen_note and str(pregen_note).startswith("pregen failed"):
        tie_failures.append(str(pregen_note))
    if crashes:
        print("INFRA-ERROR: worker crashed:\n" + crashes[0]["crash"])
        write_evidence(mod, prop_id, tier, seed, P, total, extra_cov, 0, [], t0, note="worker crash")
        return 2
    if total["driver_fail"]:
        tie_failures.append("driver failed: " + total["driver_fail"])

    # ---------------- search around disagreements (S on neighbours)
    searched = 0
    if (total["disagreements"] or not P["ok"]) and hasattr(mod, "search"):
        seeds = [d["case"] for d in total["disagreements"][:10]]
        for c0 in seeds:
            near = []
            for c in mod.search(c0):
                near.append(c)
                if len(near) >= 300:
                    break
            res = eval_cases(mod, near, use_model=False)
            searched += res["n"]
            total["violations"].extend(res["violations"])

    # ---------------- decide
    known = load_known(prop_id)
    seen_known = collections.OrderedDict()
    unlisted = []
    for v in total["violations"]:
        if v["sig"] in known:
            seen_known.setdefault(v["sig"], v)
        else:
            unlisted.append(v)
    if seen_known:
        sys.stdout.write("\n")        # own line, whatever the code under test left unfinished on the terminal
    for sig, v in seen_known.items():
        print("KNOWN-FINDING: property=%s %s [%s]" % (prop_id, known[sig]["what"], sig))
    for sig in known:
        if sig not in seen_known:
            print("NOTE: listed finding %s of %s was not reproduced by this run" % (sig, prop_id))

    rc = 0
    lines = []
    if unlisted:
        # one VIOLATION line per distinct signature
        bysig = collections.OrderedDict()
        for v in unlisted:
            bysig.setdefault(v["sig"], v)
        for sig, v in bysig.items():
            v = shrink(mod, v)
            path = write_replay(prop_id, "violation", dict(property=prop_id, kind="failing-input", sig=sig,
                                                          what=v["what"], case=v["case"], impl=v["impl"]))
            lines.append("VIOLATION property=%s replay=%s" % (prop_id, path))
        rc = 1
    elif not P["ok"] or total["disagreements"] or tie_failures:
        payload = dict(property=prop_id, kind="no-failing-input-found",
                       proof_failures=P["failures"], proof_log_tail=P["log"][-2000:] if not P["ok"] else "",
                       tie_failures=tie_failures, translation_note=str(pregen_note) if pregen_note else "",
                       correspondence="impl vs Lean model (driver) for %s" % prop_id,
                       first_disagreements=total["disagreements"][:3],
                       searched_neighbours=searched, oracle_cases=total["n"])
        path = write_replay(prop_id, "unproved", payload)
        lines.append("VIOLATION property=%s replay=%s no-failing-input-found" % (prop_id, path))
        rc = 1
    if lines:
        # the code under test may have left an unfinished line on the terminal (a log record written by a worker without
        # its newline yet): every VIOLATION line must stand on a line of its own
        try:
            sys.stderr.flush()
        except Exception:  # noqa
            pass
        sys.stdout.write("\n")
    for l in lines:
        print(l)
    sys.stdout.flush()
    write_evidence(mod, prop_id, tier, seed, P, total, extra_cov, len(unlisted), list(seen_known), t0,
                   tie_failures=tie_failures, searched=searched)
    print("%s %s: P %d/%d, cases %d (model-compared %d, distinct non-trivial %d), disagreements %d, "
          "violations %d unlisted / %d known, %.1fs" % (
              prop_id, tier, P["discharged"], P["obligations"], total["n"], total["model_evals"],
              len(total["nontrivial"]), len(total["disagreements"]), len(unlisted), len(seen_known),
              time.time() - t0))
    return rc


def write_evidence(mod, prop_id, tier, seed, P, total, extra_cov, nviol, known_seen, t0, note=None,
                   tie_failures=(), searched=0):
    os.makedirs(EVIDENCE, exist_ok=True)
    cov = dict(
        obligations=P["obligations"], discharged=P["discharged"], checker_cmd=P["checker_cmd"],
        trusted_base=list(mod.TRUSTED_BASE),
        theorems=P["names"], axioms_per_theorem=P["axioms"], proof_failures=P["failures"],
        lean_files_scanned=P.get("scanned_files", []),
        evaluations=total["n"], distinct_nontrivial=len(total["nontrivial"]), rule=mod.RULE,
        samples=total["samples"][:4] or [{"note": "no cases"}],
        traces_validated_against_impl=total["model_evals"],
        model_impl_disagreements=len(total["disagreements"]), tie_failures=list(tie_failures),
        neighbours_searched=searched,
        distribution=dict(sorted(total["stats"].items())),
        known_findings_seen=known_seen,
        exhaustive=bool(getattr(mod, "EXHAUSTIVE", {}).get(tier, False)),
    )
    cov.update(extra_cov)
    if note:
        cov["note"] = note
    ev = dict(property_id=prop_id, tier=tier, seed=seed, level="proof", coverage=cov,
              assumptions=list(mod.ASSUMPTIONS), wall_s=round(time.time() - t0, 2), violations=nviol)
    with open(os.path.join(EVIDENCE, prop_id + ".json"), "w") as f:
        json.dump(ev, f, indent=1, sort_keys=True)


def do_replay(mod, prop_id, path):
    data = json.load(open(path))
    if data.get("kind") == "no-failing-input-found":
        print("replay: no failing input was found; unproved obligations / correspondence failures:")
        print(json.dumps({k: data[k] for k in ("proof_failures", "tie_failures", "first_disagreements")}, indent=1))
        return 1
    case = data["case"]
    r = canon(safe_impl(mod, case))
    vs = mod.oracle(case, r) or []
    print(json.dumps(dict(case=case, impl=r, violations=vs), indent=1))
    if vs:
        print("VIOLATION property=%s replay=%s" % (prop_id, path))
        return 1
    print("replay: property holds on this input now")
    return 0
