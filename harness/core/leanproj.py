"""Proof part (P): build the Lean project, scan for forbidden tokens, audit axioms."""
import fcntl
import os
import re
import subprocess
import time

from .paths import LEAN

ALLOWED_AXIOMS = {"propext", "Classical.choice", "Quot.sound"}
FORBIDDEN = re.compile(
    r"\b(sorry|admit|native_decide|bv_decide|implemented_by|unsafe)\b|^\s*axiom\s|maxHeartbeats\s+0\b",
    re.M)


def _env():
    env = dict(os.environ)
    env.pop("LEAN_PATH", None)
    return env


class Lock:
    def __enter__(self):
        os.makedirs(os.path.join(LEAN, ".lake"), exist_ok=True)
        self.f = open(os.path.join(LEAN, ".lake", "verif.lock"), "w")
        fcntl.flock(self.f, fcntl.LOCK_EX)
        return self

    def __exit__(self, *a):
        fcntl.flock(self.f, fcntl.LOCK_UN)
        self.f.close()


def _run(cmd, timeout=1800):
    p = subprocess.run(cmd, cwd=LEAN, env=_env(), stdout=subprocess.PIPE, stderr=subprocess.STDOUT,
                       text=True, timeout=timeout)
    out = "\n".join(l for l in p.stdout.splitlines() if "conda.cli.condarc" not in l)
    return p.returncode, out


def build(targets):
    """lake build <targets>; returns (ok, log)."""
    with Lock():
        rc, out = _run(["lake", "build"] + list(targets))
    return rc == 0, out


def strip_comments(src):
    # nested block comments
    out = []
    i, depth, n = 0, 0, len(src)
    while i < n:
        if src.startswith("/-", i):
            depth += 1
            i += 2
        elif depth and src.startswith("-/", i):
            depth -= 1
            i += 2
        elif depth:
            i += 1
        elif src.startswith("--", i):
            j = src.find("\n", i)
            i = n if j < 0 else j
        elif src[i] == '"':
            j = i + 1
            while j < n and src[j] != '"':
                j += 2 if src[j] == "\\" else 1
            out.append('""')
            i = j + 1
        else:
            out.append(src[i])
            i += 1
    return "".join(out)


def import_closure(roots):
    """files of this project reachable through `import AnnetModel.…` lines from the given root files"""
    seen, todo = set(), list(roots)
    while todo:
        f = todo.pop()
        if f in seen or not os.path.exists(f):
            continue
        seen.add(f)
        for m in re.finditer(r"^import\s+(AnnetModel(?:\.[A-Za-z0-9_]+)*)", open(f, encoding="utf-8").read(), re.M):
            todo.append(os.path.join(LEAN, *m.group(1).split(".")) + ".lean")
    return sorted(seen)


def forbidden_tokens(prop_id=None):
    """Scan the .lean files the property's theorems and the driver depend on (comments and strings removed)."""
    roots = [os.path.join(LEAN, "Driver.lean")]
    if prop_id:
        roots.append(os.path.join(LEAN, "AnnetModel", "Props", prop_id + ".lean"))
    hits = []
    files = import_closure(roots)
    for p in files:
        code = strip_comments(open(p, encoding="utf-8").read())
        for m in FORBIDDEN.finditer(code):
            hits.append("%s: %s" % (os.path.relpath(p, LEAN), m.group(0).strip()))
        rel = os.path.relpath(p, LEAN)
        if ("/Glue/" not in rel and rel != "Driver.lean") and re.search(r"\bpartial\s+def\b", code):
            hits.append("%s: partial def" % rel)
    return hits, files


def obligations(prop_id):
    """Names listed in the OBLIGATIONS block of Props/<id>.lean."""
    p = os.path.join(LEAN, "AnnetModel", "Props", prop_id + ".lean")
    if not os.path.exists(p):
        return []
    src = open(p, encoding="utf-8").read()
    m = re.search(r"/-!\s*OBLIGATIONS\s*\n(.*?)-/", src, re.S)
    if not m:
        return []
    return [l.strip() for l in m.group(1).splitlines() if l.strip() and not l.strip().startswith("--")]


def audit(prop_id, names):
    """#print axioms on every obligation. Returns {name: (ok, axioms|error)}."""
    d = os.path.join(LEAN, ".lake", "audit")
    os.makedirs(d, exist_ok=True)
    f = os.path.join(d, "Audit%s.lean" % prop_id)
    with open(f, "w") as fh:
        fh.write("import AnnetModel.Props.%s\n" % prop_id)
        for n in names:
            fh.write("#print axioms %s\n" % n)
    with Lock():
        rc, out = _run(["lake", "env", "lean", f])
    res = {}
    # parse messages: "'X' depends on axioms: [a, b]" / "'X' does not depend on any axioms"
    flat = re.sub(r"\s*\n\s+", " ", out)
    for n in names:
        m = re.search(r"'%s' depends on axioms: \[([^\]]*)\]" % re.escape(n), flat)
        if m:
            ax = [a.strip() for a in m.group(1).split(",") if a.strip()]
            bad = [a for a in ax if a not in ALLOWED_AXIOMS]
            res[n] = (not bad, ax)
            continue
        if re.search(r"'%s' does not depend on any axioms" % re.escape(n), flat):
            res[n] = (True, [])
            continue
        res[n] = (False, ["<not found or not checked>"])
    return res, out


def proof_part(prop_id, tier="quick", extra_targets=()):
    """Returns dict(ok, obligations, discharged, failures[], log, wall_s, checker_cmd, axioms)."""
    t0 = time.time()
    failures = []
    ok_drv, log_drv = build(["driver"])
    if not ok_drv:
        failures.append("driver build failed")
    targets = ["AnnetModel.Props.%s" % prop_id] + list(extra_targets)
    ok_b, log_b = build(targets)
    names = obligations(prop_id)
    if not names:
        failures.append("no OBLIGATIONS block in Props/%s.lean" % prop_id)
    axioms = {}
    discharged = 0
    log_a = ""
    if not ok_b:
        failures.append("lake build %s failed" % " ".join(targets))
    else:
        res, log_a = audit(prop_id, names)
        for n, (ok, ax) in res.items():
            axioms[n] = ax
            if ok:
                discharged += 1
            else:
                failures.append("theorem %s: not accepted or bad axioms %s" % (n, ax))
    hits, scanned = forbidden_tokens(prop_id)
    if hits:
        failures.append("forbidden tokens: " + "; ".join(hits[:10]))
        discharged = 0
    checker = "lake build driver %s && lake env lean .lake/audit/Audit%s.lean (#print axioms)" % (
        " ".join(targets), prop_id)
    if tier == "thorough" and ok_b:
        with Lock():
            rc, out = _run(["lake", "env", "leanchecker", "AnnetModel.Props.%s" % prop_id], timeout=3600)
        checker += " && lake env leanchecker AnnetModel.Props.%s" % prop_id
        if rc != 0:
            failures.append("leanchecker failed: " + out[-500:])
            discharged = 0
    return dict(ok=not failures, driver_ok=ok_drv, obligations=len(names), discharged=discharged,
                names=names, failures=failures, axioms=axioms, scanned_files=[os.path.relpath(f, LEAN) for f in scanned],
                log=(log_drv + "\n" + log_b + "\n" + log_a)[-6000:], wall_s=time.time() - t0,
                checker_cmd=checker)
