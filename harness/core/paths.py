import os
VERIF = os.path.dirname(os.path.dirname(os.path.dirname(os.path.abspath(__file__))))
REPO = os.environ.get("ANNET_REPO", "/repo")
LEAN = os.path.join(VERIF, "lean")
DRIVER = os.path.join(LEAN, ".lake", "build", "bin", "driver")
EVIDENCE = os.path.join(VERIF, "evidence")
REPLAYS = os.path.join(VERIF, "replays")
CORPUS = os.path.join(VERIF, "corpus")
KNOWN = os.path.join(VERIF, "known_findings.json")
