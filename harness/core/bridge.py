"""Line protocol to the compiled Lean driver."""
import json
import os
import subprocess
import tempfile

from .paths import DRIVER


class DriverError(Exception):
    pass


def run_requests(requests):
    """requests: list of dicts. Returns list of dict responses (same length)."""
    if not requests:
        return []
    if not os.path.exists(DRIVER):
        raise DriverError("driver binary missing: " + DRIVER)
    with tempfile.TemporaryFile("w+") as fin:
        for r in requests:
            fin.write(json.dumps(r, ensure_ascii=True, separators=(",", ":")))
            fin.write("\n")
        fin.flush()
        fin.seek(0)
        p = subprocess.run([DRIVER], stdin=fin, stdout=subprocess.PIPE, stderr=subprocess.PIPE)
    if p.returncode != 0:
        raise DriverError("driver exit %d: %s" % (p.returncode, p.stderr.decode()[-500:]))
    # one response per LF-terminated line: str.splitlines() would also cut at NEL, LS, PS, VT, FF … which the driver's
    # JSON printer leaves unescaped inside strings
    lines = p.stdout.decode("utf-8").split("\n")
    if lines and lines[-1] == "":
        lines.pop()
    if len(lines) != len(requests):
        raise DriverError("driver returned %d lines for %d requests" % (len(lines), len(requests)))
    return [json.loads(l) for l in lines]
