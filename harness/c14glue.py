"""C14 — generated families for the name glue between the policy generator and the list generators.

Two places derive the *name* of a list on both sides of the property's clause "every named list a policy statement
refers to is defined, under the same name, by the matching list generator fed the same inputs":

  * HAS_ANY over several community lists: annet/rpl_generators/entities.py mangle_united_community_list_name,
    community.py get_used_united_community_lists (list side: CommunityListGenerator.run_arista,
    CumulusPolicyGenerator._cumulus_communities) against policy.py _arista_match / cumulus_frr.py
    _get_match_community_names (policy side);
  * or_longer overrides of prefix lists: entities.py PrefixListNameGenerator (list side: PrefixListFilterGenerator
    run_huawei / run_arista, cumulus _cumulus_prefix_lists; policy side: _huawei_match / _arista_match /
    _cumulus_policy_match).

The cases have exactly the shape of the other C14 cases (harness/props/c14.py: vendor, policies, clists, plists,
aspaths, rds) plus a tag "glue"; they go through the same impl / model / oracle.  What differs is the distribution:

  has-any   HAS_ANY (and HAS) argument lists that name the same community list more than once, the same set of lists in
            different orders in different statements / policies, the de-duplicated and the repeated spelling side by side,
            the single lists used by actions next to the unions;
  or-longer match_v4 / match_v6 with overrides over the whole grid {None, 0, m} x {None, 0, n} (lower bound 0, upper
            bound 0, both, (None, n), (m, None), (m, n)), the same prefix list used with several different overrides
            and from several policies, the same override repeated (the definition must not be emitted twice).

Everything random derives from the shard seed.  This module never imports annet.
"""
import itertools
import random

VENDORS = ["huawei", "arista", "cumulus"]

# grids of or_longer bounds; 0 is a legal, falsy bound
GE = {"ip_prefix": [None, 0, 8, 16, 24], "ipv6_prefix": [None, 0, 32, 48]}
LE = {"ip_prefix": [None, 0, 24, 32], "ipv6_prefix": [None, 0, 64, 128]}

# community-like match fields on which the back-end expresses a HAS_ANY over more than one list
MULTI_ANY = {
    "huawei": ["community", "extcommunity_rt"],
    "arista": ["community", "large_community", "extcommunity_rt", "extcommunity_soo"],
    "cumulus": ["community", "large_community", "extcommunity_rt", "extcommunity_soo"],
}
# ... and a HAS over more than one list
MULTI_HAS = {
    "huawei": ["large_community", "extcommunity_soo"],
    "arista": ["community", "large_community", "extcommunity_rt", "extcommunity_soo"],
    "cumulus": ["community", "large_community", "extcommunity_rt", "extcommunity_soo"],
}


def _base():
    from harness.props import c14
    return c14


# ----------------------------------------------------------------------------- entities
def _clists(rng):
    """community lists of every type; all lists of one type share use_regex (a union of lists with different flags is
    an invalid input: ValueError), none is empty (empty lists are the recorded finding F14g)"""
    b = _base()
    out = []
    for ctype, names in b.CTYPES.items():
        regex = rng.random() < 0.12
        pool = b._members(rng, ctype, regex)
        for n in names:
            k = 1 if regex else rng.choice([1, 1, 2, 3])
            out.append(dict(name=n, members=[rng.choice(pool) for _ in range(k)], type=ctype,
                            logic=rng.choice(["OR", "OR", "AND"]), use_regex=regex))
    return out


def _plists(rng, zero_members=True):
    b = _base()
    out = []
    for n in b.V4:
        ms = []
        for _ in range(rng.choice([1, 1, 2, 3])):
            ln = rng.choice([0, 8, 16, 24])
            net = {0: "0.0.0.0/0", 8: "10.0.0.0/8", 16: "172.16.0.0/16", 24: "192.168.%d.0/24" % rng.randint(0, 3)}[ln]
            ol = [None, None]
            if rng.random() < 0.35:
                ol = [rng.choice([None, 0 if zero_members else None, ln, 24]), rng.choice([None, 32, 28])]
            ms.append([net, ol[0], ol[1]])
        out.append(dict(name=n, members=ms))
    for n in b.V6:
        ms = []
        for _ in range(rng.choice([1, 1, 2])):
            net = rng.choice(["2001:db8::/32", "2001:db8:abcd::/48", "::/0", "fe80::/10"])
            ol = [None, None]
            if rng.random() < 0.35:
                ol = [rng.choice([None, 0 if zero_members else None, 48, 64]), rng.choice([None, 128, 64])]
            ms.append([net, ol[0], ol[1]])
        out.append(dict(name=n, members=ms))
    return out


def _small_entities(rng):
    b = _base()
    aspaths = [dict(name=n, filters=[rng.choice(["65000", ".*", "123"])]) for n in b.ASP]
    rds = [dict(name=n, number=i + 1, members=["65000:%d" % (i + 1)]) for i, n in enumerate(b.RDS)]
    return aspaths, rds


SIDE_CONDS = [["metric", "==", 5], ["protocol", "==", "bgp"], ["interface", "==", "eth0"], ["as_path_filter", "==", "AS1"]]
SIDE_ACTS = [["set_local_pref", 100], ["set_metric", 7], ["set_tag", 3], ["set_origin", "igp"]]


def _side_act(rng, vendor):
    """an action every back-end expresses; sometimes one that uses a single community list (so that the list is needed
    on its own next to the unions it is part of)"""
    b = _base()
    if rng.random() < 0.4:
        return ["community", "add", [rng.choice(b.BASIC)]]
    return list(rng.choice(SIDE_ACTS))


# ----------------------------------------------------------------------------- has-any family
def _repeat(rng, base):
    seq = list(base)
    for _ in range(rng.choice([1, 1, 2])):
        seq.insert(rng.randint(0, len(seq)), rng.choice(base))
    return seq


def _dedup(seq):
    return list(dict.fromkeys(seq))


def gen_hasany_case(rng):
    b = _base()
    vendor = rng.choice(VENDORS)
    clists = _clists(rng)
    plists = _plists(rng, zero_members=False)
    aspaths, rds = _small_entities(rng)
    memory = {}                     # field -> argument lists already used in this program
    policies = []
    for pn in rng.sample(b.POLNAMES, rng.choice([1, 2, 2, 3])):
        stmts = []
        num = 0
        for _ in range(rng.choice([1, 2, 2, 3, 4])):
            num += rng.choice([1, 5, 10])
            conds = []
            fields = rng.sample(MULTI_ANY[vendor], rng.choice([1, 1, 2]) if len(MULTI_ANY[vendor]) > 1 else 1)
            for f in fields:
                pool = b.CTYPES[b.COMM_FIELDS[f]]
                op = "has_any"
                if rng.random() < 0.12 and f in MULTI_HAS[vendor]:
                    op = "has"
                prev = memory.setdefault((f, op), [])
                x = rng.random()
                if prev and x < 0.45:
                    old = rng.choice(prev)
                    y = rng.random()
                    if y < 0.25:
                        names = list(old)                                   # the same spelling again
                    elif y < 0.6:
                        names = list(old)
                        rng.shuffle(names)                                  # the same lists in another order
                    elif y < 0.8:
                        names = _dedup(old)                                 # the de-duplicated spelling
                    else:
                        names = _repeat(rng, _dedup(old))                   # another repeated spelling
                elif x < 0.85:
                    names = _repeat(rng, rng.sample(pool, rng.randint(1 if rng.random() < 0.2 else 2, len(pool))))
                else:
                    names = rng.sample(pool, rng.randint(2, len(pool)))
                prev.append(names)
                conds.append([f, op, names])
            if rng.random() < 0.3:
                conds.append(list(rng.choice(SIDE_CONDS)))
            if rng.random() < 0.2:
                conds.append(["ip_prefix", "match", [rng.choice(b.V4)], [None, None]])
            acts = [_side_act(rng, vendor) for _ in range(rng.choice([0, 0, 1, 1]))]
            stmts.append(dict(number=num, name=rng.choice([None, "st%d" % num]), conds=conds, acts=acts,
                              result=rng.choice(["allow", "deny", "next", None])))
        policies.append(dict(name=pn, stmts=stmts))
    return dict(vendor=vendor, policies=policies, clists=clists, plists=plists, aspaths=aspaths, rds=rds, glue="has-any")


# ----------------------------------------------------------------------------- or-longer family
def _bounds(rng, f):
    ge = rng.choice([None, 0, 0] + GE[f][2:])
    le = rng.choice([None, 0] + LE[f][2:] + LE[f][2:])
    return [ge, le]


def gen_orlonger_case(rng):
    b = _base()
    vendor = rng.choice(VENDORS)
    clists = _clists(rng)
    plists = _plists(rng)
    aspaths, rds = _small_entities(rng)
    # a palette of overrides per family: statements draw from it, so the same override comes back in other statements
    # and other policies and one list gets several different overrides
    palette = {f: [_bounds(rng, f) for _ in range(rng.choice([2, 3, 4]))] + [[None, None]] * rng.choice([0, 1]) for f in ("ip_prefix", "ipv6_prefix")}
    policies = []
    for pn in rng.sample(b.POLNAMES, rng.choice([1, 2, 2, 3])):
        stmts = []
        num = 0
        for _ in range(rng.choice([1, 2, 3, 3, 4])):
            num += rng.choice([1, 5, 10])
            conds = []
            fams = rng.choice([["ip_prefix"], ["ipv6_prefix"], ["ip_prefix", "ipv6_prefix"]])
            for f in fams:
                pool = b.V4 if f == "ip_prefix" else b.V6
                names = rng.sample(pool, rng.choice([1, 1, 2]))
                if rng.random() < 0.05:
                    names = names + [names[0]]
                conds.append([f, "match", names, list(rng.choice(palette[f]))])
            if rng.random() < 0.3:
                conds.append(list(rng.choice(SIDE_CONDS)))
            if rng.random() < 0.15:
                conds.append(["community", "has_any", [rng.choice(b.BASIC)]])
            acts = [_side_act(rng, vendor) for _ in range(rng.choice([0, 0, 1, 1]))]
            stmts.append(dict(number=num, name=rng.choice([None, "st%d" % num]), conds=conds, acts=acts,
                              result=rng.choice(["allow", "deny", "next", None])))
        policies.append(dict(name=pn, stmts=stmts))
    return dict(vendor=vendor, policies=policies, clists=clists, plists=plists, aspaths=aspaths, rds=rds, glue="or-longer")


# ----------------------------------------------------------------------------- systematic part
def shape_cases(level):
    """every override of the bounds grid alone and all together on one list; every HAS_ANY spelling over two lists of
    length <= 3 (<= 4 at level 2) alone, with its reversal and with its de-duplicated spelling"""
    b = _base()
    rng = random.Random(11)
    clists = _clists(rng)
    for c in clists:
        c["use_regex"] = False
        c["logic"] = "OR"
        c["members"] = {"BASIC": ["65000:1", "100:200"], "RT": ["65000:100"], "SOO": ["65001:200", "2.2.2.2:9"],
                        "LARGE": ["65000:1:1"]}[c["type"]]
    plists = [dict(name=n, members=[["10.0.0.0/8", None, None], ["0.0.0.0/0", 0, 32]]) for n in b.V4] + \
             [dict(name=n, members=[["2001:db8::/32", None, None], ["::/0", None, 64]]) for n in b.V6]
    aspaths, rds = _small_entities(rng)
    ent = dict(clists=clists, plists=plists, aspaths=aspaths, rds=rds)

    def stmt(number, conds, result="allow"):
        return dict(number=number, name=None, conds=conds, acts=[], result=result)

    def case(vendor, glue, *policies):
        return dict(vendor=vendor, policies=[dict(name=n, stmts=list(s)) for n, s in policies], glue=glue, **ent)

    for vendor in VENDORS:
        for f, pool in (("ip_prefix", b.V4), ("ipv6_prefix", b.V6)):
            grid = [[ge, le] for ge in GE[f] for le in LE[f]]
            for ol in grid:
                for k in (1, 2):
                    yield case(vendor, "or-longer", ("pol_a", [stmt(10, [[f, "match", pool[:k], ol]])]))
            # one list, every override, from two policies (second one in reverse order)
            yield case(vendor, "or-longer",
                       ("pol_a", [stmt(10 * (i + 1), [[f, "match", [pool[0]], ol]]) for i, ol in enumerate(grid)]),
                       ("POL-B", [stmt(10 * (i + 1), [[f, "match", [pool[0], pool[1]], ol]])
                                  for i, ol in enumerate(reversed(grid))]))
            if level > 1:
                for a, c in itertools.combinations(grid, 2):
                    yield case(vendor, "or-longer",
                               ("pol_a", [stmt(10, [[f, "match", [pool[0]], a]]), stmt(20, [[f, "match", [pool[0]], c]])]),
                               ("p3", [stmt(5, [[f, "match", [pool[0]], c]])]))
        for f in MULTI_ANY[vendor]:
            pool = b.CTYPES[b.COMM_FIELDS[f]]
            seqs = []
            for k in (2, 3) if level == 1 else (2, 3, 4):
                seqs.extend(list(s) for s in itertools.product(pool[:2], repeat=k))
            if len(pool) > 2:
                seqs += [[pool[0], pool[1], pool[2], pool[0]], [pool[2], pool[0], pool[2]], [pool[1], pool[2], pool[1], pool[0]]]
            for s in seqs:
                yield case(vendor, "has-any", ("pol_a", [stmt(10, [[f, "has_any", s]])]))
                if s != s[::-1]:
                    yield case(vendor, "has-any", ("pol_a", [stmt(10, [[f, "has_any", s]]), stmt(20, [[f, "has_any", s[::-1]]])]))
                if _dedup(s) != s:
                    yield case(vendor, "has-any", ("pol_a", [stmt(10, [[f, "has_any", s]])]),
                               ("POL-B", [stmt(10, [[f, "has_any", _dedup(s)]]), stmt(20, [[f, "has_any", s]])]))


def gen(desc):
    if desc["kind"] == "glue-shapes":
        for i, c in enumerate(shape_cases(desc["level"])):
            if i % desc["parts"] == desc["part"]:
                yield c
        return
    rng = random.Random(desc["seed"])
    one = gen_hasany_case if desc["kind"] == "glue-has-any" else gen_orlonger_case
    for _ in range(desc["n"]):
        yield one(rng)


# ----------------------------------------------------------------------------- reading the input (no annet involved)
COMM_FIELDS = ("community", "large_community", "extcommunity_rt", "extcommunity_soo")


def _conds(case):
    for pi, p in enumerate(case["policies"]):
        for si, s in enumerate(p["stmts"]):
            for c in s["conds"]:
                yield pi, si, c


def origin(case, name):
    """which construct of the *input* a (dangling / doubly defined) list name belongs to: the most specific of
       has-any-list-named-twice   a HAS_ANY over the lists of `name` in which some list is named more than once
       has-any-other-order        the lists of `name` are united by HAS_ANYs in more than one order
       has-any-union              some HAS_ANY over more than one list
       or-longer-zero-bound       a prefix match on a prefix of `name` whose override has a bound 0 (and is an override)
       or-longer-open-bound       ... an override with one bound unset
       or-longer-override         ... an override with two bounds
       None                       nothing of the above"""
    best = None
    rank = ["has-any-union", "has-any-other-order", "has-any-list-named-twice",
            "or-longer-override", "or-longer-open-bound", "or-longer-zero-bound"]

    def up(x):
        nonlocal best
        if best is None or rank.index(x) > rank.index(best):
            best = x
    parts = name.split("_OR_")
    orders = set()
    for _pi, _si, c in _conds(case):
        if c[0] in COMM_FIELDS and c[1] == "has_any" and len(c[2]) > 1 and set(parts) == set(c[2]):
            orders.add(tuple(_dedup(c[2])))
            up("has-any-list-named-twice" if len(set(c[2])) < len(c[2]) else "has-any-union")
        if c[0] in ("ip_prefix", "ipv6_prefix") and any(name == n or name.startswith(n + "_") for n in c[2]):
            ge, le = c[3]
            if ge is None and le is None:
                continue
            if not any((ge, le)):
                continue            # (0, 0), (0, None), (None, 0): not an override for annet (any() of the bounds)
            if ge == 0 or le == 0:
                up("or-longer-zero-bound")
            elif ge is None or le is None:
                up("or-longer-open-bound")
            else:
                up("or-longer-override")
    if len(orders) > 1 and best == "has-any-union":
        best = "has-any-other-order"
    return best


def labels(case):
    """distribution labels of the glue families"""
    g = case.get("glue")
    if not g:
        return []
    out = ["glue:%s" % g, "glue:%s:vendor=%s" % (g, case["vendor"])]
    orders = {}
    pl_over = {}
    pl_pol = {}
    over_pol = {}
    for pi, _si, c in _conds(case):
        if c[0] in COMM_FIELDS and len(c[2]) > 1:
            rep = len(set(c[2])) < len(c[2])
            out.append("glue:has-any:cond:%s over %s lists%s" % (c[1], ">=2" if len(set(c[2])) > 1 else "1",
                                                                 ", a list named twice" if rep else ""))
            if c[1] == "has_any":
                orders.setdefault((c[0], frozenset(c[2])), set()).add(tuple(c[2]))
        if c[0] in ("ip_prefix", "ipv6_prefix"):
            ge, le = c[3]
            shape = "(%s, %s)" % ("None" if ge is None else ("0" if ge == 0 else "m"),
                                  "None" if le is None else ("0" if le == 0 else "n"))
            out.append("glue:or-longer:cond:bounds=%s" % shape)
            for n in c[2]:
                pl_over.setdefault(n, set()).add((ge, le))
                pl_pol.setdefault(n, set()).add(pi)
                over_pol.setdefault((n, ge, le), set()).add(pi)
    if any(len(v) > 1 for v in orders.values()):
        out.append("glue:has-any:case:same lists united under >=2 spellings")
    if any(len({tuple(_dedup(t)) for t in v}) > 1 for v in orders.values()):
        out.append("glue:has-any:case:same lists united in >=2 orders")
    if any(len(v) > 1 for v in pl_over.values()):
        out.append("glue:or-longer:case:a list with >=2 different overrides")
    if any(len(v) > 1 for v in pl_pol.values()):
        out.append("glue:or-longer:case:a list used from >=2 policies")
    if any(len(v) > 1 for k, v in over_pol.items() if any(k[1:])):
        out.append("glue:or-longer:case:same override of a list in >=2 policies")
    return out
