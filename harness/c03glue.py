"""C03, the glue between the diff and what the operator is shown (helpers of harness/props/c03.py).

Three case kinds, all generated from the shard seed:

  fileglue  generated rulebooks (harness/rbgen.py, served through annet's RulebookProvider connector) through the file-mode
            front end `annet.api._read_old_new_diff_patch` and the statement of `file_diff_worker` that prints its `pre`
            (`gen_pre_as_diff`); the Lean model of make_diff / the `annet diff` text is compared as for the direct kinds
  filediff  the SHIPPED rulebooks (arista, huawei, cisco, nexus, iosxr, juniper) through `annet.api.file_diff_worker` on real
            files: a universe of vendor-shaped blocks (interfaces with settings, bgp / vrf / neighbors, policies, ...) of which
            old and new are two correlated selections, so blocks with children are removed / added / changed
  collapse  several devices through `annet.diff.collapse_diffs`, `annet.diff.gen_sort_diff` and `api.Deployer.diff_lines`;
            the devices' diffs come in families: identical, identical with other unchanged context, the same flattened lines
            under another nesting (a row lifted out of / sunk into a neighbouring block), different, differing in an snmp
            secret only (huawei; recorded by-design finding F03c)

The oracles state the property on the text that is shown: read back, the text gives the entries of the diff of THAT device
(d = strip_unchanged(make_diff(old, new, R))), same signs, same nesting; dropping the removed lines of the text leaves rows of
new only and misses only unchanged rows, dropping the added lines likewise for old."""
import copy
import os
import shutil
import tempfile
import types

from harness import rbgen

KINDS = ("fileglue", "filediff", "collapse")

# ------------------------------------------------------------------ connectors
_PROV = None


def _make_provider():
    from annet.rulebook import DefaultRulebookProvider

    class Provider(DefaultRulebookProvider):
        """serves generated rulebooks to annet.rulebook.get_rulebook for rbgen.Hw objects, the shipped ones otherwise"""
        table = {}

        def get_rulebook(self, hw):
            if isinstance(hw, rbgen.Hw):
                return Provider.table[hw.vendor + "|" + hw.tag]
            return super().get_rulebook(hw)
    return Provider


def setup():
    global _PROV
    if _PROV is None:
        _PROV = _make_provider()
        if rbgen._SETUP:
            raise RuntimeError("c03glue.setup() must run before rbgen.setup()")
        rbgen.setup(_PROV)


# ------------------------------------------------------------------ vendor-shaped universes
MODELS = {
    "arista": ["Arista DCS-7280", "Arista"],
    "huawei": ["Huawei CE6870", "Huawei NE40E", "Huawei S5700"],
    "cisco": ["Cisco Catalyst C2960"],
    "nexus": ["Cisco Nexus 5548"],
    "iosxr": ["Cisco ASR 9000"],
    "juniper": ["Juniper MX960", "Juniper QFX5100"],
}
WORDS = ["uplink", "server", "core", "edge", "lab", "CUST", "MGMT"]

_IF_ARISTA = ["description {w}", "mtu {m}", "no switchport", "shutdown", "ip address {ip}/31", "ipv6 address 2001:db8:{n}::1/64",
              "channel-group {k} mode active", "lacp rate fast", "speed forced 100gfull", "load-interval 30",
              "switchport mode trunk", "switchport trunk allowed vlan {n},{n}", "vrf {w}", "isis enable core",
              "service-profile {w}"]
_IF_HUAWEI = ["description {w}", "mtu {m}", "undo portswitch", "shutdown", "port link-type trunk", "port default vlan {n}",
              "stp edged-port enable", "lldp admin-status rx", "isis enable 1", "isis cost {n}", "ospf cost {n}",
              "jumboframe enable 9216", "qos queue {k} shaping cir {n}", "eth-trunk {k}", "mode lacp-static",
              "device transceiver 40GBASE-FIBER", "port trunk allow-pass vlan {n}"]
_IF_HUAWEI_VLOGIC = ["ip address {ip} 255.255.255.254", "ipv6 enable", "ipv6 address 2001:db8:{n}::1/64",
                     "ip binding vpn-instance {w}"]
_IF_CISCO = ["description {w}", "mtu {m}", "switchport mode trunk", "switchport access vlan {n}", "ip address {ip} 255.255.255.0",
             "channel-group {k}", "spanning-tree portfast", "shutdown", "vrf member {w}", "storm-control broadcast level 1.00",
             "ipv6 address 2001:db8:{n}::1/64"]

SPEC = {
    "arista": [
        ("hostname {w}", None, 2), ("ip routing", None, 1), ("ntp server {ip}", None, 2), ("snmp-server community {w} ro", None, 2),
        ("ip load-sharing trident fields ip", None, 1), ("no aaa root", None, 1), ("username {w} ssh-key ssh-rsa AAA{n}", None, 1),
        ("interface Ethernet{k}", _IF_ARISTA, 4), ("interface Ethernet{k}/1", _IF_ARISTA, 2), ("interface Loopback{k}", _IF_ARISTA, 2),
        ("interface Vlan{n}", _IF_ARISTA, 2), ("interface Port-Channel{k}", _IF_ARISTA, 2), ("interface Ethernet{k}.{n}", _IF_ARISTA, 1),
        ("interface Management1", _IF_ARISTA, 1),
        ("router bgp 65000", ["router-id {ip}", "neighbor {ip} remote-as {as}", "neighbor {ip} maximum-routes {n}",
                              "no bgp default ipv4-unicast", "maximum-paths 4",
                              ("vrf {w}", ["rd {n}:{n}", "neighbor {ip} remote-as {as}", "router-id {ip}"], 2),
                              ("address-family ipv4", ["neighbor {ip} activate", "network {p}"], 1)], 1),
        ("route-map {w} permit {n}", ["match ip address prefix-list {w}", "set local-preference {n}", "set metric {n}"], 2),
        ("ip prefix-list {w}", ["seq {n} permit {p}"], 2),
        ("ip access-list standard {w}", ["{n} permit {ip}"], 1),
        ("vrf instance {w}", ["rd {n}:{n}"], 2),
        ("management ssh", ["idle-timeout {n}", "vrf {w}"], 1),
        ("qos profile {w}", ["qos cos {k}"], 1),
    ],
    "huawei": [
        ("sysname {w}", None, 2), ("ntp unicast-server {ip}", None, 2), ("info-center loghost {ip}", None, 2),
        ("snmp-agent sys-info version v3", None, 1), ("ip route-static 0.0.0.0 0 {ip}", None, 2), ("stp mode rstp", None, 1),
        ("dhcp enable", None, 1), ("observe-port {k} interface 100GE1/0/{k}", None, 1),
        ("interface 100GE1/0/{k}", _IF_HUAWEI, 4), ("interface 25GE1/0/{k}", _IF_HUAWEI, 2),
        ("interface GigabitEthernet0/0/{k}", _IF_HUAWEI, 2), ("interface LoopBack{k}", _IF_HUAWEI, 2),
        ("interface Vlanif{n}", _IF_HUAWEI, 2), ("interface Eth-Trunk{k}", _IF_HUAWEI, 2), ("interface Eth-Trunk{k}.{n}", _IF_HUAWEI, 1),
        ("interface Tunnel{k}", ["tunnel-protocol mpls te", "destination {ip}", "mpls te tunnel-id {n}"], 1),
        ("bgp 65000", ["router-id {ip}", "peer {ip} as-number {as}", "peer {ip} description {w}", "group {w} external",
                       ("ipv4-family unicast", ["peer {ip} enable", "maximum load-balancing {k}", "import-route direct"], 1),
                       ("ipv6-family vpn-instance {w}", ["peer {ip} enable", "import-route static"], 1)], 1),
        ("acl name {w}", ["rule {n} permit ip source {ip} 0"], 2),
        ("route-policy {w} permit node {n}", ["if-match cost {n}", "apply local-preference {n}", "apply cost {n}"], 2),
        ("xpl route-filter {w}", ["if ip route-destination in {w} then", "approve", "refuse", "endif", "end-filter"], 2),
        ("ospf {k}", ["stub-router", ("area 0.0.0.{k}", ["network {ip} 0.0.0.0", "mpls-te enable"], 2)], 1),
        ("user-interface vty 0 4", ["idle-timeout {n} 0", "protocol inbound ssh", "user privilege level {k}"], 1),
        ("explicit-path {w}", ["next hop {ip}"], 2),
        ("traffic behavior {w}", ["remark dscp {n}", "car cir {n}"], 1),
        ("diffserv domain {w}", ["8021p-inbound {k} phb af1 green", "ip-dscp-inbound {n} phb ef green"], 1),
        ("ip vpn-instance {w}", [("ipv6-family", ["route-distinguisher {n}:{n}", "export route-policy {w}"], 1)], 1),
    ],
    "cisco": [
        ("hostname {w}", None, 2), ("ip domain-name {w}.example", None, 1), ("snmp-server community {w} ro", None, 2),
        ("ntp server {ip}", None, 2), ("ip ssh version 2", None, 1), ("ip community-list standard {w} permit {n}:{n}", None, 2),
        ("interface Loopback{k}", ["description {w}", "ip address {ip} 255.255.255.255", "ipv6 address 2001:db8:{n}::1/128"], 2),
        ("router bgp 65000", ["router-id {ip}", "bgp log-neighbor-changes",
                              ("vrf {w}", ["router-id {ip}", ("address-family ipv4 unicast", ["maximum-paths {k}"], 1),
                                           ("neighbor {ip}", ["update-source Loopback0", "remote-as {as}"], 2)], 2)], 1),
        ("policy-map type qos {w}", [("class {w}", ["set qos-group {k}", "police cir {n}"], 3)], 2),
        ("vlan {n}", ["name {w}"], 3), ("vrf context {w}", ["rd {n}:{n}"], 2),
        ("ip access-list {w}", ["{n} permit ip any any", "{n} deny ip {ip} any"], 2),
        ("line vty 0 4", ["exec-timeout {n}", "transport input ssh"], 1),
    ],
    "juniper": [
        ("system", ["host-name {w}", ("name-server", ["{ip}"], 1), ("ntp", ["server {ip}", "source-address {ip}"], 1)], 1),
        ("interfaces", [("et-0/0/{k}", ["description {w}", "mtu {m}", "hold-time up {n} down 0",
                                        ("unit {k}", ["description {w}", "mtu {m}", ("family inet", ["address {ip}/31"], 1)], 2)], 4),
                        ("lo0", [("unit 0", [("family inet", ["address {ip}/32"], 1)], 1)], 1)], 1),
        ("protocols", [("mpls", [("path {w}", ["{ip} strict"], 2), "interface all"], 1),
                       ("isis", ["overload", "level 1 disable"], 1),
                       ("bgp", [("group {w}", ["type internal", "neighbor {ip}", "local-as {as}"], 2)], 1)], 1),
        ("policy-options", [("policy-statement {w}", [("term {w}", ["from protocol bgp", "then accept", "then reject"], 3)], 2),
                            ("prefix-list {w}", ["{p}"], 2), "community {w} members {n}:{n}"], 1),
        ("firewall", [("family inet", [("filter {w}", [("term {w}", ["from protocol tcp", "then accept", "then discard"], 3)], 2)], 1)], 1),
        ("snmp", [("community {w}", ["authorization read-only"], 2)], 1),
        ("routing-options", ["autonomous-system {as}", "router-id {ip}", ("static", ["route 0.0.0.0/0 next-hop {ip}"], 1)], 1),
        ("chassis", [("fpc {k}", [("pic {k}", ["tunnel-services bandwidth 10g"], 1)], 2)], 1),
    ],
}
# the rows below are compared by vendor %diff_logic functions (out of the property's projection clause; the text must still
# read back to the diff entries): they are added to a fraction of the universes only
SPEC_VLOGIC = {
    "huawei": [("vlan {n}", ["name {w}"], 2), ("vlan batch {n} {n}", None, 1),
               ("aaa", ["local-user {w} password irreversible-cipher X{n}", "local-user {w} level {k}",
                        ("domain {w}", ["authentication-scheme {w}"], 1)], 1)],
    "cisco": [("interface Ethernet1/{k}", _IF_CISCO, 3), ("interface GigabitEthernet0/{k}", _IF_CISCO, 2),
              ("interface Vlan{n}", _IF_CISCO, 2), ("interface port-channel{k}", _IF_CISCO, 1)],
}
SPEC["nexus"] = [e for e in SPEC["cisco"] if not e[0].startswith(("interface Loopback", "hostname", "ip domain-name"))] + [
    ("policy-map type queuing {w}", [("class type queuing {w}", ["bandwidth percent {n}"], 2)], 1)]
SPEC["iosxr"] = SPEC["cisco"] + [
    ("route-policy {w}", ["if destination in {w} then", "pass", "drop", "endif", "end-policy"], 2),
    ("prefix-set {w}", ["{p},", "{p}", "end-set"], 2),
]
SPEC_VLOGIC["nexus"] = SPEC_VLOGIC["cisco"]
SPEC_VLOGIC["iosxr"] = SPEC_VLOGIC["cisco"]
for _v in ("huawei",):
    SPEC_VLOGIC[_v] = SPEC_VLOGIC[_v] + [("interface 10GE1/0/{k}", _IF_HUAWEI + _IF_HUAWEI_VLOGIC, 2)]


def inst(rng, tpl):
    out = tpl
    while "{" in out:
        i = out.index("{")
        j = out.index("}", i)
        k = out[i + 1:j]
        if k == "n":
            v = str(rng.choice([5, 10, 20, 30, 100, 200, 300]))
        elif k == "m":
            v = str(rng.choice([1500, 9000, 9100, 9216]))
        elif k == "k":
            v = str(rng.randint(1, 6))
        elif k == "w":
            v = rng.choice(WORDS)
        elif k == "ip":
            v = "10.%d.%d.%d" % (rng.randint(0, 3), rng.randint(0, 3), rng.randint(1, 9))
        elif k == "p":
            v = "10.%d.0.0/16" % rng.randint(0, 9)
        elif k == "as":
            v = str(65000 + rng.randint(1, 9))
        else:
            raise ValueError(k)
        out = out[:i] + v + out[j + 1:]
    return out


STATES = ["B"] * 11 + ["O"] * 3 + ["N"] * 3      # B: in old and new, O: old only, N: new only


def universe(rng, spec, p_incl=0.55, depth=0):
    """nodes [row, kids, state]; old / new are the selections `side(u, "O")` / `side(u, "N")`"""
    out, used = [], set()
    for e in spec:
        tpl, kids, reps = (e, None, 2) if isinstance(e, str) else e
        if rng.random() > (p_incl if depth == 0 else 0.5):
            continue
        for _ in range(rng.randint(1, reps)):
            row = inst(rng, tpl)
            if row in used:
                continue
            used.add(row)
            out.append([row, universe(rng, kids, p_incl, depth + 1) if kids else [], rng.choice(STATES)])
    rng.shuffle(out)
    return out


def one_row_per_key(u, model):
    """a device has one row per (rule, key) (one mtu, one description per interface): where the universe would put two of them
    on one side, the later one is moved to the other side (a changed value) or dropped.  Which rows share a key is asked of the
    shipped rulebook; this only shapes the generated input"""
    from annet import rulebook
    from annet.annlib import patching
    rb = rulebook.get_rulebook(_hw(model))

    def full(nodes):
        return rbgen.to_odict([[n[0], []] for n in nodes])

    def walk(nodes, rules):
        pre = patching.apply_diff_rb(full(nodes), full([]), {"patching": rules})
        taken, keep = {}, []
        for n in nodes:
            if n[0] in pre:
                m = pre[n[0]]["match"]
                k = (m["raw_rule"], tuple(m["key"]))
                want = {"O", "N"} if n[2] == "B" else {n[2]}
                free = want - taken.setdefault(k, set())
                if not free:
                    continue
                if free != want:
                    n[2] = sorted(free)[0]
                taken[k] |= free
                (_m, sub) = patching._match_row_to_rules(n[0], rules)
                n[1] = walk(n[1], sub)
            keep.append(n)
        return keep
    return walk(u, rb["patching"])


def side(u, which):
    return [[row, side(kids, which)] for row, kids, st in u if st in ("B", which)]


def reorder_new(rng, tree, p=0.15):
    """new with some sibling groups in another order (what %ordered / %rewrite rules look at)"""
    out = [[r, reorder_new(rng, c, p)] for r, c in tree]
    if len(out) > 1 and rng.random() < p:
        i = rng.randrange(len(out) - 1)
        out[i], out[i + 1] = out[i + 1], out[i]
    return out


def _eff(st, parent):
    """state of a node as it is effectively, under a parent present on the sides `parent`"""
    if parent == "B":
        return st
    if st == "B" or st == parent:
        return parent
    return None      # absent on every side


def _nodes(u, parent="B", depth=0, out=None):
    """(sibling list, index, effective state of the node, effective state of its parent, depth) of every present node"""
    out = [] if out is None else out
    for i, n in enumerate(u):
        e = _eff(n[2], parent)
        if e is None:
            continue
        out.append((u, i, e, parent, depth))
        _nodes(n[1], e, depth + 1, out)
    return out


def renest(rng, u, maxdepth=3):
    """another universe with the same rows in the same pre-order and on the same sides, one row one level up (the last child
    of a block lifted out, to stand right after the block) or one level down (the row after a block sunk into it as its last
    child); None when no such move exists"""
    u = copy.deepcopy(u)
    cands = []
    for lst, i, e, pe, depth in _nodes(u):
        n = lst[i]
        if n[1]:
            ce = _eff(n[1][-1][2], e)
            if ce is not None and not any(x[0] == n[1][-1][0] for x in lst):
                cands.append(("lift", lst, i, ce, ce != "B"))
        if i + 1 < len(lst):
            c = lst[i + 1]
            ce = _eff(c[2], pe)
            if ce is not None and (e == "B" or ce == e) and depth + 1 + _height(c) <= maxdepth and \
                    not any(x[0] == c[0] for x in n[1]):
                cands.append(("sink", lst, i, ce, ce != "B"))
    if not cands:
        return None
    # prefer moves of rows that are added / removed (the lines that carry a sign in the text)
    pref = [c for c in cands if c[4]]
    how, lst, i, ce, _s = rng.choice(pref if pref and rng.random() < 0.8 else cands)
    n = lst[i]
    if how == "lift":
        c = n[1].pop()
        c[2] = ce
        lst.insert(i + 1, c)
    else:
        c = lst.pop(i + 1)
        c[2] = ce
        n[1].append(c)
    return u


def _height(n):
    return 1 + max([_height(k) for k in n[1]] or [0])


def add_context(rng, u, spec):
    """the same universe plus rows present on both sides (unchanged context: the diff stays what it was)"""
    u = copy.deepcopy(u)
    have = set(n[0] for n in u)
    for n in universe(rng, spec, 0.3):
        if n[0] not in have:
            _set_state(n, "B")
            u.insert(rng.randint(0, len(u)), n)
            have.add(n[0])
    return u


def _set_state(n, st):
    n[2] = st
    for k in n[1]:
        _set_state(k, st)


# ------------------------------------------------------------------ nestable generated rulebook (collapse, rb = "nest")
NEST_WORDS = ["p", "q", "r", "s"]


def nest_ptext(rng, maxdepth=3):
    """every word is known at every level down to maxdepth, so that a row keeps being known when it is re-nested"""
    def level(d):
        lines = []
        for w in NEST_WORDS:
            attr = ""
            x = rng.random()
            if d > 0 and x < 0.12:
                attr = "  %ordered"
            lines.append("    " * d + w + " *" + attr)
            if d + 1 < maxdepth:
                lines.extend(level(d + 1))
        return lines
    return "\n".join(level(0)) + "\n"


def nest_spec(depth=0, maxdepth=3):
    if depth >= maxdepth:
        return None
    return [("%s {k}" % w, nest_spec(depth + 1, maxdepth), 2) for w in NEST_WORDS]


# ------------------------------------------------------------------ rendering of config files
def render(tree, fmt, indent, _lvl=0):
    lines = []
    for row, ch in tree:
        if ch:
            lines.append(indent * _lvl + row + (fmt["block_begin"] if fmt["block_end"] else ""))
            lines.extend(render(ch, fmt, indent, _lvl + 1))
            if fmt["block_end"]:
                lines.append(indent * _lvl + fmt["block_end"])
        else:
            lines.append(indent * _lvl + row + (fmt["statement_end"] if fmt["block_end"] else ""))
    return lines


def fmt_params(f):
    return dict(indent=f._indent, block_begin=f._block_begin, block_end=f._block_end, statement_end=f._statement_end)


def formatter_of(vendor):
    from annet.vendors import registry_connector
    return registry_connector.get()[vendor].make_formatter()


# ------------------------------------------------------------------ generators
def gen_fileglue(rng):
    """generated rulebooks for the file-mode front end; the logics that rewrite their pre in place are over-represented"""
    c = rbgen.gen_case(rng)
    if rng.random() < 0.5:
        lines = []
        for ln in c["ptext"].split("\n"):
            if ln.strip() and "%" not in ln and not ln.strip().startswith("!") and rng.random() < 0.5:
                ln = ln + "  %logic=common." + rng.choice(["permanent", "permanent", "undo_redo", "ignore_changes"])
            lines.append(ln)
        c["ptext"] = "\n".join(lines)
    if rng.random() < 0.35:
        # blocks disappear as a whole (with their children)
        new = [x for x in c["new"] if not (x[1] and rng.random() < 0.5)]
        c["new"] = new
    c["kind"] = "fileglue"
    return c


def gen_filediff(rng):
    vendor = rng.choice(["arista", "arista", "huawei", "huawei", "cisco", "nexus", "iosxr", "juniper"])
    spec = list(SPEC[vendor])
    if vendor in SPEC_VLOGIC and rng.random() < 0.3:
        spec += SPEC_VLOGIC[vendor]
    model = rng.choice(MODELS[vendor])
    u = one_row_per_key(universe(rng, spec), model)
    old, new = side(u, "O"), side(u, "N")
    r = rng.random()
    if r < 0.05:
        new = copy.deepcopy(old)
    elif r < 0.3:
        new = reorder_new(rng, new)
    return dict(kind="filediff", vendor=vendor, model=model, old=old, new=new,
                file_indent=rng.choice([" ", "  ", "   ", "    "]), indent=rng.choice(["  ", "  ", "    ", " "]),
                show_rules=rng.random() < 0.15)


CIPHER_ROWS = ["snmp-agent community read cipher %s acl 2001",
               "snmp-agent target-host trap address udp-domain 10.0.0.1 params securityname cipher %s v2c"]


def gen_collapse(rng):
    shipped = rng.random() < 0.4
    if shipped:
        vendor = rng.choice(["arista", "huawei", "cisco", "juniper", "iosxr"])
        spec, ptext, maxdepth = SPEC[vendor], None, 5
        vendors = [vendor]
    else:
        spec, ptext, maxdepth = nest_spec(), nest_ptext(rng), 3
        vendors = [rng.choice(rbgen.VENDORS)]
        if rng.random() < 0.25:
            vendors.append(rng.choice(rbgen.VENDORS))
    base = universe(rng, spec, 0.35 if shipped else 0.5)
    devs = []
    fams = ["base"] + [rng.choice(["same", "context", "renest", "renest", "renest", "renest2", "other"])
                       for _ in range(rng.randint(1, 5))]
    if shipped and vendor == "huawei" and rng.random() < 0.25:
        # devices that differ in an snmp secret only (annet/diff.py:155-158 masks it in the grouping key: recorded finding)
        base.insert(rng.randint(0, len(base)), [rng.choice(CIPHER_ROWS) % "SECRET1", [], rng.choice(["N", "N", "O"])])
        fams.append("cipher")
        if rng.random() < 0.6:
            # ... and devices whose row differs in what FOLLOWS the secret (acl binding, trap version): another diff
            fams.append("ciphertail")
    for i, fam in enumerate(fams):
        u = base
        if fam == "context":
            u = add_context(rng, base, spec)
        elif fam in ("renest", "renest2"):
            u = renest(rng, base, maxdepth)
            if u is not None and fam == "renest2":
                u = renest(rng, u, maxdepth) or u
            if u is None:
                u, fam = base, "same"
        elif fam == "other":
            u = universe(rng, spec, 0.35 if shipped else 0.5)
        elif fam == "cipher":
            u = [[n[0].replace("SECRET1", "SECRET%d" % (i + 1)), n[1], n[2]] for n in base]
        elif fam == "ciphertail":
            u = [[n[0].replace("acl 2001", "acl 2999").replace(" v2c", " v3") if "SECRET1" in n[0] else n[0], n[1], n[2]]
                 for n in base]
        vendor = rng.choice(vendors)
        devs.append(dict(name="sw%d" % (i + 1), vendor=vendor, model=rng.choice(MODELS[vendor]) if shipped else None,
                         fam=fam, old=side(u, "O"), new=side(u, "N")))
    rng.shuffle(devs)
    return dict(kind="collapse", rb="shipped" if shipped else "nest", ptext=ptext, devs=devs,
                indent=rng.choice(["  ", "  ", "    "]))


# ------------------------------------------------------------------ reading the texts back
def parse_pre_text(lines, indent):
    """gen_pre_as_diff(): '<sign><indent*level> <row>' -> [(sign, row, children)]; rule comment lines (--show-rules) are
    not part of the description.  A line that does not fit the layout is kept as an entry of sign '?'"""
    root = []
    stack = [(-1, root)]
    for ln in lines:
        ln = ln.rstrip("\n")
        if ln.startswith("#"):
            continue
        sign, rest = ln[:1], ln[1:]
        lead = len(rest) - len(rest.lstrip(" "))
        if sign not in ("+", "-", " ", ">") or lead < 1 or (indent and (lead - 1) % len(indent)):
            root.append(("?", ln, []))
            continue
        lvl = (lead - 1) // len(indent) if indent else 0
        row = rest[lead:]
        while stack[-1][0] >= lvl:
            stack.pop()
        if stack[-1][0] != lvl - 1:
            root.append(("?", ln, []))
            continue
        node = (sign, row, [])
        stack[-1][1].append(node)
        stack.append((lvl, node[2]))
    return root


def multiset(entries):
    return sorted((s, r, multiset(c)) for s, r, c in entries)


def tolist(entries):
    return [[s, r, tolist(c)] for s, r, c in entries]


SIGN = {"removed": "-", "added": "+", "moved": ">", "affected": " "}


def signed(diff):
    return [(SIGN.get(str(op), "?"), row, signed(ch)) for (op, row, ch, m) in diff]


def signed_dump(dump):
    """from the canonical dump [op, row, children, match] (what impl returns and the Lean side answers)"""
    return [(SIGN.get(op, "?"), row, signed_dump(ch)) for (op, row, ch, _m) in dump]


def flat(entries, out=None):
    out = [] if out is None else out
    for s, r, c in entries:
        out.append((s, r))
        flat(c, out)
    return out


def first_difference(a, b, path=()):
    """a, b: multiset() forms; the first place where they differ, for the message"""
    for x, y in zip(a, b):
        if x[:2] != y[:2]:
            return "at %r: %r vs %r" % (path, x[:2], y[:2])
        if x[2] != y[2]:
            return first_difference(x[2], y[2], path + (x[1],))
    if len(a) != len(b):
        return "at %r: %d entries vs %d (%r)" % (path, len(a), len(b), (a[len(b):] or b[len(a):])[0][:2])
    return "equal"


# ------------------------------------------------------------------ the projection clause, on the text shown
STANDARD = ("default_diff", "ordered_diff", "rewrite_diff")


def in_scope(pre):
    """all rows are compared by the standard diff logics (the property's quantifier)"""
    for row, e in pre.items():
        a = e["match"]["attrs"]
        if a["diff_logic"].__name__ not in STANDARD or a.get("ignore_case") or a.get("multiline"):
            return False
        if not in_scope(e["subtree"]):
            return False
    return True


def _useq(a, b):
    return set(a) == set(b) and all(_useq(a[r], b[r]) for r in a)


def view_projection(view, old, new, path, out, name):
    """view: [(sign, row, children)] read back from the text; old / new: the configurations restricted to the rulebook, at this
    level.  Dropping removed lines must leave rows of new and miss only rows that did not change; likewise for old"""
    for s, r, c in view:
        if s == "+" and (r in old or r not in new):
            out.append(dict(sig=name + "-text-added-row-not-exactly-in-new",
                            what="%r is shown added at %r but is %s" % (r, path, "in old" if r in old else "not in new")))
        elif s == "-" and (r in new or r not in old):
            out.append(dict(sig=name + "-text-removed-row-not-exactly-in-old",
                            what="%r is shown removed at %r but is %s" % (r, path, "in new" if r in new else "not in old")))
        elif s in (" ", ">") and not (r in old and r in new):
            out.append(dict(sig=name + "-text-drop-%s-is-not-%s" % (("removed", "new") if r not in new else ("added", "old")),
                            what="%r is shown as staying (%r) at %r: dropping the %s lines of the text keeps it, but %s does not "
                                 "have it" % ((r, s, path) + (("removed", "new") if r not in new else ("added", "old")))))
        elif s == "?":
            out.append(dict(sig=name + "-text-unreadable", what="line %r does not fit the layout of the diff text" % (r,)))
    for which, side_, other, drop in (("new", new, old, "-"), ("old", old, new, "+")):
        shown = set(r for s, r, c in view if s != drop and s != "?")
        for r in side_:
            if r not in shown and not (r in other and _useq(side_[r], other[r])):
                out.append(dict(sig=name + "-text-misses-changed-row-of-" + which,
                                what="%r of %s at %r is not in the text although it is %s" % (
                                    r, which, path, "changed below" if r in other else "absent from the other side")))
    for s, r, c in view:
        if s != "?":
            view_projection(c, old.get(r, {}), new.get(r, {}), path + (r,), out, name)


# ------------------------------------------------------------------ fileglue: impl part and oracle part
def _synthetic_hw(case):
    hw = rbgen.Hw(case["vendor"])
    hw.tag = str(hash(case["ptext"] + "|" + case["otext"]))
    _PROV.table[hw.vendor + "|" + hw.tag] = rbgen.compile_rb(case["ptext"], case["otext"], case["vendor"])
    return hw


def file_glue(case):
    """what file_diff_worker does after reading the two files, on a generated rulebook"""
    from annet import api
    from annet import diff as ann_diff
    setup()
    hw = _synthetic_hw(case)
    try:
        old, new = rbgen.to_odict(case["old"]), rbgen.to_odict(case["new"])
        try:
            _, diff_obj, pre, __ = api._read_old_new_diff_patch(old, new, hw, add_comments=False)
            # file_diff_worker: gen_pre_as_diff(pre, args.show_rules, args.indent, args.no_color); the arguments are fixed here
            # so that the text can be compared with the Lean side's line by line (filediff varies them)
            lines = list(ann_diff.gen_pre_as_diff(pre, False, "  ", True))
        except Exception as e:  # noqa
            return {"file_err": type(e).__name__}
        return {"file_view": [ln.rstrip("\n") for ln in lines], "file_stripped": rbgen.dump_diff(diff_obj)}
    finally:
        _PROV.table.pop(hw.vendor + "|" + hw.tag, None)


def oracle_view(lines, indent, stripped, old, new, pre, name, out):
    """the text `lines` against the diff `stripped` of (old, new) and against old / new themselves"""
    back = parse_pre_text(lines, indent)
    a, b = multiset(back), multiset(signed(stripped))
    if a != b:
        out.append(dict(sig=name + "-text-is-not-the-diff",
                        what="the text shown (%r ...) read back differs from the entries of strip_unchanged(make_diff(old, new)) "
                             "per level as a multiset: %s (text vs diff)" % (lines[:6], first_difference(a, b))))
    if in_scope(pre):
        view_projection(back, old, new, (), out, name)
        return True
    return False


# ------------------------------------------------------------------ filediff: shipped rulebooks, real files
def _hw(model):
    from annet.annlib.netdev.views.hardware import HardwareView
    return HardwareView(model, "")


def file_texts(case):
    fmt = fmt_params(formatter_of(case["vendor"]))
    return ("\n".join(render(case["old"], fmt, case["file_indent"])) + "\n",
            "\n".join(render(case["new"], fmt, case["file_indent"])) + "\n")


def impl_filediff(case):
    from annet import api
    setup()
    old_text, new_text = file_texts(case)
    tmp = tempfile.mkdtemp(prefix="c03fd_")
    try:
        op, np_ = os.path.join(tmp, "old.cfg"), os.path.join(tmp, "new.cfg")
        with open(op, "w") as f:
            f.write(old_text)
        with open(np_, "w") as f:
            f.write(new_text)
        args = types.SimpleNamespace(hw=case["model"], show_rules=case["show_rules"], indent=case["indent"], no_color=True)
        try:
            res = list(api.file_diff_worker((op, np_), args))
        except Exception as e:  # noqa  vendor logic may refuse a generated pair: no text is shown at all
            return {"err": "file_diff_worker:" + type(e).__name__, "msg": str(e)[:120]}
        text = "".join(t for (_n, t, _b) in res)
        return {"labels": [n for (n, _t, _b) in res], "view": text.split("\n")[:-1] if text else []}
    finally:
        shutil.rmtree(tmp, ignore_errors=True)


def own_diff_shipped(vendor, model, old_tree, new_tree):
    """(rb, stripped diff, restricted old, restricted new, diff_pre) for trees given as lists, with the shipped rulebook"""
    from annet import patching, rulebook
    rb = rulebook.get_rulebook(_hw(model))
    d = patching.strip_unchanged(patching.make_diff(rbgen.to_odict(old_tree), rbgen.to_odict(new_tree), rb, []))
    old, new = rbgen.to_odict(old_tree), rbgen.to_odict(new_tree)
    pre = patching.apply_diff_rb(old, new, rb)
    return rb, d, old, new, pre


def parsed_files(case):
    """the two trees as annet reads them from the files"""
    from annet import tabparser
    f = formatter_of(case["vendor"])
    old_text, new_text = file_texts(case)
    return (rbgen.to_list(tabparser.parse_to_tree(old_text, f.split)), rbgen.to_list(tabparser.parse_to_tree(new_text, f.split)))


def oracle_filediff(case, r):
    setup()
    if "err" in r:
        return []
    out = []
    old_t, new_t = parsed_files(case)
    _rb, d, old, new, pre = own_diff_shipped(case["vendor"], case["model"], old_t, new_t)
    oracle_view(r["view"], case["indent"], d, old, new, pre, "file-diff", out)
    shown = [ln for ln in r["view"] if not ln.startswith("#")]       # rule comments of --show-rules are not entries
    if not d and shown:
        out.append(dict(sig="file-diff-text-for-empty-diff", what="no difference, but text %r is shown" % (shown[:3],)))
    return out


def stats_filediff(case, r):
    lab = ["kind=filediff", "filediff:vendor=" + case["vendor"]]
    if "err" in r:
        return lab + ["filediff:result=" + r["err"]]
    old_t, new_t = parsed_files(case)
    _rb, d, old, new, pre = own_diff_shipped(case["vendor"], case["model"], old_t, new_t)
    lab.append("filediff:projection-clause=" + ("checked" if in_scope(pre) else "out-of-scope(vendor diff_logic/ignore_case)"))
    lab += diff_shape_labels("filediff", d)
    if case["show_rules"]:
        lab.append("filediff:show-rules")
    return lab


def diff_shape_labels(prefix, d):
    lab = set()
    for (op, row, ch, m) in d:
        op = str(op)
        if ch and op in ("removed", "added"):
            lab.add("%s:%s-block-with-children" % (prefix, op))
            if m and m["attrs"]["logic"].__name__ == "permanent":
                lab.add("%s:%s-block-with-children-of-permanent-rule" % (prefix, op))
        if ch and op in ("affected", "moved"):
            lab.add("%s:changed-block" % prefix)
            if any(c[2] for c in ch):
                lab.add("%s:changed-block-depth>=3" % prefix)
    lab.add("%s:diff-%s" % (prefix, "nonempty" if d else "empty"))
    return sorted(lab)


# ------------------------------------------------------------------ collapse
class Dev:
    def __init__(self, name, hw):
        self.hostname = name
        self.fqdn = name
        self.id = None
        self.hw = hw

    def __repr__(self):
        return self.hostname


def _dev_hw(case, dev):
    from annet.vendors import registry_connector
    if case["rb"] == "shipped":
        return _hw(dev["model"])
    return registry_connector.get()[dev["vendor"]].hardware


def own_diffs(case):
    """name -> stripped diff of that device, computed by make_diff from the device's own pair"""
    from annet import patching
    out = {}
    for dev in case["devs"]:
        if case["rb"] == "shipped":
            out[dev["name"]] = own_diff_shipped(dev["vendor"], dev["model"], dev["old"], dev["new"])[1]
        else:
            rb = rbgen.compile_rb(case["ptext"], "", dev["vendor"])
            out[dev["name"]] = patching.strip_unchanged(
                patching.make_diff(rbgen.to_odict(dev["old"]), rbgen.to_odict(dev["new"]), rb, []))
    return out


def sections(lines):
    """Deployer.diff_lines(): '= host, host', '', diff lines ..., ''"""
    ret = []
    for ln in lines:
        if ln.startswith("= "):
            ret.append([[h.strip() for h in ln[2:].split(",")], []])
        elif ln and ret:
            ret[-1][1].append(ln)
        elif ln:
            ret.append([["?"], [ln]])
    return ret


def impl_collapse(case):
    from annet import api
    from annet import diff as ann_diff
    setup()
    try:
        own = own_diffs(case)
    except AssertionError:
        return {"err": "AssertionError"}
    devs = {dev["name"]: Dev(dev["name"], _dev_hw(case, dev)) for dev in case["devs"]}
    out = {}
    # 1. the grouping itself
    try:
        groups = ann_diff.collapse_diffs({devs[n]: copy.deepcopy(own[n]) for n in devs})
        out["groups"] = [[[d.hostname for d in g], tolist(signed(dobj))] for g, dobj in groups.items()]
    except Exception as e:  # noqa
        out["groups_err"] = type(e).__name__
    # 2. `annet diff`
    try:
        args = types.SimpleNamespace(no_collapse=False, show_rules=False, indent=case["indent"], no_color=True)
        view = []
        for label, text, _b in ann_diff.gen_sort_diff({devs[n]: copy.deepcopy(own[n]) for n in devs}, args):
            lines = [ln.rstrip("\n") for ln in (text if not isinstance(text, str) else text.split("\n"))]
            # the text as the harness's reader reads it back (per level as a multiset; unreadable lines have sign '?')
            view.append([label, multiset_list(parse_pre_text(lines, case["indent"]))])
        out["sorted"] = view
    except Exception as e:  # noqa
        out["sorted_err"] = type(e).__name__
    # 3. the deploy confirmation
    try:
        dep = api.Deployer(types.SimpleNamespace(no_ask_deploy=True))
        dep._collapseable_diffs = {devs[n]: copy.deepcopy(own[n]) for n in devs}
        out["deploy"] = list(dep.diff_lines())
    except Exception as e:  # noqa
        out["deploy_err"] = type(e).__name__
    return out


def oracle_collapse(case, r, parse_signed):
    setup()
    if "err" in r:
        return []
    out = []
    for k in ("groups_err", "sorted_err", "deploy_err"):
        if k in r:
            out.append(dict(sig="collapse-%s-raises" % k.split("_")[0], what="%s raised %s" % (k.split("_")[0], r[k])))
    own = own_diffs(case)
    names = [d["name"] for d in case["devs"]]
    vend = {d["name"]: d["vendor"] for d in case["devs"]}
    for name in names:
        mine = signed(own[name])
        # 1. collapse_diffs: the diff that stands for the device's group is the device's own
        if "groups" in r:
            gs = [g for g in r["groups"] if name in g[0]]
            if len(gs) != 1:
                out.append(dict(sig="collapse-device-in-%d-groups" % min(len(gs), 2),
                                what="%s is in %d groups of collapse_diffs" % (name, len(gs))))
            elif gs[0][1] != tolist(mine):
                out.append(dict(sig=_sig("collapse-group-diff-is-another-devices", _tup(gs[0][1]), mine),
                                what="collapse_diffs puts %s into the group %r whose diff is not the diff of %s: %s (group vs own)"
                                     % (name, gs[0][0], name, first_difference(multiset(_tup(gs[0][1])), multiset(mine)))))
        # 2. annet diff: the text under the label that names the device reads back to the device's diff
        if "sorted" in r:
            es = [e for e in r["sorted"] if name + ".cfg" in [x.strip() for x in e[0].split(",")]]
            if mine and len(es) != 1:
                out.append(dict(sig="annet-diff-device-shown-%d-times" % min(len(es), 2),
                                what="%s has a diff and is named by %d labels of gen_sort_diff" % (name, len(es))))
            for e in es:
                a, b = multiset(_tup(e[1])), multiset(mine)
                if a != b:
                    out.append(dict(sig=_sig("annet-diff-text-under-device-label-is-another-devices-diff", _tup(e[1]), mine),
                                    what="`annet diff` shows %s under %r with a text that read back is not the diff of %s: %s "
                                         "(text vs own diff)" % (name, e[0], name, first_difference(a, b))))
        # 3. deploy confirmation
        if "deploy" in r:
            ss = [s for s in sections(r["deploy"]) if name in s[0]]
            if len(ss) != 1:
                out.append(dict(sig="deploy-confirmation-device-shown-%d-times" % min(len(ss), 2),
                                what="%s is named by %d headers of the confirmation text" % (name, len(ss))))
            for s in ss:
                try:
                    back = parse_signed(s[1], formatter_of(vend[name]))
                except Exception as e:  # noqa
                    back = [("?", "unreadable: %r" % (e,), [])]
                if back != mine:
                    out.append(dict(sig=_sig("deploy-confirmation-text-under-device-header-is-another-devices-diff", back, mine),
                                    what="the confirmation shows %s under '= %s' with a text that read back is not the diff of "
                                         "%s: %s (text vs own diff)" % (name, ", ".join(s[0]), name,
                                                                        first_difference(multiset(back), multiset(mine)))))
    return out


def _tup(lst):
    return [(s, r, _tup(c)) for s, r, c in lst]


CIPHER_SIG = "collapsed-devices-differ-in-snmp-cipher-only"


def mask_cipher(entries):
    """the entries with the secret of `snmp-agent ... cipher <secret> ...` rows blanked (the harness's own reading of what
    annet/diff.py:155-158 declares irrelevant for grouping)"""
    import re
    return [(s, re.sub(r"^(snmp-agent .+) cipher \S+ (.+)$", r"\1 cipher * \2", r), mask_cipher(c)) for s, r, c in entries]


def _sig(base, shown, mine):
    """the recorded by-design deviation has its own signature: shown and own entries are the same up to snmp secrets"""
    if multiset(mask_cipher(shown)) == multiset(mask_cipher(mine)):
        return CIPHER_SIG
    return base


def stats_collapse(case, r):
    lab = ["kind=collapse", "collapse:rb=" + case["rb"], "collapse:devices=%d" % len(case["devs"])]
    if "err" in r:
        return lab + ["collapse:result=" + r["err"]]
    own = {n: signed(d) for n, d in own_diffs(case).items()}
    names = sorted(own)
    same = nest = 0
    for i, a in enumerate(names):
        for b in names[i + 1:]:
            if not own[a] and not own[b]:
                continue
            if own[a] == own[b]:
                same += 1
            elif flat(own[a]) == flat(own[b]):
                nest += 1
    if same:
        lab.append("collapse:has-devices-with-identical-diffs")
    if nest:
        lab.append("collapse:has-devices-with-same-flattened-lines-but-other-nesting")
    if len(set(d["vendor"] for d in case["devs"])) > 1:
        lab.append("collapse:mixed-vendors")
    if "groups" in r:
        lab.append("collapse:groups-with-several-devices=%s" % ("yes" if any(len(g[0]) > 1 and g[1] for g in r["groups"]) else "no"))
    for d in case["devs"]:
        lab.append("collapse:family=" + d["fam"])
    return lab


# ---- the part of the collapse glue that the Lean side can answer: texts of every device's own diff
def collapse_subcases(case):
    return [dict(vendor=d["vendor"], ptext=case["ptext"], otext="", old=d["old"], new=d["new"]) for d in case["devs"]]


def model_collapse(case, resps, grouping):
    """the result of impl_collapse predicted by the Lean side: the devices' diffs and formatter texts (rb.diff) and the
    grouping of `collapse_diffs` (rb.collapse = Model/Collapse.lean over those texts; annet/diff.py:167-182; the generated
    rows have no snmp cipher to mask); every group shows the diff of the device the model names"""
    names = [d["name"] for d in case["devs"]]
    vend = [d["vendor"] for d in case["devs"]]
    if any("err" in x for x in resps) or "err" in grouping:
        return {"err": "AssertionError"}
    items = []
    for n, v, x in zip(names, vend, resps):
        t = [t for t in x["texts"] if t[0] == v][0][1]
        items.append((n, v, list(t), x["stripped"], t))
    out = {"groups": [], "sorted": [], "deploy": []}
    for devs, idx in grouping["groups"]:
        shown = items[idx]
        sd = signed_dump(shown[3])
        out["groups"].append([list(devs), tolist(sd)])
        if sd:
            out["sorted"].append([", ".join(g + ".cfg" for g in devs), multiset_list(sd)])
        out["deploy"] += ["= " + ", ".join(devs), ""] + list(shown[4]) + [""]
    return out


def multiset_list(entries):
    return tolist(multiset(entries))


def shrink_collapse(case):
    devs = case["devs"]
    if len(devs) > 2:
        for i in range(len(devs)):
            yield dict(case, devs=devs[:i] + devs[i + 1:])

    def drops(tree):
        for i in range(len(tree)):
            yield tree[:i] + tree[i + 1:]
            for sub in drops(tree[i][1]):
                yield tree[:i] + [[tree[i][0], sub]] + tree[i + 1:]
    # the same row dropped from every device that has it keeps the family relation between the devices
    rows = []
    for d in devs:
        for s in ("old", "new"):
            for x in flat([("", r, _tup3(c)) for r, c in d[s]]):
                if x[1] not in rows:
                    rows.append(x[1])
    for row in rows:
        nd = [dict(d, old=_without(d["old"], row), new=_without(d["new"], row)) for d in devs]
        if nd != devs:
            yield dict(case, devs=nd)
    for i, d in enumerate(devs):
        for s in ("old", "new"):
            for nt in drops(d[s]):
                yield dict(case, devs=devs[:i] + [dict(d, **{s: nt})] + devs[i + 1:])


def _tup3(tree):
    return [("", r, _tup3(c)) for r, c in tree]


def _without(tree, row):
    return [[r, _without(c, row)] for r, c in tree if r != row]
