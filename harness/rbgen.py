"""Shared generator and real-code adapters for the rulebook pipeline (C01 C02 C03 C08 C16 C17 C20).

Generates patching / ordering rulebook *texts* over the rule grammar (compiled by the real compilers), config
pairs that instantiate the rules, and converts everything to the JSON the Lean driver understands."""
import random
import re
from collections import OrderedDict as odict

VENDORS = ["huawei", "cisco", "arista", "nexus", "routeros", "b4com"]
NOUNS = ["interface", "vlan", "ip", "description", "mtu", "bgp", "peer", "address", "shutdown", "port", "acl", "rule",
         "notify", "undoable"]     # the last two merely BEGIN with a vendor's negation word ("no", "undo")
VALS = ["Eth1", "Eth2", "10", "20", "foo", "bar"]
_SETUP = False


def setup(provider_cls=None):
    global _SETUP
    if _SETUP:
        return
    from annet.hardware import hardware_connector, AnnetHardwareProvider
    from annet.rulebook import rulebook_provider_connector, DefaultRulebookProvider
    hardware_connector.set(AnnetHardwareProvider)
    rulebook_provider_connector.set(provider_cls or DefaultRulebookProvider)
    _SETUP = True


class Hw:
    """what make_patch / Orderer need from a hardware object"""
    def __init__(self, vendor):
        self.vendor = vendor

    def __hash__(self):
        return hash(self.vendor)

    def __eq__(self, o):
        return isinstance(o, Hw) and o.vendor == self.vendor


def vendor_info(vendor):
    from annet.vendors import registry_connector
    v = registry_connector.get()[vendor]
    return dict(reverse=v.reverse, exit=v.exit, default_diff=v.diff(False), ordered_diff=v.diff(True))


# ------------------------------------------------------------------ rule texts
def gen_rule_row(rng, used):
    for _ in range(20):
        n = rng.choice([1, 1, 2, 2, 3])
        ws = [rng.choice(NOUNS)]
        for _ in range(n - 1):
            ws.append(rng.choice(NOUNS + ["*", "*", "*"]))
        if rng.random() < 0.2:
            ws.append("~")
        row = " ".join(ws)
        if row not in used:
            used.add(row)
            return row
    return None


LOGICS = ["common.undo_redo", "common.permanent", "common.ignore_changes"]


def gen_patching(rng, depth=0, maxdepth=3, logics=True, ignore=True, special=True):
    """-> list of (depth, rule text)"""
    out = []
    used = set()
    for _ in range(rng.randint(2, 5) if depth == 0 else rng.randint(1, 3)):
        row = gen_rule_row(rng, used)
        if row is None:
            continue
        if ignore and rng.random() < 0.06:
            out.append((depth, "!" + row))
            continue
        params = []
        is_global = rng.random() < 0.1
        kind = rng.random()
        if is_global:
            params.append("%global")
        if special and kind < 0.15:
            params.append("%ordered")
            if logics and rng.random() < 0.2:
                # legal, and without effect: %ordered decides both logics (rulebook/patching.py:96-101)
                params.append("%logic=" + rng.choice(LOGICS))
        elif special and kind < 0.25 and depth > 0:
            # as in the shipped rulebooks, %rewrite rules live inside a block ("xpl ~ / ~ %rewrite %global")
            params.append("%rewrite")
            if logics and rng.random() < 0.15:
                params.append("%logic=" + rng.choice(LOGICS))
        elif logics and kind < 0.45:
            params.append("%logic=" + rng.choice(LOGICS))
        if rng.random() < 0.05:
            params.append("%parent")
        out.append((depth, row + ("  " + " ".join(params) if params else "")))
        if not is_global and depth < maxdepth - 1 and rng.random() < 0.55 and not row.endswith("~"):
            out.extend(gen_patching(rng, depth + 1, maxdepth, logics, ignore, special))
    return out


def gen_ordering(rng, prows, vendor_reverse, depth=0, maxdepth=3, overlap=True):
    """ordering rules mostly drawn from the patching rule rows (so that they matter)"""
    out = []
    used = set()
    pool = list(prows)
    for _ in range(rng.randint(0, 5) if depth == 0 else rng.randint(0, 3)):
        if pool and rng.random() < 0.8:
            row = rng.choice(pool)
            if rng.random() < 0.3:
                row = row.split(" ")[0] if rng.random() < 0.5 else row.split(" ")[0] + " ~"
        else:
            row = gen_rule_row(rng, set())
        if rng.random() < 0.12:
            row = vendor_reverse + " " + row
        if row in used or (not overlap and any(r.split(" ")[0] == row.split(" ")[0] for r in used)):
            continue
        used.add(row)
        params = []
        if rng.random() < 0.12:
            params.append("%order_reverse")
        if rng.random() < 0.08:
            params.append("%global")
        if rng.random() < 0.08:
            params.append("%scope=" + rng.choice(["patch", "other"]))
        out.append((depth, row + ("  " + " ".join(params) if params else "")))
        if depth < maxdepth - 1 and rng.random() < 0.4:
            out.extend(gen_ordering(rng, prows, vendor_reverse, depth + 1, maxdepth, overlap))
    return out


def render(lines):
    return "\n".join("    " * d + t for d, t in lines) + ("\n" if lines else "")


def rule_rows(lines):
    return [t.split("  %")[0].lstrip("!") for _, t in lines]


# ------------------------------------------------------------------ config trees
def lines_to_tree(lines):
    """[(depth, text)] -> nested [(row, params, children)]"""
    root = []
    stack = [(-1, root)]
    for d, t in lines:
        while stack[-1][0] >= d:
            stack.pop()
        node = (t, [])
        stack[-1][1].append(node)
        stack.append((d, node[1]))
    return root


def inst(rng, rule_row):
    ws = []
    for w in rule_row.split(" "):
        if w == "*":
            ws.append(rng.choice(VALS))
        elif w == "~":
            ws.extend(rng.choice(VALS + NOUNS) for _ in range(rng.randint(1, 2)))
        else:
            ws.append(w)
    row = " ".join(ws)
    if not rule_row.endswith("~") and rng.random() < 0.3:
        row += " " + rng.choice(VALS)     # prefix semantics: same (rule, key), different text
    return row


def gen_cfg(rng, rtree, globals_=(), depth=0, one_per_key=True):
    """instantiate a rule tree: [(row, children)]"""
    out = []
    seen_rows = set()
    seen_keys = set()
    cands = list(rtree) + list(globals_)
    if not cands:
        return out
    for _ in range(rng.randint(0, 4) if depth else rng.randint(1, 5)):
        r = rng.random()
        if r < 0.9:
            text, kids = rng.choice(cands)
            rule_row = text.split("  %")[0].lstrip("!")
            row = inst(rng, rule_row)
            k = (rule_row, tuple(w for w, p in zip(row.split(" "), rule_row.split(" ")) if p in "*~"))
            if one_per_key and k in seen_keys:
                continue
            seen_keys.add(k)
            sub_globals = list(globals_) + [x for x in rtree if "%global" in x[0]]
        else:
            row = "unknown " + rng.choice(VALS)
            kids, sub_globals = [], []
        if row in seen_rows:
            continue
        seen_rows.add(row)
        ch = gen_cfg(rng, kids, sub_globals, depth + 1, one_per_key) if depth < 3 and rng.random() < 0.7 else []
        out.append([row, ch])
    return out


def mutate_cfg(rng, cfg, rtree, globals_=(), depth=0, one_per_key=True):
    """a second config derived from the first: rows dropped, added, changed, reordered, children mutated"""
    out = []
    for row, ch in cfg:
        r = rng.random()
        if r < 0.15:
            continue
        if r < 0.3:
            ws = row.split(" ")
            if len(ws) > 1:
                ws[-1] = rng.choice(VALS)
            row2 = " ".join(ws)
            if all(row2 != x[0] for x in out) and all(row2 != x[0] for x in cfg if x[0] != row):
                row = row2
        kids = []
        for text, k in list(rtree) + list(globals_):
            kids = k or kids
        ch2 = mutate_cfg(rng, ch, _kids_for(row, rtree), globals_, depth + 1, one_per_key) if rng.random() < 0.6 else ch
        out.append([row, ch2])
    if rng.random() < 0.5:
        extra = gen_cfg(rng, rtree, globals_, depth, one_per_key)
        have = {x[0] for x in out}
        for row, ch in extra[:2]:
            if row not in have:
                out.insert(rng.randint(0, len(out)), [row, ch])
                have.add(row)
    if rng.random() < 0.3 and len(out) > 1:
        i, j = rng.sample(range(len(out)), 2)
        out[i], out[j] = out[j], out[i]
    if one_per_key:
        out = _dedup_keys(out, rtree)
    return out


def _kids_for(row, rtree):
    best = []
    for text, kids in rtree:
        rr = text.split("  %")[0].lstrip("!").split(" ")
        ws = row.split(" ")
        if len(ws) >= len([w for w in rr if w != "~"]) and all(p in ("*", "~") or p == w for p, w in zip(rr, ws)):
            best = kids
            break
    return best


def _dedup_keys(cfg, rtree):
    seen = set()
    out = []
    for row, ch in cfg:
        k = None
        for text, _ in rtree:
            rr = text.split("  %")[0].lstrip("!").split(" ")
            ws = row.split(" ")
            if len(ws) >= len([w for w in rr if w != "~"]) and all(p in ("*", "~") or p == w for p, w in zip(rr, ws)):
                k = (text, tuple(w for w, p in zip(ws, rr) if p == "*") + (tuple(ws[len(rr) - 1:]) if rr[-1] == "~" else ()))
                break
        if k is not None and k in seen:
            continue
        seen.add(k)
        out.append([row, ch])
    return out


def to_odict(t):
    return odict((k, to_odict(c)) for k, c in t)


def to_list(d):
    return [[k, to_list(c)] for k, c in d.items()]


# ------------------------------------------------------------------ raw trees for the Lean side
def patching_scheme(vendor):
    from annet.vendors import registry_connector
    from valkit.common import valid_bool, valid_string_list
    from valkit.python import valid_object_path
    return {
        "global": {"validator": valid_bool, "default": False},
        "logic": {"validator": valid_object_path, "default": "common.default"},
        "diff_logic": {"validator": valid_object_path, "default": registry_connector.get()[vendor].diff(False)},
        "comment": {"validator": valid_string_list, "default": []},
        "multiline": {"validator": valid_bool, "default": False},
        "ordered": {"validator": valid_bool, "default": False},
        "rewrite": {"validator": valid_bool, "default": False},
        "parent": {"validator": valid_bool, "default": False},
        "force_commit": {"validator": valid_bool, "default": False},
        "ignore_case": {"validator": valid_bool, "default": False},
    }


def raw_patching(text, vendor):
    from annet.annlib.rbparser import syntax
    tree = syntax.parse_text(text, patching_scheme(vendor))

    def conv(t):
        out = []
        for raw, a in t.items():
            p = a["params"]
            out.append({"raw_rule": raw, "row": a["row"], "ignore": a["type"] == "ignore", "global": bool(p["global"]),
                        "logic": p["logic"], "diff_logic": p["diff_logic"], "ordered": bool(p["ordered"]),
                        "rewrite": bool(p["rewrite"]), "parent": bool(p["parent"]),
                        "force_commit": bool(p["force_commit"]), "children": conv(a["children"])})
        return out
    return conv(tree)


def raw_ordering(text):
    from annet.annlib.rbparser import syntax
    from valkit.common import valid_bool, valid_string_list
    tree = syntax.parse_text(text, {
        "order_reverse": {"validator": valid_bool, "default": False},
        "global": {"validator": valid_bool, "default": False},
        "scope": {"validator": valid_string_list, "default": None},
    })

    def conv(t):
        return [{"raw_rule": raw, "row": a["row"], "normal": a["type"] == "normal",
                 "order_reverse": bool(a["params"]["order_reverse"]), "global": bool(a["params"]["global"]),
                 "scope": a["params"]["scope"], "children": conv(a["children"])} for raw, a in t.items()]
    return conv(tree)


def compile_rb(ptext, otext, vendor):
    from annet.annlib.rbparser.ordering import compile_ordering_text
    from annet.rulebook.patching import compile_patching_text
    return {"patching": compile_patching_text(ptext, vendor), "ordering": compile_ordering_text(otext, vendor),
            "deploying": odict()}


def job_request(op, case, **extra):
    d = dict(op=op, vendor=vendor_info(case["vendor"]), patching=raw_patching(case["ptext"], case["vendor"]),
             ordering=raw_ordering(case["otext"]), old=case["old"], new=case["new"])
    d.update(extra)
    return d


# ------------------------------------------------------------------ canonical dumps of real objects
def dump_diff(diff):
    return [[op, row, dump_diff(ch), ([m["raw_rule"], list(m["key"])] if m else None)] for (op, row, ch, m) in diff]


def dump_patch(pt):
    out = []
    for it in pt.itms:
        k = it.sort_key
        key = None
        if k:
            o = k[0]
            key = ["inf" if o == float("inf") else ("-inf" if o == float("-inf") else int(o)), k[1], bool(k[2])]
        out.append([str(it.row), dump_patch(it.child) if it.child is not None else None, key])
    return out


def gen_case(rng, logics=True, ignore=True, special=True, one_per_key=None, overlap=True):
    vendor = rng.choice(VENDORS)
    plines = gen_patching(rng, logics=logics, ignore=ignore, special=special)
    info_rev = {"huawei": "undo", "cisco": "no", "arista": "no", "juniper": "delete", "nexus": "no", "routeros": "remove"}
    olines = gen_ordering(rng, rule_rows(plines), info_rev.get(vendor, "no"), overlap=overlap)
    rtree = lines_to_tree(plines)
    if one_per_key is None:
        one_per_key = rng.random() < 0.9
    old = gen_cfg(rng, rtree, one_per_key=one_per_key)
    r = rng.random()
    if r < 0.1:
        new = [list(x) for x in old]
    elif r < 0.2:
        new = gen_cfg(rng, rtree, one_per_key=one_per_key)
    else:
        new = mutate_cfg(rng, old, rtree, one_per_key=one_per_key)
    return dict(vendor=vendor, ptext=render(plines), otext=render(olines), old=old, new=new)


# ------------------------------------------------------------------ reference: which lines does a rulebook text know
class RefOutside(Exception):
    """a rule row outside the reference grammar (c07.tokenize) was consulted"""


def ref_rules(ptext):
    """the rule text read by indentation only (4 blanks per level, as `render` writes it):
    -> {"local": [rule], "global": [rule]} with rule = dict(row, ignore, local, global)"""
    root = dict(local=[], **{"global": []})
    stack = [(-1, root)]
    for line in ptext.split("\n"):
        if not line.strip():
            continue
        d = (len(line) - len(line.lstrip(" "))) // 4
        text = line.strip()
        row, _, ptxt = text.partition("  %")
        row = row.strip()
        ignore = row.startswith("!")
        row = row.lstrip("!").strip()
        params = dict((k, v if v else "1") for k, v in re.findall(r"(?:^|\s)%?(\w+)(?:=(\S+))?", ptxt))
        is_global = params.get("global", "0").strip() not in ("0", "", "false", "False")
        rule = dict(row=row, ignore=ignore, local=[], **{"global": []})
        while stack[-1][0] >= d:
            stack.pop()
        stack[-1][1]["global" if is_global else "local"].append(rule)
        stack.append((d, rule))
    return root


def ref_children(row, rules):
    """the rule language's reading of `_match_row_to_rules`: None = no non-ignore rule knows the row (or an ignore
    rule matches it); else the rules for its children (children of every matching local rule, inherited globals)"""
    from harness.props import c07
    hit = []
    for is_glob, lst in ((False, rules["local"]), (True, rules["global"])):
        for rule in lst:
            m = c07.ref_match(rule["row"], row)
            if m == "outside":
                raise RefOutside(rule["row"])
            if m is None:
                continue
            if rule["ignore"]:
                return None
            hit.append((is_glob, rule))
    if not hit:
        return None
    out = dict(local=[], **{"global": []})
    for is_glob, rule in hit:
        if not is_glob:
            out["local"] += rule["local"]
            out["global"] += rule["global"]
    out["global"] += rules["global"]
    return out


def ref_restricted(tree, rules):
    """tree|R by the reference reading"""
    out = []
    for row, ch in tree:
        cr = ref_children(row, rules)
        if cr is not None:
            out.append([row, ref_restricted(ch, cr)])
    return out


# ------------------------------------------------------------------ small scope, exhaustively
SMALL_RULE = (" plus the SMALL SPACE of harness/rbgen.py (30 rulebooks `a * [P] / x * [Q]`, `b` over small parameter alphabets x "
              "all ordered pairs of 104 configurations over {a 1, a 2, b} / {x 1, x 2} = 324480 pairs%s): exhaustively in the "
              "thorough tier%s, a seed-chosen slice in the quick tier;")
SMALL_TOP = [None, "%ordered", "%logic=common.undo_redo", "%logic=common.permanent", "%logic=common.ignore_changes"]
SMALL_CHILD = [None, "%ordered", "%rewrite", "%logic=common.undo_redo", "%logic=common.permanent", "%global"]
SMALL_ORDERINGS = ["", "b\na *\n    x *\n", "a *  %order_reverse\nb\n", "x *  %global\na *\n"]


def small_rulebooks():
    """every rulebook `a * [P] / x * [Q]` + `b` over the parameter alphabets above (the child rule may be %global)"""
    out = []
    for p in SMALL_TOP:
        for q in SMALL_CHILD:
            lines = [(0, "a *" + ("  " + p if p else "")), (1, "x *" + ("  " + q if q else "")), (0, "b")]
            out.append(render(lines))
    return out


def _ordered_selections(items, maxlen):
    out = [[]]
    frontier = [[]]
    for _ in range(maxlen):
        nxt = []
        for sel in frontier:
            for it in items:
                if it not in sel:
                    nxt.append(sel + [it])
        out += nxt
        frontier = nxt
    return out


def small_configs():
    """every configuration with top-level rows drawn (in every order) from {a 1, a 2, b} and, below each `a` row, children
    drawn in every order from {x 1, x 2} (two `a` rows: at most one child each, to keep the space small)"""
    tops = _ordered_selections(["a 1", "a 2", "b"], 3)
    kids_full = _ordered_selections(["x 1", "x 2"], 2)
    kids_one = _ordered_selections(["x 1", "x 2"], 1)
    out = []
    for t in tops:
        a_rows = [r for r in t if r.startswith("a ")]
        choices = kids_full if len(a_rows) <= 1 else kids_one

        def expand(i, acc):
            if i == len(t):
                out.append([list(x) for x in acc])
                return
            if t[i].startswith("a "):
                for ks in choices:
                    expand(i + 1, acc + [[t[i], [[k, []] for k in ks]]])
            else:
                expand(i + 1, acc + [[t[i], []]])
        expand(0, [])
    return out


def small_space_size():
    n = len(small_configs())
    return len(small_rulebooks()) * n * n


def small_cases(part, parts, vendors=("huawei", "cisco"), orderings=("",)):
    """the `part`-th of `parts` slices of the whole small space: rulebooks x ordered config pairs (x orderings)"""
    rbs = small_rulebooks()
    cfgs = small_configs()
    k = 0
    for ri, ptext in enumerate(rbs):
        for otext in orderings:
            for oi, old in enumerate(cfgs):
                for ni, new in enumerate(cfgs):
                    if k % parts == part:
                        yield dict(vendor=vendors[(ri + oi + ni) % len(vendors)], ptext=ptext, otext=otext,
                                   old=[list(x) for x in old], new=[list(x) for x in new])
                    k += 1
