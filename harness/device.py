"""Python twin of lean/AnnetModel/Spec/Device.lean: the device of C01/C02 ("one line per rulebook rule and key").
Written against the REAL rule matcher (patching._match_row_to_rules); cross-checked with the Lean specification
through the driver (op c01.apply)."""
from collections import OrderedDict as odict

EXITS = ["quit", "exit", "end-list", "end-filter", "endif", "exit-address-family", "end-set", "end-policy"]


def classify(rules, row):
    from annet.annlib import patching
    match, cr = patching._match_row_to_rules(row, rules)
    if not match:
        return None
    return (match["raw_rule"], tuple(match["key"]), match["attrs"]["logic"].__name__), cr


def same_slot(rules, slot, row):
    c = classify(rules, row)
    return c is not None and c[0][:2] == slot[:2]


def put_line(rules, slot, c, kids):
    if c in kids:
        return odict((r, ch) for r, ch in kids.items() if r == c or not same_slot(rules, slot, r))
    if any(same_slot(rules, slot, r) for r in kids):
        out = odict()
        done = False
        for r, ch in kids.items():
            if same_slot(rules, slot, r):
                if not done:
                    out[c] = odict()
                    done = True
            else:
                out[r] = ch
        return out
    kids = odict(kids)
    kids[c] = odict()
    return kids


def exec_leaf(reverse, rules, c, kids):
    if c in EXITS:
        return kids
    if reverse and c.startswith(reverse + " "):
        cl = classify(rules, c[len(reverse) + 1:])
        if cl is not None:
            slot = cl[0]
            return odict((r, ch) for r, ch in kids.items() if not same_slot(rules, slot, r))
    cl = classify(rules, c)
    if cl is None:
        return kids
    return put_line(rules, cl[0], c, kids)


def clear_rewrite(cr, kids):
    out = odict()
    for r, ch in kids.items():
        cl = classify(cr, r)
        if cl is not None and cl[0][2] == "rewrite":
            continue
        out[r] = ch
    return out


def is_rewrite_cmd(rules, c):
    cl = classify(rules, c)
    return cl is not None and cl[0][2] == "rewrite"


def exec_path(reverse, path, rules, here, visited, kids):
    if not path:
        return kids
    c = path[0]
    if is_rewrite_cmd(rules, c) and here not in visited:
        visited.append(here)
        kids = clear_rewrite(rules, kids)
    if len(path) == 1:
        return exec_leaf(reverse, rules, c, kids)
    cl = classify(rules, c)
    if cl is None:
        return kids
    slot, cr = cl
    kids = put_line(rules, slot, c, kids)
    out = odict()
    for r, ch in kids.items():
        if r == c:
            out[r] = exec_path(reverse, path[1:], cr, here + (c,), visited, ch)
        else:
            out[r] = ch
    return out


def apply_cmds(reverse, rules, paths, dev):
    visited = []
    kids = dev
    for p in paths:
        kids = exec_path(reverse, tuple(p), rules, (), visited, kids)
    return kids
